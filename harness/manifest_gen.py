"""Regenerates /verif/MANIFEST.json from the table below (python3 harness/manifest_gen.py)."""
import json
import os

VERIF = os.path.dirname(os.path.dirname(os.path.abspath(__file__)))
TECH = ('explicit TLA+ specification model-checked with TLC; TLC-generated behaviours replayed '
        'into the real code; recorded executions validated by TLC against the trace specification')

CHECKS = {
    'C15': dict(
        text='LineFraming.tla and LengthPrefix.tla model unframe() with its carry-over buffer and an '
             'environment that cuts the wire anywhere (empty chunks, truncation of the last '
             'length-prefixed frame). TLC checks Confluence (operator state is a function of the '
             'delivered prefix) and RoundTrip for every item list over a small alphabet and every '
             'chunking. The binding is two-way: TLC-generated behaviours (exhaustive at tiny bounds, '
             'simulation beyond) are replayed through the real frame()/unframe(), random executions '
             'over full Unicode / all bytes / prefix sizes 1,2,4,8 / both byte orders are recorded, '
             'and TLC validates every recorded execution with LineFramingTrace / LengthPrefixTrace.',
        note='Bounded: model alphabets of 2-3 symbols, <=3 items of length <=3, chunks <=4; larger '
             'inputs only by random traces. Trusts rx Subject synchronous delivery, the TLC '
             'implementation and the Json community module.',
        design='8 (C15), Appendix C',
        engine='framing'),
}

ENGINES = [
    dict(name='framing', path='spec/LineFraming.tla spec/LengthPrefix.tla spec/*Trace.tla harness/checks/c15.py',
         serves_properties=['C15'], kind_free_text='TLA+ transducer spec + TLC + trace validation'),
]

PENDING = 'check not built yet (work in progress; will be claimed when its TLA+ spec and conformance harness are committed)'


def main():
    ids = [json.loads(l)['id'] for l in open(os.path.join(VERIF, 'properties.jsonl'))]
    m = {
        'version': 1,
        'setup_cmd': 'bin/setup',
        'hooks': {
            'guard': 'RXSCI_VERIF',
            'enable': 'none needed: all observation goes through public extension points '
                      '(user-level tap operators, store_factory, Subjects, file-like objects)',
            'baseline_off_cmd': 'cd /repo && /venv/bin/python -m pytest -ra -q -p no:cacheprovider '
                                '--timeout=900 --continue-on-collection-errors',
            'source_commits': [],
            'add_only': True,
        },
        'engines': ENGINES,
        'checks': [],
        'notes': 'Model-based verification with explicit TLA+ specifications (see DESIGN.md). '
                 'bin/check <ID> <tier> exits 0 (held) / 1 (VIOLATION line) / 2 (machinery failure). '
                 'RXSCI_REPO selects the tree under test (default /repo).',
        'not_applicable': [],
    }
    for i in ids:
        c = CHECKS.get(i)
        if c is None:
            m['not_applicable'].append({'property_id': i, 'reason': PENDING})
            continue
        m['checks'].append({
            'property_id': i,
            'quick_cmd': 'bin/check %s quick' % i,
            'thorough_cmd': 'bin/check %s thorough' % i,
            'evidence_file': '/verif/evidence/%s.json' % i,
            'replay_cmd_template': 'bin/check %s --replay {path}' % i,
            'engine': c.get('engine', ''),
            'level_claimed': {'category': c.get('category', 'model_checking'), 'text': c['text'],
                              'design_ref': c.get('design', '')},
            'level_note': c['note'],
            'technique': c.get('technique', TECH),
        })
    with open(os.path.join(VERIF, 'MANIFEST.json'), 'w') as f:
        json.dump(m, f, indent=1)
    print('MANIFEST.json: %d checks, %d not yet claimed' % (len(m['checks']), len(m['not_applicable'])))


if __name__ == '__main__':
    main()
