"""Regenerates /verif/MANIFEST.json from the table below (python3 harness/manifest_gen.py)."""
import json
import os

VERIF = os.path.dirname(os.path.dirname(os.path.abspath(__file__)))
TECH = ('explicit TLA+ specification model-checked with TLC; TLC-generated behaviours replayed '
        'into the real code; recorded executions validated by TLC against the trace specification')

CHECKS = {
    'C15': dict(
        text='LineFraming.tla and LengthPrefix.tla model unframe() with its carry-over buffer and an '
             'environment that cuts the wire anywhere (empty chunks, truncation of the last '
             'length-prefixed frame). TLC checks Confluence (operator state is a function of the '
             'delivered prefix) and RoundTrip for every item list over a small alphabet and every '
             'chunking. The binding is two-way: TLC-generated behaviours (exhaustive at tiny bounds, '
             'simulation beyond) are replayed through the real frame()/unframe(), random executions '
             'over full Unicode / all bytes / prefix sizes 1,2,4,8 / both byte orders are recorded, '
             'and TLC validates every recorded execution with LineFramingTrace / LengthPrefixTrace.',
        note='Bounded: model alphabets of 2-3 symbols, <=3 items of length <=3, chunks <=4; larger '
             'inputs only by random traces. Trusts rx Subject synchronous delivery, the TLC '
             'implementation and the Json community module.',
        design='8 (C15), Appendix C',
        engine='framing'),
}

CHECKS['C16'] = dict(
    text='StreamCodec.tla axiomatises zlib/zstandard as nondeterministic-release streaming (de)compressors over a '
         'wire of header / data / trailer units and models the rxsci compress()/decompress() wrappers as coded '
         '(flush on completion, eof check, named deviation AfterEof for the zstandard object). TLC checks, for every '
         'plain chunk list, every re-chunking (empty chunks included) and every truncation point: emitted text is a '
         'prefix of the plain text, clean completion implies equality, a truncated wire ends with an error, an '
         'untruncated one completes. TLC behaviours are replayed on the real gzip/zstd operators, every 2-cut and '
         'truncation point of small real streams is enumerated at byte level, random executions up to 300 kB are '
         'recorded, and StreamCodecTrace.tla validates every execution (library axioms checked on each trace; '
         'reference decoders gzip/zstandard judge the standalone-file clause).',
    note='The compression libraries are assumed components (axioms validated on every trace, not proved); bounded '
         'model (<=3 chunks, <=4 symbols); corrupted streams and data after the end marker are out of scope.',
    design='8 (C16), 3.2, Appendix C', engine='stream-codec')
CHECKS['C20'] = dict(
    text='ParquetDump.tla models the dump pipeline on a plain observable as coded: batch() through scan_obs with '
         'python list identity as a heap, create_record with its column buffer, the writer, and the loader reading '
         'batches of m rows; constants FixBatch/FixBuffer select the defective or repaired transitions. TLC proves '
         'RoundTrip (file rows = 1..N once each, in order) for all N<=9 (14), b<=4 (6), m<=3 (4) on the repaired '
         'variant and collects the failing (N,b) of the others. Every (N,b,m) is replayed with real pyarrow '
         '(none/snappy/gzip/zstd, path / BytesIO / file object, row_group_size, three schemas incl. nested), random '
         'executions go up to N=5000, and ParquetDumpTrace.tla validates every recorded execution; the check also '
         'determines which model variant the code follows.',
    note='pyarrow is an assumed component (writer appends record batches, reader returns them); bounded model; '
         'random executions keep N/b small for big batches.',
    design='8 (C20), Appendix C', engine='parquet')

CHECKS['C17'] = dict(
    text='TextCodec.tla models characters by their byte width per encoding (utf-8 1..4, utf-16 2/4 + BOM once, utf-32 '
         '4 + BOM once, latin-1 1), the incremental decoder buffering the bytes of an incomplete character or BOM, and '
         'the rxsci encode()/decode() wrappers as coded (one codec object per subscription, final flush on '
         'completion, the incremental=False mode). TLC checks Confluence (decoded text = characters whose last byte '
         'was fed), RoundTrip, OneBOM for every string list over a 5-character palette and every byte-level '
         're-chunking incl. cuts inside characters and inside the BOM. The palette is instantiated with real '
         'characters of those widths, so TLC behaviours replay byte-exactly on the real operators; random executions '
         'cover the full Unicode range; TextCodecTrace.tla validates every recorded execution.',
    note='Python codecs are assumed components (width axioms checked on every trace); bounded model (<=3 strings of '
         '<=2 characters); streams truncated inside a character are outside the property (reported only).',
    design='8 (C17), 3.2, Appendix C', engine='text-codec')

CHECKS['C01'] = dict(
    text='PlainSem.tla gives the step-wise semantics of a pipeline of dual-mode operators on the items of one group in '
         'two readings (plain: take/first complete the stream early; multiplexed: a key completes with its parent), '
         'including tee_map with its three joins and nested tees. TLC (PlainCheck.tla) proves for every pipeline of a '
         'bounded grammar and every item sequence that both readings deliver the same items under the preconditions of '
         'the property, and that without the tee precondition they do not. The real code is executed in BOTH modes on the '
         'same keyed input - the multiplexed pipeline with interleaved keys (direct mux events, and under '
         'with_memory_store + group_by) and the plain observable per group - for random well-typed pipelines of all '
         'dual-mode operators to depth 4 with tees; PlainTrace.tla judges every pair (equal item sequences per group, '
         'failure at the same item for assertions) and also compares both with PlainSem.',
    note='Oracle = the plain execution itself (relational property). Preconditions enforced by the grammar or detected '
         'dynamically (empty group reaching first/last/mean(reduce): skipped and counted). Bounded / sampled.',
    design='8 (C01)', engine='plain-vs-mux')
CHECKS['C18'] = dict(
    text='Csv.tla transcribes dump escaping, str.split, the token automaton of merge_escape_parts, unescaping and '
         'parse_line as pure TLA+ operators parameterised by separator / quote / escape (variants: the code as it was, '
         'and with the trailing-escape parity test); CsvNumber.tla transcribes parse_decimal in exact rational '
         'arithmetic. TLC enumerates all rows of 1-3 string fields up to length 3 over a 5-symbol alphabet (one- and '
         'two-symbol separators) and all numerals up to length 6, checks ParseLine(Dump(row)) = row and '
         'Parse(numeral) = Value(numeral), and characterises exactly the failing rows of the defective variant. Every '
         'enumerated row/numeral is replayed on the real dump/create_line_parser/parse_decimal; random typed rows '
         '(1-8 columns, all separators, 64-bit ints, floats via str()) and files crossing the 64 KiB read boundary are '
         'recorded; CsvTrace.tla validates every recorded execution field by field.',
    note='Bounded alphabet for the exhaustive part; strings contain no line-boundary characters; float equality judged '
         'in python with exact Fractions and logged for TLC.',
    design='8 (C18), Appendix C', engine='csv')
CHECKS['C19'] = dict(
    text='JsonLines.tla composes the stages of load_from_file as coded - file.read(R) with full and short reads, '
         'optional decompression (nondeterministic release, eof check), incremental decode buffering incomplete '
         'characters, line.unframe (reusing LineFraming), load dropping empty lines - over an axiomatised serializer. '
         'TLC checks stage-wise Confluence, NoEarlyOutput, NoError and RoundTrip for every object list, compression '
         'on/off and read size 1..4, i.e. every alignment of read boundaries with multi-byte characters, compressed '
         'units and line ends. TLC behaviours are replayed into the real load_from_file through a file-like object '
         'returning exactly the planned reads on files really produced by dump_to_file; random executions cover nested '
         'JSON values, full Unicode, none/gzip/zstd and files of several 64 KiB chunks; JsonLinesTrace.tla validates a '
         'down-scaled image of every execution.',
    note='json/orjson, codecs, zlib/zstandard are assumed components; the down-scaling of real executions to '
         'model size is trusted python (cross-checked by TLC on line and byte counts).',
    design='8 (C19), Appendix C', engine='json-lines')

CHECKS['C12'] = dict(
    text='MathAgg.tla models the accumulators exactly as coded - the Welford update (m, s, k) of variance, mean\'s '
         '(sum, count), sum, min/max from None, the two-pass moments of formal.variance (constant FormalClears selects '
         'the defective or repaired behaviour), key_mapper applied once - in exact rational arithmetic, next to '
         'specification-level definitions Mean / SampleVar / PopVar / Sum / Min / Max over the item multiset. TLC checks '
         'for every integer sequence over -3..3 up to length 6 (8): the Welford identity, emitted variance = '
         'SampleVar(prefix) (0 below two items), stddev^2 = variance, formal.variance = PopVar(prefix), last streaming '
         'value = reduce value, the empty-sequence cases. TLC behaviours are replayed into the real operators on the '
         'plain and multiplexed paths, streaming and reduce, with Fraction items (results must equal the model\'s '
         'rationals exactly) and floats; MathAggTrace.tla validates every recorded execution. The floating-point clause '
         'is an auxiliary numeric probe (sampling, labelled as such): sequences up to 10^4 items with offsets to 1e6 '
         'and scales 1e+-140 against the specification definitions evaluated in exact Fractions, tolerance '
         '8*n*eps*kappa (a sum-of-squares variance fails it by 2e7x).',
    note='TLC has no reals: the algebra is decided exactly, the round-off clause only by the numeric probe. math.sqrt is '
         'symbolic in the model. Bounded sequences; formal.* with smaller bounds (one state per sequence).',
    design='8 (C12), 12', engine='math-agg')

CHECKS['C14'] = dict(
    text='Store.tla transcribes MemoryStore (parallel values/state/keys arrays indexed by key[0], the growth loop, markers '
         'NOTSET/SET/CLEARED, default values, typed arrays per data_type with the conversion back to bool, the mapper dict '
         'per slot with next_index/free_slots) next to an abstract dictionary model (index -> absent | fresh | value; map '
         'key -> group index; allocator never hands out an index in use) updated in lock-step. TLC checks for every history '
         'of <=6 (8) calls over sparse, descending and repeated indices, every data type with and without default: every '
         'returned value equals the dictionary model (RetEqualsModel), Refines, ReAddFresh, AllocatorFresh, Isolation. TLC '
         'behaviours are replayed on a real MemoryStore and through StoreManager, random call sequences use indices up to '
         '2000, a recording store factory logs the calls real pipelines (roll, group_by, tee_map, split) make, and '
         'StoreTrace.tla validates every recorded call sequence on return values only.',
    note='Calls outside the documented contract (set/get/del_key on a slot that is not live) are not judged; del_map is not '
         'among the operations the property names: its result and the maps of that index are not judged until the index is '
         'added again. Values are abstracted to (type, equality class).',
    design='8 (C14)', engine='store')

MUX_NOTE = ('Bounded / sampled: TLC explores the specification side exhaustively within small constants; '
            'the real code is driven on harness-enumerated small inputs and on random cases of the '
            'property\'s operator family, every recorded execution is judged by TLC. Trusts: the taps '
            '(user-level operators) observe events in true emission order because rxsci is synchronous; '
            'user functions come from the finite library FnLib; TLC, the Json module and rx Subjects.')


def mux_text(what):
    return ('Layer-A contracts in TLA+ (ListSem.tla: list semantics R/F of every operator, window/run/'
            'group/session partitions; Contracts.tla: relations between the event logs of adjacent '
            'operator boundaries, with the causing input event of every output so that emission time is '
            'part of the contract). ' + what + ' TLC model-checks the list semantics against independent '
            'formulations of the statement (ListSemCheck.tla) and judges every execution recorded from '
            'the real code, with a tap at every boundary, through MuxTrace.tla; only clauses belonging to '
            'this property count as its violations. The executions vary more than the inputs: interleavings '
            'and key-slot histories, one python operator object / pipeline list used at several places, a '
            'warm-up subscription of the same piped observable disposed mid-stream or an earlier application of '
            'the same operator objects to another source, other with_memory_store pipelines alive on the same '
            'feed, re-entrant delivery (the '
            'subscriber pushes the next item from inside on_next), the multi-source form of with_store, '
            'sources that deliver inside subscribe(); every case is also run with taps at the two ends only '
            'and must give the same outputs.')


MUX = {
    'C02': 'C02: the contracts are functions of one key lifetime\'s items only, so an accepted trace means the '
           'outputs of every lifetime depended on nothing else; driven with every stateful operator inside '
           'every key-reusing parent (roll ring reuse, tumbling roll, split, time_split, nested group_by, '
           're-created top-level keys), interleaved parents.',
    'C03': 'C03: the key lifecycle automaton (create / items / exactly one completion, unique slot index among '
           'live keys, everything completed at stream completion) is evaluated at every boundary of every '
           'pipeline, including the boundaries inside composite operators and tee branches.',
    'C04': 'C04: the child lifetimes at the head of group_by\'s inner pipeline must be Groups(key_mapper, items): '
           'exhaustive item sequences over 4 values x 3 key functions, key functions returning '
           'equal-but-not-identical objects, nesting in group_by/roll/split, many keys.',
    'C05': 'C05: the child lifetimes at the head of roll\'s inner pipeline must be Windows(w, s, n) created, fed '
           'and closed in the right steps and closed in opening order: all 1<=w,s<=5 (6), lengths 0..14, '
           'interleaved parents, nesting. Unbounded complement: the inductive invariant of RollRing.tla (the slot '
           'ring holds exactly the windows that should be open, so a slot is free when recycled) is discharged by '
           'Apalache for fixed geometries and every stream length.',
    'C06': 'C06: child lifetimes of split must be the maximal runs Runs(predicate values): exhaustive sequences, '
           'predicates returning equal-but-not-identical objects, nesting.',
    'C07': 'C07: non-empty child lifetimes of time_split must be Sessions(active, inactive, closing, include): '
           'all configurations x exhaustive small timestamp/closing-flag sequences (equal timestamps, gaps equal '
           'to a timeout), integer and datetime renderings, interleaved keys.',
    'C08': 'C08: every branch head sees the source events; the output is Join(mode, branch tail events in '
           'emission order) with a join state per key lifetime: branch catalogue x 3 joins, 2..4 branches, '
           'nested tee, under group_by/roll/split, one tee_map object applied several times; in plain mode '
           'every branch, observed at its tail, delivers and completes as the same pipeline alone (PlainSem.tla).',
    'C09': 'C09: scan and every operator defined through it equal the left fold of the lifetime\'s items '
           '(streaming / reduce / terminator, seeds as values and factories, mutating accumulators), all '
           'interleavings of short keys, inside windows and groups.',
    'C10': 'C10: first/last/take/distinct/distinct_until_changed/lag/pad_start/pad_end/start_with/batch against '
           'their list definitions on every sequence over {0,1,2,None} up to length 4 (5) and all parameters.',
    'C11': 'C11: every contract compares outputs together with the source event that caused them (-timing, '
           '-child-item-step, -child-close-step clauses): random nested pipelines plus a dedicated promptness '
           'set; for the framing operators the chunk in which every line / frame is emitted is compared with '
           'LineFraming.tla / LengthPrefix.tla (framing-emission-time).',
    'C13': 'C13: failing user functions (every subset of failing positions) x handlers none/ignore/error.map/'
           'router x stateful operators downstream, handlers inside nested keys; dead-letter order and '
           'completion; unhandled errors (also in front of key-creating operators) must end the stream with '
           'that exception where it is demultiplexed.',
}
for _i, _t in MUX.items():
    CHECKS[_i] = dict(text=mux_text(_t), note=MUX_NOTE, design='8 (%s), Appendix A/B' % _i, engine='mux-contracts')

ENGINES = [
    dict(name='framing', path='spec/LineFraming.tla spec/LengthPrefix.tla spec/*Trace.tla harness/checks/c15.py',
         serves_properties=['C15'], kind_free_text='TLA+ transducer spec + TLC + trace validation'),
    dict(name='stream-codec', path='spec/StreamCodec.tla spec/StreamCodecTrace.tla harness/checks/c16.py',
         serves_properties=['C16'], kind_free_text='TLA+ transducer spec with axiomatised library + TLC + trace validation'),
    dict(name='text-codec', path='spec/TextCodec.tla spec/TextCodecTrace.tla harness/checks/c17.py',
         serves_properties=['C17'], kind_free_text='TLA+ transducer spec + TLC + trace validation'),
    dict(name='plain-vs-mux', path='spec/PlainSem.tla spec/PlainCheck.tla spec/PlainTrace.tla harness/checks/c01.py',
         serves_properties=['C01'], kind_free_text='TLA+ two-reading semantics + TLC + paired executions judged by TLC'),
    dict(name='csv', path='spec/Csv.tla spec/CsvNumber.tla spec/CsvTrace.tla harness/checks/c18.py',
         serves_properties=['C18'], kind_free_text='TLA+ transcription of pure functions, exhaustive enumeration, trace validation'),
    dict(name='json-lines', path='spec/JsonLines.tla spec/JsonLinesTrace.tla harness/checks/c19.py',
         serves_properties=['C19'], kind_free_text='TLA+ staged pipeline model + TLC + trace validation'),
    dict(name='math-agg', path='spec/MathAgg.tla spec/MathAggTrace.tla harness/checks/c12.py',
         serves_properties=['C12'], kind_free_text='TLA+ accumulator model in exact rationals + TLC + trace validation + numeric probe'),
    dict(name='store', path='spec/Store.tla spec/StoreTrace.tla harness/checks/c14.py harness/c14_recstore.py',
         serves_properties=['C14'], kind_free_text='TLA+ refinement (arrays+markers vs dictionary) + TLC + trace validation'),
    dict(name='parquet', path='spec/ParquetDump.tla spec/ParquetDumpTrace.tla harness/checks/c20.py',
         serves_properties=['C20'], kind_free_text='TLA+ implementation model (heap of python lists) + TLC + trace validation'),
    dict(name='mux-contracts', path='spec/FnLib.tla spec/ListSem.tla spec/ListSemCheck.tla spec/Contracts.tla '
                                    'spec/MuxTrace.tla harness/mux.py harness/muxgen.py harness/muxcheck.py '
                                    'harness/checks/muxprops.py',
         serves_properties=sorted(MUX), kind_free_text='TLA+ contracts over boundary logs + TLC trace validation'),
]

PENDING = 'check not built yet (work in progress; will be claimed when its TLA+ spec and conformance harness are committed)'


def main():
    ids = [json.loads(l)['id'] for l in open(os.path.join(VERIF, 'properties.jsonl'))]
    m = {
        'version': 1,
        'setup_cmd': 'bin/setup',
        'hooks': {
            'guard': 'RXSCI_VERIF',
            'enable': 'none needed: all observation goes through public extension points '
                      '(user-level tap operators, store_factory, Subjects, file-like objects)',
            'baseline_off_cmd': 'cd /repo && /venv/bin/python -m pytest -ra -q -p no:cacheprovider '
                                '--timeout=900 --continue-on-collection-errors',
            'source_commits': [],
            'add_only': True,
        },
        'engines': ENGINES,
        'checks': [],
        'notes': 'Model-based verification with explicit TLA+ specifications (see DESIGN.md). '
                 'bin/check <ID> <tier> exits 0 (held) / 1 (VIOLATION line) / 2 (machinery failure). '
                 'RXSCI_REPO selects the tree under test (default /repo).',
        'not_applicable': [],
    }
    for i in ids:
        c = CHECKS.get(i)
        if c is None:
            m['not_applicable'].append({'property_id': i, 'reason': PENDING})
            continue
        m['checks'].append({
            'property_id': i,
            'quick_cmd': 'bin/check %s quick' % i,
            'thorough_cmd': 'bin/check %s thorough' % i,
            'evidence_file': '/verif/evidence/%s.json' % i,
            'replay_cmd_template': 'bin/check %s --replay {path}' % i,
            'engine': c.get('engine', ''),
            'level_claimed': {'category': c.get('category', 'model_checking'), 'text': c['text'],
                              'design_ref': c.get('design', '')},
            'level_note': c['note'],
            'technique': c.get('technique', TECH),
        })
    with open(os.path.join(VERIF, 'MANIFEST.json'), 'w') as f:
        json.dump(m, f, indent=1)
    print('MANIFEST.json: %d checks, %d not yet claimed' % (len(m['checks']), len(m['not_applicable'])))


if __name__ == '__main__':
    main()
