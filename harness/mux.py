"""Driving and observing the real multiplexed-stream operators.

 * the python side of the function library (spec/FnLib.tla)
 * value codec python <-> tagged JSON values
 * pipeline descriptor -> real rxsci pipeline with a *tap* at every boundary
 * drivers: mux-direct (events pushed on a MuxObservable), plain source through
   with_memory_store, and the plain (non multiplexed) code path
No change to rxsci is needed: a tap is an ordinary user-level operator.
"""
import copy
import math
from array import array
from collections import deque
from fractions import Fraction

from . import common as C


class VerifError(Exception):
    def __init__(self, code):
        super().__init__('verif error %r' % (code,))
        self.code = code


class VerifAssert(ValueError):
    pass


# user functions fail with exceptions of several builtin families (the operators must not
# care which): the class is chosen by the error code
class VerifTypeError(VerifError, TypeError):
    pass


class VerifValueError(VerifError, ValueError):
    pass


class VerifLookupError(VerifError, LookupError):
    pass


_ERRORS = {}


def verif_error(code):
    """the exception a failing user function raises for `code`: one instance per code, raised
    again and again (a module-level sentinel exception is legal python)"""
    if code not in _ERRORS:
        k = code % 4 if isinstance(code, int) else 0
        _ERRORS[code] = (VerifError, VerifValueError, VerifTypeError, VerifLookupError)[k](code)
    e = _ERRORS[code]
    e.__traceback__ = None
    return e


class _Undecided(object):
    def __bool__(self):
        raise ValueError('the truth value of a comparison of array-like items is ambiguous')


class Ambiguous(object):
    """An item that can be carried around but not compared: == and != give a result without a
    truth value (as numpy arrays, pandas objects and query expressions do)."""
    __slots__ = ('n',)
    _cache = {}

    def __init__(self, n):
        self.n = n

    @classmethod
    def of(cls, n):
        if n not in cls._cache:
            cls._cache[n] = cls(n)
        return cls._cache[n]

    def __eq__(self, other):
        return _Undecided()

    def __ne__(self, other):
        return _Undecided()

    __hash__ = object.__hash__

    def __repr__(self):
        return 'Ambiguous(%d)' % self.n


# ------------------------------------------------------------------ value codec

EXACT_FLOATS = [0]


class exact_floats:
    """While a run is fed with bit-exact float items (tag 'fl'), every float it emits is
    recorded bit-exactly as well: two executions are then compared to the last bit (such
    values are opaque for the specification: equality only)."""

    def __init__(self, encoded):
        self.on = _has_fl(encoded)

    def __enter__(self):
        EXACT_FLOATS[0] += self.on

    def __exit__(self, *exc):
        EXACT_FLOATS[0] -= self.on


def _has_fl(x):
    if isinstance(x, dict):
        return any(_has_fl(v) for v in x.values())
    if isinstance(x, (list, tuple)):
        return (len(x) == 2 and x[0] == 'fl' and isinstance(x[1], str)) or any(_has_fl(v) for v in x)
    return False


def enc(v):
    """python value -> tagged JSON value [tag, payload] (a snapshot: nothing is shared
    with v); becomes the TLA+ tuple <<tag, payload>>"""
    if v is None:
        return ['n']
    if isinstance(v, bool):
        return ['b', v]
    if type(v).__module__ == 'numpy' and hasattr(v, 'item') and getattr(v, 'shape', None) == ():
        # a numpy scalar (an item taken from an array): its == / != return numpy.bool_
        return ['np', type(v).__name__, enc(v.item())]
    if isinstance(v, int):
        if not -2**31 < v < 2**31:
            return ['f', repr(v)]
        return ['i', v]
    if isinstance(v, float):
        if EXACT_FLOATS[0] and v == v and v not in (float('inf'), float('-inf')) and v != int(v):
            return ['fl', v.hex()]      # bit-exact (an opaque value for the specification)
        if v != v:
            return ['nan']
        if v in (float('inf'), float('-inf')):
            return ['f', repr(v)]
        fr = Fraction(v)
        if fr.denominator == 1:
            return enc(int(fr))
        ap = fr.limit_denominator(10000)
        if abs(ap - fr) <= abs(fr) * Fraction(1, 10**9):
            return ['q', ap.numerator, ap.denominator]
        return ['f', repr(v)]
    if isinstance(v, Fraction):
        if v.denominator == 1:
            return enc(int(v))
        return ['q', v.numerator, v.denominator]
    if isinstance(v, Ambiguous):
        return ['o', v.n]
    if isinstance(v, tuple):
        return ['t', [enc(x) for x in v]]
    if isinstance(v, (list, deque, array)):
        return ['l', [enc(x) for x in v]]
    if isinstance(v, VerifError):
        return ['x', v.code]
    if isinstance(v, VerifAssert):
        return ['x', -2]
    if isinstance(v, BaseException):
        return ['x', -1]
    if isinstance(v, str):
        return ['s', v]
    return ['f', repr(v)]


def dec(d):
    k = d[0]
    if k == 'n':
        return None
    if k in ('i', 'b', 's'):
        return d[1]
    if k == 't':
        return tuple(dec(x) for x in d[1])
    if k == 'l':
        return [dec(x) for x in d[1]]
    if k == 'q':
        return Fraction(d[1], d[2])
    if k == 'fl':
        return float.fromhex(d[1])
    if k == 'np':
        import numpy
        return getattr(numpy, d[1])(dec(d[2]))
    if k == 'o':
        return Ambiguous.of(d[1])
    if k == 'nan':
        return math.nan           # the singleton: the same object every time
    raise C.MachineryError('cannot decode %r' % (d,))


def I(n):
    return ['i', n]


NONE = ['n']


def flat_key(k):
    """(k2, (k1, (k0,))) -> [k2, k1, k0]; anything that is not an integer index (a mutated
    operator may put sentinels or wrong nesting there) becomes -999, which no contract
    expects"""
    def comp(x):
        return x if isinstance(x, int) and not isinstance(x, bool) and -2**31 < x < 2**31 else -999
    out = []
    depth = 0
    while isinstance(k, tuple) and len(k) == 2 and depth < 64:
        out.append(comp(k[0]))
        k = k[1]
        depth += 1
    if isinstance(k, tuple) and len(k) == 1:
        out.append(comp(k[0]))
    else:
        out.append(-999)
    return out


# ------------------------------------------------------------------ function library

def fn(n, c=0):
    return {'n': n, 'c': c}


def mk_fn(f, variant=None):
    n, c = f['n'], f['c']
    if n == 'id':
        g = lambda x: x
    elif n == 'addc':
        g = lambda x: x + c
    elif n == 'mulc':
        g = lambda x: x * c
    elif n == 'modc':
        g = lambda x: x % c
    elif n == 'divc':
        g = lambda x: x // c
    elif n == 'constc':
        g = lambda x: c
    elif n == 'dup':
        g = lambda x: (x, x)
    elif n == 'fst':
        g = lambda x: x[0]
    elif n == 'snd':
        g = lambda x: x[1]
    elif n == 'fstmodc':
        g = lambda x: x[0] % c
    elif n == 'noneIf':
        g = lambda x: None if x == c else x
    elif n == 'nanIf':
        g = lambda x: math.nan if x == c else x
    elif n == 'seqc':
        calls = [0]

        def g(x):          # not a function of the item: a round-robin dispatcher
            calls[0] += 1
            return (calls[0] - 1) % c
    elif n == 'appendc':
        def g(x):
            x.append(c)          # in place: the consumer owns what it receives
            return x
    elif n == 'failIf':
        def g(x):
            if x == c:
                raise verif_error(c)
            return x
    elif n == 'failMod':
        def g(x):
            if isinstance(x, int) and x % 3 == c:
                raise verif_error(x)
            return x
    elif n == 'list3':
        g = lambda x: [x, x + 10, x + 20]
    elif n == 'listn':
        g = lambda x: [x * 10 + j for j in range(1, x % 3 + 1)]
    elif n == 'errcode':
        g = lambda e: e.code if isinstance(e, VerifError) else -1
    elif n == 'errconst':
        g = lambda e: c
    elif n == 'errnone':
        g = lambda e: None
    else:
        raise C.MachineryError('unknown function %r' % (f,))
    if variant is None or variant == 'int':
        return g
    # key functions returning equal-but-not-identical objects (injective images)
    if variant == 'bigint':
        return lambda x: 10**12 + g(x)
    if variant == 'tuple':
        return lambda x: (g(x), 'k')
    if variant == 'str':
        return lambda x: 'key-%d' % g(x)
    if variant == 'float':
        return lambda x: float(g(x)) + 0.5
    if variant == 'altfloat':
        # the same value in turn as int, float and bool (1 == 1.0 == True, equal hashes): equal
        # but of different types
        cnt = [0]

        def alt(x):
            cnt[0] += 1
            v = g(x)
            if not isinstance(v, int) or isinstance(v, bool):
                return v
            if cnt[0] % 3 == 2 and v in (0, 1):
                return bool(v)                  # True == 1, False == 0
            return float(v) if cnt[0] % 3 == 1 else v
        return alt
    if variant == 'strenum':
        # members of a str-mixin Enum: they hash and compare like their value, their str() is
        # something else ('K.M3')
        return lambda x: _str_enum()['M%d' % (g(x) + 50)]
    if variant == 'npint':
        # numpy scalars (fields of items taken from an array): their == / != return numpy.bool_,
        # which is truthy / falsy but is not the object True / False
        import numpy
        return lambda x: (lambda v: numpy.int64(v) if isinstance(v, int) and not isinstance(v, bool) else v)(g(x))
    if variant == 'sentinel':
        # one fixed object() per value: compared by identity only, not copyable into an equal
        return lambda x: _SENTINELS.setdefault(g(x), _Sentinel(g(x)))
    raise C.MachineryError('unknown variant %r' % variant)


class _Sentinel(object):
    __slots__ = ('v',)

    def __init__(self, v):
        self.v = v

    def __copy__(self):
        return _Sentinel(self.v)          # a copy is another object, hence a different key

    def __repr__(self):
        return 'S%r' % (self.v,)


_SENTINELS = {}
_ENUM = []


def _str_enum():
    if not _ENUM:
        import enum
        _ENUM.append(enum.Enum('K', {'M%d' % j: 'k%d' % j for j in range(0, 200)}, type=str))
    return _ENUM[0]


def mk_pred(p):
    n, c = p['n'], p['c']
    if n == 'true':
        return lambda x: True
    if n == 'false':
        return lambda x: False
    if n == 'even':
        return lambda x: x % 2 == 0
    if n == 'ltc':
        return lambda x: x < c
    if n == 'gec':
        return lambda x: x >= c
    if n == 'nec':
        return lambda x: x != c
    if n == 'notNone':
        return lambda x: x is not None
    if n == 'every2':
        calls = [0]

        def every2(x):     # a budget: accepts every second consultation, whatever the item
            calls[0] += 1
            return calls[0] % 2 == 0
        return every2
    if n == 'failIfP':
        def g(x):
            if x == c:
                raise verif_error(c)
            return True
        return g
    if n == 'sndTrue':
        return lambda x: x[1] is True
    raise C.MachineryError('unknown predicate %r' % (p,))


def mk_acc(f):
    n, c = f['n'], f['c']
    if n == 'add':
        return lambda a, x: a + x
    if n == 'cnt':
        return lambda a, x: a + 1
    if n == 'max':
        return lambda a, x: x if a is None or x > a else a
    if n == 'min':
        return lambda a, x: x if a is None or x < a else a
    if n == 'last':
        return lambda a, x: x
    if n == 'appendMut':
        def g(a, x):
            a.append(x)
            return a
        return g
    if n == 'appendNew':
        return lambda a, x: a + [x]
    if n == 'failAdd':
        def g(a, x):
            if x == c:
                raise verif_error(c)
            return a + x
        return g
    if n == 'addsnd':
        return lambda a, x: a + x[1]
    raise C.MachineryError('unknown accumulator %r' % (f,))


def mk_pred2(p):
    n = p['n']
    if n == 'le':
        return lambda a, x: a <= x
    if n == 'lt':
        return lambda a, x: a < x
    if n == 'true':
        return lambda a, x: True
    raise C.MachineryError('unknown binary predicate %r' % (p,))


def mk_star(f):
    n = f['n']
    if n == 'add2':
        return lambda a, b: a + b
    if n == 'swap':
        return lambda a, b: (b, a)
    if n == 'fst2':
        return lambda a, b: a
    if n == 'failAdd2':
        c = f['c']

        def g(a, b):
            if a + b == c:
                raise verif_error(c)
            return a + b
        return g
    raise C.MachineryError('unknown star function %r' % (f,))


# ------------------------------------------------------------------ recording

class Recorder:
    def __init__(self):
        self.o = 0
        self.logs = {}
        self.out = []
        self.dl = []
        self.dlend = 0
        self.end = {'t': 'open', 'v': NONE, 'o': 0}

    def nxt(self):
        self.o += 1
        return self.o

    def reset(self):
        """forget what was recorded so far (a warm-up subscription), keep the declared taps"""
        self.o = 0
        for p in self.logs:
            self.logs[p] = []
        self.out, self.dl, self.dlend = [], [], 0
        self.end = {'t': 'open', 'v': NONE, 'o': 0}

    def add(self, path, t, key, v):
        self.logs[tuple(path)].append({'t': t, 'k': flat_key(key), 'v': v, 'o': self.nxt()})

    def declare(self, path):
        self.logs.setdefault(tuple(path), [])

    def taps(self):
        return [{'p': list(p), 'evs': evs} for p, evs in sorted(self.logs.items())]


def tap(rec, path):
    import rxsci as rs
    rec.declare(path)
    path = tuple(path)

    def _tap(source):
        def on_subscribe(observer, scheduler):
            def on_next(i):
                t = type(i)
                if t is rs.OnNextMux:
                    rec.add(path, 'n', i.key, enc(i.item))
                elif t is rs.OnCreateMux:
                    rec.add(path, 'c', i.key, NONE)
                elif t is rs.OnCompletedMux:
                    rec.add(path, 'd', i.key, NONE)
                elif t is rs.OnErrorMux:
                    rec.add(path, 'e', i.key, enc(i.error))
                observer.on_next(i)
            return source.subscribe(on_next=on_next, on_error=observer.on_error,
                                    on_completed=observer.on_completed, scheduler=scheduler)
        return rs.MuxObservable(on_subscribe)
    return _tap


def feedback_on_completion(ctx):
    """An identity operator of the harness that closes a feedback loop: once it has forwarded
    the completion of a key (a window, a segment ...), it pushes the next source item, i.e.
    from inside that notification."""
    import rxsci as rs

    def _fb(source):
        def on_subscribe(observer, scheduler):
            def on_next(i):
                observer.on_next(i)
                if type(i) is rs.OnCompletedMux and 'push' in ctx and ctx.get('in_item'):
                    ctx['push']()
            return source.subscribe(on_next=on_next, on_error=observer.on_error,
                                    on_completed=observer.on_completed, scheduler=scheduler)
        return rs.MuxObservable(on_subscribe)
    return _fb


# ------------------------------------------------------------------ descriptor -> operators

_SW = [0]


def real_op(op, rec, pre, i, ctx):
    """The real rxsci operator for descriptor `op` (position i of the pipeline at pre).
    rec is None for the plain (non multiplexed) code path: no taps, no inner pipelines."""
    import rxsci as rs
    o = op['op']
    if o == 'map':
        return rs.ops.map(mk_fn(op['f']))
    if o == 'starmap':
        return rs.ops.starmap(mk_star(op['f']))
    if o == 'filter':
        return rs.ops.filter(mk_pred(op['p']))
    if o == 'flat_map':
        return rs.ops.flat_map()
    if o == 'identity':
        if op.get('fb') == 'd':
            return feedback_on_completion(ctx)
        return rs.ops.identity()
    if o == 'do_action':
        if op.get('fb') == 'd':
            # feedback: when a key (window, segment ...) completes here, the next source item
            # is pushed from inside that notification
            return rs.ops.do_action(on_completed=lambda k: ctx['push']() if k is not None and 'push' in ctx else None)
        return rs.ops.do_action(on_next=lambda i: None)
    if o == 'progress':
        return rs.ops.progress('verif', 1000000, measure_throughput=False)
    if o == 'clip':
        return rs.data.clip(lower_bound=dec(op['lo']), higher_bound=dec(op['hi']))
    if o == 'fill_none':
        return rs.data.fill_none(dec(op['v']))
    if o == 'scan':
        seed = dec(op['seed'])
        if op.get('seedfactory'):
            s0 = seed
            seed = lambda: copy.deepcopy(s0)
        term = None if op['term']['n'] == 'none' else mk_fn(op['term'])
        return rs.ops.scan(mk_acc(op['f']), seed, reduce=op['reduce'], terminator=term)
    if o == 'count':
        return rs.ops.count(reduce=op['reduce'])
    if o == 'sum':
        return rs.math.sum(mk_fn(op['f']), reduce=op['reduce'])
    if o == 'mean':
        return rs.math.mean(mk_fn(op['f']), reduce=op['reduce'])
    if o == 'min':
        return rs.math.min(mk_fn(op['f']), reduce=op['reduce'])
    if o == 'max':
        return rs.math.max(mk_fn(op['f']), reduce=op['reduce'])
    if o in ('variance', 'stddev', 'fvariance', 'fstddev'):
        mod = rs.math if o in ('variance', 'stddev') else rs.math.formal
        f = mod.variance if o.endswith('variance') else mod.stddev
        return f(mk_fn(op['f']), reduce=op['reduce'])
    if o == 'dist':
        import distogram
        import rx
        return rx.pipe(rs.math.dist.update(bin_count=16, reduce=True),
                       rs.ops.map(lambda h: (distogram.count(h),) + tuple(distogram.bounds(h))))
    if o == 'first':
        return rs.ops.first()
    if o == 'last':
        return rs.ops.last()
    if o == 'take':
        return rs.ops.take(op['n'])
    if o == 'distinct':
        return rs.ops.distinct(mk_fn(op['f'], op.get('variant')))
    if o == 'duc':
        return rs.ops.distinct_until_changed(mk_fn(op['f'], op.get('variant')))
    if o == 'lag':
        return rs.data.lag(op['n'])
    if o == 'pad_start':
        return rs.data.pad_start(op['n'], dec(op['v']))
    if o == 'pad_end':
        return rs.data.pad_end(op['n'], dec(op['v']))
    if o == 'start_with':
        # the padding is an iterable: a list, a tuple, a deque or a dict view, by turns
        pad = [dec(x) for x in op['p']]
        _SW[0] += 1
        kind = _SW[0] % 4
        if kind == 1:
            pad = tuple(pad)
        elif kind == 2:
            pad = deque(pad)
        elif kind == 3 and len(set(map(repr, pad))) == len(pad) and all(isinstance(x, (int, str)) for x in pad):
            pad = dict.fromkeys(pad).keys()
        return rs.ops.start_with(pad)
    if o == 'batch':
        return rs.data.batch(op['n'])
    if o == 'to_list':
        return rs.data.to_list()
    if o == 'to_array':
        return rs.data.to_array('q')
    if o == 'assert':
        return rs.ops.assert_(mk_pred(op['p']), name='verif', error=VerifAssert)
    if o == 'assert1':
        return rs.ops.assert_1(mk_pred2(op['p']), name='verif', error=VerifAssert)
    if o == 'ignore':
        return rs.error.ignore()
    if o == 'errmap':
        return rs.error.map(mk_fn(op['f']))
    if o == 'router':
        errors, route = rs.error.create_error_router()
        ctx['routers'].append(errors)
        return route()
    if o == 'sort':
        return rs.data.sort(key=mk_fn(op['f']), reverse=op['reverse'])
    if o in ('roll', 'split', 'group_by', 'time_split'):
        inner = build(op['inner'], rec, list(pre) + [i, 1], ctx)

        def built(operator):
            # the caller goes on using its list after the operator was built: what the operator
            # does is fixed at construction (unless the list is shared on purpose, share_ops)
            if not ctx.get('share_ops'):
                inner.append(rs.ops.filter(lambda x: False))
            return operator
        if o == 'roll':
            return built(rs.data.roll(op['w'], op['s'], pipeline=inner))
        if o == 'split':
            return built(rs.data.split(mk_fn(op['f'], op.get('variant')), pipeline=inner))
        if o == 'group_by':
            return built(rs.ops.group_by(mk_fn(op['f'], op.get('variant')), pipeline=inner))
        tm = mk_fn(op['tm'])
        scale = ctx.get('timescale')
        if scale == 'datetime-dst':
            # naive datetimes around a daylight-saving change of the platform's time zone
            # (harness/common.py runs the checks under a zone that has one): naive datetimes
            # are compared by wall-clock arithmetic, the zone must not matter
            import datetime
            unit = datetime.timedelta(minutes=30)
            t0 = datetime.datetime(2021, 3, 28, 0, 30)
            tmf = lambda x: t0 + unit * tm(x)
            conv = lambda n: None if n < 0 else unit * n
        elif scale == 'datetime-aware':
            # offset-aware datetimes of one key written with different UTC offsets (two
            # servers, a zone that changes its offset): the same instants, one second per
            # model time unit; aware datetimes are compared as instants
            import datetime
            unit = datetime.timedelta(seconds=1)
            tz_a = datetime.timezone.utc
            tz_b = datetime.timezone(datetime.timedelta(hours=-4))
            tz_c = datetime.timezone(datetime.timedelta(hours=5, minutes=30))
            t0 = datetime.datetime(2021, 6, 1, 1, 0, tzinfo=tz_a)
            tmf = lambda x: (t0 + unit * tm(x)).astimezone((tz_a, tz_b, tz_c)[tm(x) % 3])
            conv = lambda n: None if n < 0 else unit * n
        elif scale in ('datetime', 'datetime-days', 'datetime-ms'):
            # the same behaviour with datetime / timedelta: one model time unit is a second,
            # a day (durations with a `days` part), or 250 ms (sub-second durations)
            import datetime
            unit = {'datetime': datetime.timedelta(seconds=1), 'datetime-days': datetime.timedelta(days=1),
                    'datetime-ms': datetime.timedelta(milliseconds=250)}[scale]
            t0 = datetime.datetime(2020, 1, 1)
            tmf = lambda x: t0 + unit * tm(x)
            conv = lambda n: None if n < 0 else unit * n
        else:
            tmf = tm
            conv = lambda n: None if n < 0 else n
        closing = None if op['closing']['n'] == 'none' else mk_pred(op['closing'])
        return built(rs.data.time_split(time_mapper=tmf, active_timeout=conv(op['active']),
                                        inactive_timeout=conv(op['inactive']),
                                        closing_mapper=closing, include_closing_item=op['incl'],
                                        pipeline=inner))
    if o == 'tee':
        branches = [build(b, rec, list(pre) + [i, bi + 1], ctx)
                    for bi, b in enumerate(op['branches'])]
        t = rs.ops.tee_map(*branches, join=op['join'])
        if not ctx.get('share_ops'):
            for b in branches:       # (as for the inner pipelines above)
                b.append(rs.ops.filter(lambda x: False))
        return t
    raise C.MachineryError('unknown operator %r' % (op,))


def build(pipe, rec, pre, ctx):
    """[tap(pre+[0]), op1, tap(pre+[1]), ...] (taps omitted when rec is None)"""
    ops = []
    ends_only = ctx.get('taps') == 'ends'     # observe the two ends of the top-level pipeline only
    if ctx.get('share_ops') and (rec is None or ends_only) and len(pre) > 0:
        # no taps inside: an inner pipeline is a python list of operators; the same list
        # object is handed to every composite operator that has the same inner pipeline
        # (callers reuse a pipeline list; the operators must not modify or own it)
        import json as _json
        lk = 'list:' + _json.dumps(pipe, sort_keys=True)
        lcache = ctx.setdefault('_opcache', {})
        if lk in lcache:
            return lcache[lk]
        lcache[lk] = ops
    if rec is not None and (not ends_only or len(pre) == 0):
        ops.append(tap(rec, list(pre) + [0]))
    for i, op in enumerate(pipe, start=1):
        composite = op['op'] in ('roll', 'split', 'group_by', 'time_split', 'tee')
        # (a composite operator has taps inside unless the run is untapped: then the composite
        # operator object, too, is the same one wherever its descriptor occurs)
        if ctx.get('share_ops') and op['op'] != 'router' and \
                (not composite or rec is None or ends_only):
            # the same python operator object wherever the same descriptor occurs in the
            # pipeline (operators are factories: using one twice must be harmless)
            import json as _json
            k = _json.dumps(op, sort_keys=True)
            cache = ctx.setdefault('_opcache', {})
            if k not in cache:
                cache[k] = real_op(op, rec, pre, i, ctx)
            ops.append(cache[k])
        else:
            ops.append(real_op(op, rec, pre, i, ctx))
        if rec is not None and (not ends_only or (len(pre) == 0 and i == len(pipe))):
            ops.append(tap(rec, list(pre) + [i]))
    return ops


# ------------------------------------------------------------------ drivers

def _finish(rec, pipe, mode, extra=None):
    tr = {'pipe': pipe, 'mode': mode, 'taps': rec.taps(), 'out': rec.out, 'dl': rec.dl,
          'dlend': rec.dlend, 'end': rec.end}
    if extra:
        tr.update(extra)
    return tr


def _subscribe_routers(rec, ctx):
    for errors in ctx['routers']:
        def dl_next(e):
            rec.dl.append({'v': enc(e), 'o': rec.nxt()})

        def dl_done():
            rec.dlend = rec.nxt()
        errors.subscribe(on_next=dl_next, on_completed=dl_done, on_error=lambda e: None)


def _push(src, ev):
    import rxsci as rs
    t = ev['t']
    key = (ev['k'][0],)
    if t == 'c':
        src.on_next(rs.OnCreateMux(key))
    elif t == 'n':
        src.on_next(rs.OnNextMux(key, dec(ev['v'])))
    elif t == 'd':
        src.on_next(rs.OnCompletedMux(key))
    elif t == 'e':      # the key fails (an error event of the source itself)
        src.on_next(rs.OnErrorMux(key, VerifError(ev.get('code', 9))))


def run_mux(pipe, events, *a, **kw):
    with exact_floats(events):
        return _run_mux(pipe, events, *a, **kw)


def _run_mux(pipe, events, timescale=None, taps='all', dl_late=False, share_ops=False, warmup=None,
             store_split=None, feedback=None, reapply=False, warmup_completes=False):
    """Push mux events directly on a MuxObservable (as the repository's own tests do).
    events: [{'t':'c'|'n'|'d', 'k':[idx], 'v':value}] ; the source completes at the end
    unless the last event is {'t':'open'}."""
    import rx
    import rxsci as rs
    from rx.subject import Subject
    rec = Recorder()
    ctx = {'routers': [], 'timescale': timescale, 'taps': taps, 'share_ops': share_ops}
    ops = build(pipe, rec, [], ctx)
    src = Subject()
    resub_completed = bool(warmup) and warmup_completes and not reapply and not ctx['routers']
    if resub_completed:
        # the piped observable is subscribed, runs to completion, and is subscribed again (a
        # second pass, retry / repeat): a cold source that hands a fresh Subject to every
        # subscription
        feeds = []

        def _fresh(scheduler=None):
            feeds.append(Subject())
            return feeds[-1]
        src = rx.defer(_fresh)
    store = rs.state.StoreManager(store_factory=rs.state.MemoryStore)
    if store_split and 0 < store_split < len(pipe):
        # two store sections chained on one multiplexed stream, each with a store manager of
        # its own: the first `store_split` operators in the first, the others in the second
        cut = (2 * store_split + 1) if taps == 'all' else (1 + store_split)
        store2 = rs.state.StoreManager(store_factory=rs.state.MemoryStore)
        obs = src.pipe(rs.cast_as_mux_observable(), rs.state.with_store(store, rx.pipe(*ops[:cut])),
                       rs.state.with_store(store2, rx.pipe(*ops[cut:])))
    else:
        obs = src.pipe(rs.cast_as_mux_observable(), rs.state.with_store(store, rx.pipe(*ops)))

    def on_error(e):
        rec.end = {'t': 'error', 'v': enc(e), 'o': rec.nxt(), 'etype': type(e).__name__}

    def on_completed():
        rec.end = {'t': 'completed', 'v': NONE, 'o': rec.nxt()}
    with C.quiet_stdout():
        routers_done = False
        if warmup:
            # A first subscription of the same piped observable receives some events and is
            # disposed with keys still open; nothing of it is recorded.  The execution that
            # is judged is the second subscription.  The dead-letter observables stay
            # subscribed throughout.
            if not dl_late:
                _subscribe_routers(rec, ctx)
                routers_done = True
            try:
                if reapply and not ctx['routers']:
                    # the same python operator objects were applied before, to another source
                    # with a store manager of its own, and that stream has completed: an
                    # operator is a function from an observable to an observable, applying
                    # it again starts from nothing
                    src0 = Subject()
                    store0 = rs.state.StoreManager(store_factory=rs.state.MemoryStore)
                    obs0 = src0.pipe(rs.cast_as_mux_observable(),
                                     rs.state.with_store(store0, rx.pipe(*ops)))
                    obs0.subscribe(on_next=lambda i: None, on_error=lambda e: None)
                    for ev in warmup:
                        _push(src0, ev)
                    src0.on_completed()
                elif resub_completed:
                    obs.subscribe(on_next=lambda i: None, on_error=lambda e: None)
                    open_keys = []
                    for ev in warmup:
                        _push(feeds[-1], ev)
                        if ev['t'] == 'c':
                            open_keys.append(ev['k'][0])
                        elif ev['t'] in ('d', 'e') and ev['k'][0] in open_keys:
                            open_keys.remove(ev['k'][0])
                    for k in open_keys:          # a well-formed source: every key is completed
                        feeds[-1].on_next(rs.OnCompletedMux((k,)))
                    feeds[-1].on_completed()
                else:
                    d0 = obs.subscribe(on_next=lambda i: None, on_error=lambda e: None)
                    for ev in warmup:
                        _push(src, ev)
                    d0.dispose()
            except Exception:
                pass
            rec.reset()
        if not dl_late and not routers_done:
            _subscribe_routers(rec, ctx)
        # Re-entrant delivery (a feedback loop through the source Subject): with
        # feedback='end' the subscriber pushes the next source item from inside its on_next;
        # a do_action with fb='d' inside the pipeline does so when a key completes there.
        # The source order is the order of `events` either way.
        pos = [0]
        depth = [0]

        def push_nested():
            if pos[0] < len(events) and events[pos[0]]['t'] == 'n' and depth[0] < 40 \
                    and rec.end['t'] == 'open':
                ev = events[pos[0]]
                pos[0] += 1
                depth[0] += 1
                try:
                    _push(src, ev)
                finally:
                    depth[0] -= 1
        ctx['push'] = push_nested

        cur = [None]       # type of the source event pushed at the top level

        def on_next(i):
            # only outputs caused by an item: an output that a completion causes (a reduce, a
            # flush) belongs to the end of its key, no later item of the source can precede it
            if feedback == 'end' and type(i) is rs.OnNextMux and cur[0] == 'n':
                push_nested()
        obs.subscribe(on_next=on_next, on_error=on_error, on_completed=on_completed)
        if resub_completed:
            # (the closures above push into the feed of this subscription; a pipeline that did
            # not subscribe its source gets a feed nobody listens to: source-events-lost)
            src = feeds[-1] if feeds else Subject()
        if dl_late:      # the dead-letter observable is subscribed after the data pipeline
            _subscribe_routers(rec, ctx)
        try:
            complete = True
            while pos[0] < len(events):
                ev = events[pos[0]]
                pos[0] += 1
                if rec.end['t'] != 'open':
                    break
                cur[0] = ev['t']
                ctx['in_item'] = ev['t'] == 'n'
                _push(src, ev)
                if ev['t'] == 'open':
                    complete = False
            if complete and rec.end['t'] == 'open':
                src.on_completed()
        except Exception as e:  # escaped the operators: the stream is dead
            rec.end = {'t': 'error', 'v': ['x', -1], 'o': rec.nxt(),
                       'raised': type(e).__name__}
    return _finish(rec, pipe, 'mux', {'src': events})


def run_multi(pipes, schedule, taps='all'):
    """Several pipelines on the sources of one with_store(store, sources=[...]): one store
    manager and one state topology shared by all of them.  schedule: [(source index,
    event)], events as in run_mux; every source is completed at the end.  Returns one
    trace per pipeline (each with its own ordinals)."""
    import rx
    import rxsci as rs
    from rx.subject import Subject
    n = len(pipes)
    recs = [Recorder() for _ in range(n)]
    ctxs = [{'routers': [], 'timescale': None, 'taps': taps} for _ in range(n)]
    subjects = [Subject() for _ in range(n)]
    store = rs.state.StoreManager(store_factory=rs.state.MemoryStore)
    muxed = rs.state.with_store(store, sources=[sj.pipe(rs.cast_as_mux_observable()) for sj in subjects])

    def mk_handlers(rec):
        def on_error(e):
            rec.end = {'t': 'error', 'v': enc(e), 'o': rec.nxt(), 'etype': type(e).__name__}

        def on_completed():
            rec.end = {'t': 'completed', 'v': NONE, 'o': rec.nxt()}
        return on_error, on_completed
    with C.quiet_stdout():
        for i in range(n):
            ops = build(pipes[i], recs[i], [], ctxs[i])
            on_error, on_completed = mk_handlers(recs[i])
            muxed[i].pipe(*ops).subscribe(on_next=lambda x: None, on_error=on_error,
                                          on_completed=on_completed)
        try:
            for (si, ev) in schedule:
                if recs[si].end['t'] != 'open':
                    continue
                t = ev['t']
                key = (ev['k'][0],)
                if t == 'c':
                    subjects[si].on_next(rs.OnCreateMux(key))
                elif t == 'n':
                    subjects[si].on_next(rs.OnNextMux(key, dec(ev['v'])))
                elif t == 'd':
                    subjects[si].on_next(rs.OnCompletedMux(key))
            for i in range(n):
                if recs[i].end['t'] == 'open':
                    subjects[i].on_completed()
        except Exception as e:
            for r in recs:
                if r.end['t'] == 'open':
                    r.end = {'t': 'error', 'v': ['x', -1], 'o': r.nxt(), 'raised': type(e).__name__}
    out = []
    for i in range(n):
        out.append(_finish(recs[i], pipes[i], 'mux', {'src': [ev for (si, ev) in schedule if si == i],
                                                    'multi': {'index': i, 'of': n}}))
    return out


def run_src(pipe, items, complete=True, timescale=None, taps='all', root='store', dl_late=False,
            source='subject', sibling=False):
    """A plain source through with_memory_store (root key (0,)).  source: 'subject' (hot: the
    items are pushed after the subscription), 'sync' (a cold source that delivers everything
    from inside its subscribe function), 'immediate' (rx.from_ on the ImmediateScheduler)."""
    import rx
    import rxsci as rs
    from rx.subject import Subject
    rec = Recorder()
    ctx = {'routers': [], 'timescale': timescale, 'taps': taps}
    ops = build(pipe, rec, [], ctx)
    src = Subject()
    feed = src
    if source == 'sync':
        def _sub(observer, scheduler):
            for v in items:
                observer.on_next(dec(v))
            if complete:
                observer.on_completed()
        feed = rx.create(_sub)
    elif source == 'immediate':
        from rx.scheduler import ImmediateScheduler
        feed = rx.from_([dec(v) for v in items], scheduler=ImmediateScheduler())
        if not complete:
            feed = rx.concat(feed, rx.never())
    src_ = src
    src = feed
    if root == 'multiplex':     # no store: stateless pipelines only
        obs = src.pipe(rs.ops.multiplex(rx.pipe(*ops)))
    else:
        obs = src.pipe(rs.state.with_memory_store(pipeline=rx.pipe(*ops)))

    def on_next(i):
        rec.out.append({'v': enc(i), 'o': rec.nxt()})

    def on_error(e):
        rec.end = {'t': 'error', 'v': enc(e), 'o': rec.nxt(), 'etype': type(e).__name__}

    def on_completed():
        rec.end = {'t': 'completed', 'v': NONE, 'o': rec.nxt()}
    with C.quiet_stdout():
        if not dl_late:
            _subscribe_routers(rec, ctx)
        if sibling and source == 'subject' and root == 'store':
            # Another with_memory_store pipeline of the same process is alive at the same time
            # (the same feed fanned out to a second aggregation): first another one subscribed
            # before, then one subscribed after the pipeline that is judged.  Each call of
            # with_memory_store is a store section of its own.
            def _sib():
                return src.pipe(rs.state.with_memory_store(pipeline=rx.pipe(
                    rs.ops.group_by(lambda x: repr(x)[-1:], pipeline=rx.pipe(rs.ops.count(reduce=True))),
                    rs.data.to_list())))
            try:
                _sib().subscribe(on_next=lambda i: None, on_error=lambda e: None)
            except Exception:
                pass
        try:
            obs.subscribe(on_next=on_next, on_error=on_error, on_completed=on_completed)
            if sibling and source == 'subject' and root == 'store':
                try:
                    _sib().subscribe(on_next=lambda i: None, on_error=lambda e: None)
                except Exception:
                    pass
        except Exception as e:      # a synchronous source delivers inside subscribe()
            if source == 'subject':
                raise
            rec.end = {'t': 'error', 'v': ['x', -1], 'o': rec.nxt(), 'raised': type(e).__name__}
        if dl_late:
            _subscribe_routers(rec, ctx)
        try:
            if source == 'subject':
                for v in items:
                    if rec.end['t'] != 'open':
                        break
                    src_.on_next(dec(v))
                if complete and rec.end['t'] == 'open':
                    src_.on_completed()
        except Exception as e:
            rec.end = {'t': 'error', 'v': ['x', -1], 'o': rec.nxt(),
                       'raised': type(e).__name__}
    return _finish(rec, pipe, 'src', {'src': items})


def run_plain_after_abort(pipe, items, abort_at):
    """ONE piped plain observable on a cold source, subscribed twice: the first subscriber
    raises from its on_next at its abort_at-th item (the exception escapes the subscription,
    the caller catches it), the second subscription is the one that is judged.
    Returns a run_plain-like result of the second subscription."""
    import rx
    ops = build(pipe, None, [], {'routers': []})
    src = rx.from_([dec(v) for v in items])
    obs = src.pipe(*ops) if ops else src
    state = {'step': len(items), 'end': 'open', 'endstep': 0, 'err': NONE}
    out = []
    seen = [0]

    class _Abort(Exception):
        pass

    def boom(_):
        seen[0] += 1
        if seen[0] >= abort_at:
            raise _Abort()

    def on_error(e):
        state['end'] = 'error'
        state['err'] = enc(e)
        state['errtype'] = type(e).__name__
        state['endstep'] = len(items)

    def on_completed():
        state['end'] = 'completed'
        state['endstep'] = len(items)
    with C.quiet_stdout():
        try:
            obs.subscribe(on_next=boom, on_error=lambda e: None)
        except Exception:
            pass
        try:
            obs.subscribe(on_next=lambda i: out.append({'v': enc(i), 's': len(items)}),
                          on_error=on_error, on_completed=on_completed)
        except Exception as e:
            state['end'] = 'error'
            state['errtype'] = type(e).__name__
    state['out'] = out
    state['aborted_first'] = seen[0] >= abort_at
    return state


def run_plain_shared(pipe, streams, schedule, dispose_first_after=None):
    """The plain code path with ONE set of operator objects subscribed by several sources
    at the same time (operators are factories: every subscription has its own state).
    streams: list of item lists; schedule: order in which the streams push their next item
    (stream indices).  dispose_first_after: dispose subscription 0 after that many of its
    items (it then never completes).  Returns one run_plain-like result per stream."""
    from rx.subject import Subject
    ctx = {'routers': []}
    ops = build(pipe, None, [], ctx)
    n = len(streams)
    subs = [Subject() for _ in range(n)]
    res = [{'out': [], 'end': 'open', 'err': NONE, 'endstep': 0, 'step': 0} for _ in range(n)]
    disposables = []
    with C.quiet_stdout():
        for i in range(n):
            def mk(i):
                def on_next(x):
                    res[i]['out'].append({'v': enc(x), 's': res[i]['step']})

                def on_error(e):
                    res[i]['end'] = 'error'
                    res[i]['err'] = enc(e)
                    res[i]['errtype'] = type(e).__name__
                    res[i]['endstep'] = res[i]['step']

                def on_completed():
                    res[i]['end'] = 'completed'
                    res[i]['endstep'] = res[i]['step']
                return on_next, on_error, on_completed
            a, b, c = mk(i)
            obs = subs[i].pipe(*ops) if ops else subs[i]
            disposables.append(obs.subscribe(on_next=a, on_error=b, on_completed=c))
        pos = [0] * n
        disposed = set()
        try:
            for i in schedule:
                if i in disposed or pos[i] >= len(streams[i]):
                    continue
                res[i]['step'] += 1
                subs[i].on_next(dec(streams[i][pos[i]]))
                pos[i] += 1
                if i == 0 and dispose_first_after is not None and pos[0] == dispose_first_after:
                    disposables[0].dispose()
                    disposed.add(0)
            for i in range(n):
                if i in disposed:
                    continue
                while pos[i] < len(streams[i]):
                    res[i]['step'] += 1
                    subs[i].on_next(dec(streams[i][pos[i]]))
                    pos[i] += 1
                res[i]['step'] += 1
                subs[i].on_completed()
        except Exception as e:
            for r in res:
                if r['end'] == 'open':
                    r['end'] = 'error'
                    r['err'] = ['x', -1]
                    r['errtype'] = 'raised:' + type(e).__name__
    for i in range(n):
        res[i]['consumed'] = pos[i]
        res[i]['disposed'] = i in disposed
    return res


def run_plain_late_subscriber(pipe, items, k, dispose_first_at=None):
    """ONE piped plain observable (subject.pipe(*ops)) with two subscribers: the second one
    subscribes after k items (and sees items[k:]); optionally the first is disposed after
    `dispose_first_at` items.  Each subscription must run on its own state.
    Returns [result of subscriber A, result of subscriber B]."""
    from rx.subject import Subject
    ops = build(pipe, None, [], {'routers': []})
    subj = Subject()
    obs = subj.pipe(*ops) if ops else subj
    res = [{'out': [], 'end': 'open', 'err': NONE, 'endstep': 0, 'step': 0, 'disposed': False}
           for _ in range(2)]
    disp = [None, None]

    def attach(i):
        def on_next(x):
            res[i]['out'].append({'v': enc(x), 's': res[i]['step']})

        def on_error(e):
            res[i]['end'] = 'error'
            res[i]['err'] = enc(e)
            res[i]['errtype'] = type(e).__name__
            res[i]['endstep'] = res[i]['step']

        def on_completed():
            res[i]['end'] = 'completed'
            res[i]['endstep'] = res[i]['step']
        disp[i] = obs.subscribe(on_next=on_next, on_error=on_error, on_completed=on_completed)
    with C.quiet_stdout():
        try:
            attach(0)
            for j, v in enumerate(items):
                if j == k:
                    attach(1)
                if dispose_first_at is not None and j == dispose_first_at and not res[0]['disposed']:
                    disp[0].dispose()
                    res[0]['disposed'] = True
                for r in res:
                    r['step'] += 1
                subj.on_next(dec(v))
            if k >= len(items):
                attach(1)
            for r in res:
                r['step'] += 1
            subj.on_completed()
        except Exception as e:
            for r in res:
                if r['end'] == 'open':
                    r['end'] = 'error'
                    r['err'] = ['x', -1]
                    r['errtype'] = 'raised:' + type(e).__name__
    return res


def run_plain_tee(tee, items):
    """A tee_map on a plain observable with a recorder at the tail of every branch: what each
    branch delivered and whether it completed, and what the tee_map delivered."""
    import rx.operators as rxo
    import rxsci as rs
    from rx.subject import Subject
    ctx = {'routers': [], 'share_ops': False}
    logs, branches = [], []
    for bi, b in enumerate(tee['branches']):
        log = {'out': [], 'end': 'open'}
        logs.append(log)
        ops_ = build(b, None, [1, bi + 1], ctx)

        def done(log=log):
            log['end'] = 'completed'

        def failed(e, log=log):
            log['end'] = 'error'
        ops_.append(rxo.do_action(on_next=lambda v, log=log: log['out'].append(enc(v)),
                                  on_error=failed, on_completed=done))
        branches.append(ops_)
    out = {'out': [], 'end': 'open'}
    src = Subject()
    with C.quiet_stdout():
        try:
            src.pipe(rs.ops.tee_map(*branches, join=tee['join'])).subscribe(
                on_next=lambda v: out['out'].append(enc(v)),
                on_error=lambda e: out.__setitem__('end', 'error'),
                on_completed=lambda: out.__setitem__('end', 'completed'))
            for v in items:
                src.on_next(dec(v))
            src.on_completed()
        except Exception as e:
            out['end'] = 'raised:' + type(e).__name__
    return logs, out


def run_plain(pipe, items, *a, **kw):
    with exact_floats(items):
        return _run_plain(pipe, items, *a, **kw)


def _run_plain(pipe, items, complete=True, share_ops=False, feedback=False, reapply=None, behind_store=False):
    """The plain (non multiplexed) code path of the same pipeline: items of one group
    as an ordinary observable.  Returns outputs with the number of source items pushed
    when each was emitted, and how the stream ended."""
    from rx.subject import Subject
    ctx = {'routers': [], 'share_ops': share_ops}
    ops = build(pipe, None, [], ctx)
    src = Subject()
    state = {'step': 0, 'end': 'open', 'endstep': 0, 'err': NONE}
    out = []

    pending = list(items)

    def on_next(i):
        out.append({'v': enc(i), 's': state['step']})
        if feedback and pending and state['end'] == 'open':
            # re-entrant delivery: the next item is pushed from inside on_next
            state['step'] += 1
            src.on_next(dec(pending.pop(0)))

    def on_error(e):
        state['end'] = 'error'
        state['err'] = enc(e)
        state['errtype'] = type(e).__name__
        state['endstep'] = state['step']

    def on_completed():
        state['end'] = 'completed'
        state['endstep'] = state['step']
    with C.quiet_stdout():
        if reapply and ops and not ctx['routers']:
            # the same operator objects applied to another source before, which has completed
            try:
                src0 = Subject()
                src0.pipe(*ops).subscribe(on_next=lambda i: None, on_error=lambda e: None)
                for v in reapply:
                    src0.on_next(dec(v))
                src0.on_completed()
            except Exception:
                pass
        feed = src
        if behind_store:
            # the plain pipeline is applied to the output of a store section (keyed
            # aggregation first, plain processing after it): that output is a plain observable
            import rx
            import rxsci as rs
            feed = src.pipe(rs.state.with_memory_store(pipeline=rx.pipe(rs.ops.map(lambda x: x))))
        obs = feed.pipe(*ops) if ops else feed
        obs.subscribe(on_next=on_next, on_error=on_error, on_completed=on_completed)
        try:
            while pending:
                v = pending.pop(0)
                state['step'] += 1
                src.on_next(dec(v))
            if complete:
                state['step'] += 1
                src.on_completed()
        except Exception as e:
            state['end'] = 'error'
            state['err'] = ['x', -1]
            state['errtype'] = 'raised:' + type(e).__name__
            state['endstep'] = state['step']
    return {'out': out, 'end': state['end'], 'err': state['err'], 'endstep': state['endstep'],
            'errtype': state.get('errtype')}
