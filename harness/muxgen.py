"""Generators for the multiplexed-stream checks: source event schedules (all / random
interleavings of several keys, key re-creation, sparse indices) and typed pipeline
grammars (only well-typed compositions are generated: every FnLib function is total on
the item kind it is given)."""
import itertools

from .mux import I, NONE, fn


# ------------------------------------------------------------------ source schedules

def ev(t, k, v=None):
    d = {'t': t, 'k': [k]}
    if v is not None:
        d['v'] = v
    return d


def schedule(rng, lifetimes, reuse=False):
    """lifetimes: list of (key index, [values]).  Random interleaving preserving the order
    within a lifetime; lifetimes with the same index are run one after the other (key
    re-creation).  Completion of a key happens at a random point after its last item."""
    by_idx = {}
    for idx, vals in lifetimes:
        by_idx.setdefault(idx, []).append(vals)
    streams = []
    for idx, lts in by_idx.items():
        s = []
        for vals in lts:
            s.append(ev('c', idx))
            s += [ev('n', idx, v) for v in vals]
            s.append(ev('d', idx))
        streams.append(s)
    out = []
    pos = [0] * len(streams)
    while True:
        live = [i for i in range(len(streams)) if pos[i] < len(streams[i])]
        if not live:
            return out
        i = rng.choice(live)
        out.append(streams[i][pos[i]])
        pos[i] += 1


def all_interleavings(streams, cap=None, rng=None):
    """every interleaving of the given per-key event streams (order within a stream kept);
    if there are more than cap, a random sample of cap of them."""
    def rec(pos):
        live = [i for i in range(len(streams)) if pos[i] < len(streams[i])]
        if not live:
            yield []
            return
        for i in live:
            p2 = list(pos)
            p2[i] += 1
            for rest in rec(p2):
                yield [streams[i][pos[i]]] + rest
    it = rec([0] * len(streams))
    if cap is None:
        return list(it)
    out = list(itertools.islice(it, cap * 20))
    if len(out) > cap:
        out = rng.sample(out, cap)
    return out


def failing_key_stream(idx, vals1, vals2, code=9):
    """a lifetime that ends with an error event of the source itself, then the key again"""
    return [ev('c', idx)] + [ev('n', idx, v) for v in vals1] + [{'t': 'e', 'k': [idx], 'code': code}] \
        + [ev('c', idx)] + [ev('n', idx, v) for v in vals2] + [ev('d', idx)]


def key_stream(idx, vals, complete=True):
    s = [ev('c', idx)] + [ev('n', idx, v) for v in vals]
    if complete:
        s.append(ev('d', idx))
    return s


def ints(xs):
    return [I(x) for x in xs]


# ------------------------------------------------------------------ operator constructors

def op_map(name, c=0):
    return {'op': 'map', 'f': fn(name, c)}


def op_filter(name, c=0):
    return {'op': 'filter', 'p': fn(name, c)}


def op_scan(f, seed, reduce=False, term='none', tc=0, c=0, seedfactory=False):
    d = {'op': 'scan', 'f': fn(f, c), 'seed': seed, 'reduce': reduce, 'term': fn(term, tc)}
    if seedfactory:
        d['seedfactory'] = True
    return d


def op_simple(name, **kw):
    d = {'op': name}
    d.update(kw)
    return d


def op_agg(name, reduce=False, f='id', c=0):
    return {'op': name, 'f': fn(f, c), 'reduce': reduce}


def op_roll(w, s, inner):
    return {'op': 'roll', 'w': w, 's': s, 'inner': inner}


def op_split(f, c, inner, variant=None):
    d = {'op': 'split', 'f': fn(f, c), 'inner': inner}
    if variant:
        d['variant'] = variant
    return d


def op_group_by(f, c, inner, variant=None):
    d = {'op': 'group_by', 'f': fn(f, c), 'inner': inner}
    if variant:
        d['variant'] = variant
    return d


def op_time_split(active, inactive, closing, incl, inner):
    return {'op': 'time_split', 'tm': fn('fst'), 'active': active, 'inactive': inactive,
            'closing': fn('sndTrue') if closing else fn('none'), 'incl': incl, 'inner': inner}


def op_tee(join, branches):
    return {'op': 'tee', 'join': join, 'branches': branches}


# ------------------------------------------------------------------ typed random pipelines
# kinds: 'int', 'oint' (int or None), 'pair' (tuple of two ints), 'list' (list of ints),
#        'any' (anything: only kind-agnostic operators may follow)

def _prim_choices(kind, allow_err=False, allow_fatal=False):
    """(descriptor, output kind) for the primitive operators applicable to `kind`"""
    out = []
    A = out.append
    if kind == 'int':
        for c in (1, 2):
            A((op_map('addc', c), 'int'))
        A((op_map('mulc', 2), 'int'))
        A((op_map('modc', 3), 'int'))
        A((op_map('dup'), 'pair'))
        A((op_map('list3'), 'list'))
        A((op_map('listn'), 'list'))
        A((op_map('noneIf', 2), 'oint'))
        A((op_filter('even'), 'int'))
        A((op_filter('ltc', 3), 'int'))
        A((op_filter('gec', 2), 'int'))
        A((op_scan('add', I(0)), 'int'))
        A((op_scan('add', I(0), reduce=True), 'int'))
        A((op_scan('add', I(1), term='addc', tc=100), 'int'))
        A((op_scan('add', I(0), reduce=True, term='mulc', tc=2), 'int'))
        A((op_scan('max', NONE), 'int'))
        A((op_scan('min', NONE, reduce=True), 'oint'))
        for r in (False, True):
            A((op_agg('sum', r), 'any'))     # float seed: typed-state operators must not follow
            A((op_agg('max', r), 'int' if not r else 'oint'))
            A((op_agg('min', r), 'int' if not r else 'oint'))
        A((op_agg('mean', False), 'any'))
        A((op_simple('clip', lo=I(1), hi=I(3)), 'int'))
        A((op_simple('clip', lo=NONE, hi=I(2)), 'int'))
        A((op_simple('distinct', f=fn('id')), 'int'))
        A((op_simple('distinct', f=fn('modc', 2)), 'int'))
        A((op_simple('duc', f=fn('id')), 'int'))
        A((op_simple('duc', f=fn('modc', 2)), 'int'))
        A((op_simple('pad_start', n=2, v=I(0)), 'int'))
        A((op_simple('pad_start', n=1, v=NONE), 'int'))
        A((op_simple('pad_end', n=2, v=I(9)), 'int'))
        A((op_simple('pad_end', n=1, v=NONE), 'int'))
        A((op_simple('start_with', p=[I(7), I(8)]), 'int'))
        A((op_simple('to_array'), 'list'))
        if allow_err:
            A((op_map('failIf', 2), 'int'))
            A((op_filter('failIfP', 1), 'int'))
            A((op_scan('failAdd', I(0), c=3), 'int'))
        if allow_fatal:
            A((op_simple('assert', p=fn('ltc', 4)), 'int'))
            A((op_simple('assert1', p=fn('le')), 'int'))
    if kind == 'oint':
        A((op_simple('fill_none', v=I(0)), 'int'))
        A((op_filter('notNone'), 'int'))
    if kind == 'pair':
        A((op_map('fst'), 'int'))
        A((op_map('snd'), 'int'))
        A(({'op': 'starmap', 'f': fn('add2')}, 'int'))
        A(({'op': 'starmap', 'f': fn('swap')}, 'pair'))
    if kind == 'list':
        A((op_simple('flat_map'), 'int'))
    # kind-agnostic
    A((op_simple('identity'), kind))
    A((op_simple('do_action'), kind))
    A((op_simple('first'), kind))
    A((op_simple('last'), kind))
    A((op_simple('take', n=2), kind))
    A((op_simple('take', n=0), kind))
    A((op_simple('lag', n=1), 'any'))
    A((op_simple('lag', n=2), 'any'))
    A((op_simple('batch', n=2), 'any'))
    A((op_simple('batch', n=3), 'any'))
    A((op_simple('to_list'), 'any'))
    for r in (False, True):
        A(({'op': 'count', 'reduce': r}, 'int'))
    A((op_scan('appendMut', ['l', []], reduce=True), 'any'))
    A((op_scan('appendNew', ['l', []]), 'any'))
    A((op_scan('appendMut', ['l', []], reduce=True, seedfactory=True), 'any'))
    A((op_scan('last', NONE), kind))
    return out


def gen_pipe(rng, kind='int', length=2, nest=1, keyers=('roll', 'split', 'group_by'),
             tee=True, exclude=(), only=None, allow_err=False):
    """a random well-typed pipeline; returns (pipe, output kind)"""
    pipe = []
    for _ in range(length):
        r = rng.random()
        if nest > 0 and r < 0.30:
            sub_len = rng.choice([0, 1, 1, 2])
            if tee and rng.random() < 0.3:
                nb = rng.choice([2, 2, 3])
                brs = []
                kinds = []
                for _b in range(nb):
                    b, k = gen_pipe(rng, kind, rng.choice([1, 1, 2]), nest - 1, keyers, tee,
                                    exclude, only, allow_err)
                    brs.append(b)
                    kinds.append(k)
                join = rng.choice(['merge', 'zip', 'combine_latest'])
                pipe.append(op_tee(join, brs))
                kind = 'any' if join != 'merge' or len(set(kinds)) > 1 else kinds[0]
                continue
            ks = [k for k in keyers if k in ('roll',) or kind == 'int']
            if ks:
                k = rng.choice(ks)
                inner, ik = gen_pipe(rng, kind, sub_len, nest - 1, keyers, tee, exclude, only,
                                     allow_err)
                if k == 'roll':
                    w = rng.randint(1, 4)
                    s = rng.randint(1, 4)
                    pipe.append(op_roll(w, s, inner))
                elif k == 'split':
                    pipe.append(op_split(rng.choice(['divc', 'modc']), rng.choice([2, 3]), inner,
                                         rng.choice([None, 'bigint', 'str', 'tuple'])))
                else:
                    pipe.append(op_group_by('modc', rng.choice([2, 3]), inner,
                                            rng.choice([None, 'bigint', 'str', 'tuple', 'float'])))
                kind = ik
                continue
        choices = [(d, k) for (d, k) in _prim_choices(kind, allow_err)
                   if d['op'] not in exclude and (only is None or d['op'] in only)]
        d, kind = rng.choice(choices)
        pipe.append(d)
        if allow_err and d['op'] in ('map', 'filter', 'scan') and \
                (d.get('f', {}).get('n') in ('failIf', 'failAdd') or
                 d.get('p', {}).get('n') == 'failIfP'):
            pipe.append(rng.choice([op_simple('ignore'),
                                    {'op': 'errmap', 'f': fn('errcode')},
                                    {'op': 'errmap', 'f': fn('errconst', 50)}]))
    return pipe, kind


def stateful_in(pipe):
    """names of the stateful operators occurring (recursively) in the pipeline"""
    out = set()
    for op in pipe:
        o = op['op']
        if o in ('roll', 'split', 'group_by', 'time_split'):
            out.add(o)
            out |= stateful_in(op['inner'])
        elif o == 'tee':
            out.add('tee-' + op['join'])
            for b in op['branches']:
                out |= stateful_in(b)
        elif o not in ('map', 'starmap', 'filter', 'flat_map', 'identity', 'do_action', 'clip',
                       'fill_none', 'ignore', 'errmap', 'router'):
            out.add(o)
    return out
