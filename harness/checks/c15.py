"""C15  Framing round-trips under any re-chunking of the framed stream.

 1. TLC model-checks LineFraming.tla / LengthPrefix.tla exhaustively (every item
    list over a small alphabet, every chunking incl. empty chunks, every truncation
    point of the last length-prefixed frame): Confluence, RoundTrip.
 2. TLC generates behaviours (item list + cut vector), exhaustively at tiny bounds
    and by simulation at larger ones; each is replayed through the real
    frame()/unframe().
 3. The harness adds random executions over full Unicode / all byte values, prefix
    sizes 1/2/4/8 and both byte orders.
 4. Every recorded execution is validated by TLC against the trace specification.
"""
import os
import random
import sys

sys.path.insert(0, os.path.dirname(os.path.dirname(os.path.dirname(os.path.abspath(__file__)))))
from harness import common as C  # noqa: E402

PROP = 'C15'


# ---------------------------------------------------------------- real code drivers

_OPS = {}
_USE = [0]


def _cached(key, make):
    """operators are factories: two executions out of three re-subscribe an operator object
    that already served earlier streams"""
    _USE[0] += 1
    if _USE[0] % 3 == 0:
        return make()
    if key not in _OPS:
        _OPS[key] = make()
    return _OPS[key]


_MODE = [0]
LAST_MODE = ['plain']


def drive(op_factory, chunks, key=None, junk=None, mode=None):
    """Push `chunks` one at a time through the real operator; return per-chunk outputs,
    completion outputs and how the stream ended.

    Two executions out of seven are preceded by a warm-up subscription of the *same piped
    observable* that receives `junk` (the beginning of some other framed stream, cut inside a
    frame) and is disposed; the judged execution is the second subscription.
    Two out of seven deliver re-entrantly: while the subscriber receives the last item that a
    chunk completes, it pushes the next chunk (a feedback loop through the source Subject);
    the outputs are then attributed to the chunks by a plain run made first."""
    from rx.subject import Subject
    if key is not None:
        op = _cached(key, op_factory)
        op_factory = lambda: op
    _MODE[0] += 1
    if mode is None:
        mode = {1: 'warmup', 4: 'warmup', 2: 'reentrant', 5: 'reentrant', 6: 'reusebuf'}.get(_MODE[0] % 7, 'plain')
    LAST_MODE[0] = mode

    def run(reentrant_counts=None, warm=False):
        subj = Subject()
        piped = subj.pipe(op_factory())
        cur = []
        state = {'ended': 'open'}
        pos = [0]
        got = [0]
        depth = [0]
        outs = []

        def on_error(e):
            state['ended'] = 'error:%s' % type(e).__name__

        def on_completed():
            state['ended'] = 'completed'
        if warm and junk:
            try:
                d = piped.subscribe(on_next=lambda x: None, on_error=lambda e: None)
                for c in junk:
                    subj.on_next(c)
                d.dispose()
            except Exception:
                pass

        reuse = mode == 'reusebuf' and chunks and isinstance(chunks[0], (bytes, bytearray))
        rbuf = bytearray(max([len(c) for c in chunks] + [1])) if reuse else None

        def push_next():
            c = chunks[pos[0]]
            pos[0] += 1
            got[0] = 0
            mark = len(cur)
            if reuse:
                # a receive buffer that the caller fills again for every read (recv_into style):
                # what the operator keeps of a chunk must be a copy
                rbuf[:len(c)] = c
                subj.on_next(memoryview(rbuf)[:len(c)] if pos[0] % 2 else bytearray(rbuf[:len(c)]))
                for q in range(len(rbuf)):
                    rbuf[q] = 0xEE
            else:
                subj.on_next(c)
            return mark

        def on_next(x):
            cur.append(x)
            got[0] += 1
            if reentrant_counts is not None and pos[0] < len(chunks) and state['ended'] == 'open' \
                    and got[0] == reentrant_counts[pos[0] - 1] and depth[0] < 25:
                depth[0] += 1        # nested: from inside the delivery of this item (bounded depth)
                try:
                    push_next()
                finally:
                    depth[0] -= 1
        piped.subscribe(on_next=on_next, on_error=on_error, on_completed=on_completed)
        while pos[0] < len(chunks):
            k = pos[0]
            try:
                push_next()
            except Exception as e:  # an exception escaping on_next is an error of the stream
                state['ended'] = 'raised:%s' % type(e).__name__
                break
            if reentrant_counts is None:
                while len(outs) < k:
                    outs.append([])
                outs.append(list(cur))
                cur.clear()
        else:
            if reentrant_counts is not None:
                flat = list(cur)
                cur.clear()
            try:
                subj.on_completed()
            except Exception as e:
                state['ended'] = 'raised:%s' % type(e).__name__
        if reentrant_counts is not None:
            # attribute the outputs to the chunks as the plain run did (same items, same order,
            # is what the specification then checks)
            if state['ended'].startswith('raised') or pos[0] < len(chunks):
                flat = list(cur)
                cur.clear()
            outs, p = [], 0
            for n in reentrant_counts:
                outs.append(flat[p:p + n])
                p += n
            if p < len(flat):
                outs[-1:] = [outs[-1] + flat[p:]] if outs else [flat[p:]]
        while len(outs) < len(chunks):
            outs.append([])
        return outs, list(cur), state['ended']

    if mode == 'reentrant' and chunks:
        base = run()
        counts = [len(o) for o in base[0]]
        return run(reentrant_counts=counts)
    return run(warm=(mode == 'warmup'))


class _Loud(str):
    """a str subclass whose display form is not its content (as str-mixin Enum members)"""

    def __str__(self):
        return 'LOUD'

    def __format__(self, spec):
        return 'LOUD'


_FRAME = [0]


def frame_all(op_factory, items):
    """frames of all items; an item that frame() refuses contributes nothing (the wire then
    differs from the specified one: clause 'frame').  Every third call hands the items over as
    another type with the same content: a str subclass with its own display form, a bytearray."""
    import rx
    out = []
    _FRAME[0] += 1
    if _FRAME[0] % 3 == 0:
        items = [_Loud(i) if type(i) is str else (bytearray(i) if type(i) is bytes else i) for i in items]
    rx.from_(items).pipe(op_factory()).subscribe(on_next=out.append, on_error=lambda e: None)
    return [bytes(o) if isinstance(o, bytearray) else (str.__str__(o) if isinstance(o, str) else o) for o in out]


def cut(seq, sizes):
    chunks = []
    p = 0
    for n in sizes:
        chunks.append(seq[p:p + n])
        p += n
    if p < len(seq):      # the real frame() produced something else than the sizes were
        chunks.append(seq[p:])   # computed for: the trace is judged (and rejected) on the wire
    return chunks


def line_trace(items, tail, sizes, mode=None):
    import rxsci.framing.line as line
    framed = frame_all(line.frame, items)
    wire = ''.join(framed) + tail
    outs, final, ended = drive(line.unframe, cut(wire, sizes), key=('line', id(line)),
                               junk=['zz', 'q\nr', 'st'], mode=mode)
    enc = lambda s: [ord(ch) for ch in s]
    return {'items': [enc(i) for i in items], 'tail': enc(tail), 'wire': enc(wire),
            'chunks': [enc(c) for c in cut(wire, sizes)],
            'outs': [[enc(x) for x in o] for o in outs], 'final': [enc(x) for x in final],
            'ended': ended, 'mode': LAST_MODE[0]}


def lp_trace(items, cutoff, sizes, p, order, mode=None):
    import rxsci.framing.length_prefix as lp
    framed = frame_all(lambda: lp.frame(prefix_size=p, byteorder=order), items)
    if cutoff >= 0 and framed:
        framed[-1] = framed[-1][:cutoff]
    wire = b''.join(framed)
    outs, final, ended = drive(lambda: lp.unframe(prefix_size=p, byteorder=order),
                               cut(wire, sizes), key=('lp', p, order, id(lp)),
                               junk=[(3).to_bytes(p, order) + b'ab', (5).to_bytes(p, order)[:max(1, p - 1)]], mode=mode)
    return {'items': [list(i) for i in items], 'cutoff': cutoff, 'wire': list(wire),
            'chunks': [list(c) for c in cut(wire, sizes)],
            'outs': [[list(x) for x in o] for o in outs], 'final': [list(x) for x in final],
            'ended': ended, 'mode': LAST_MODE[0]}


def random_sizes(rng, n, maxchunk):
    sizes = []
    left = n
    while left > 0:
        k = rng.choice([0, 1, 1, 2, 3, rng.randint(0, maxchunk)])
        k = min(k, left)
        sizes.append(k)
        left -= k
    if rng.random() < 0.3:
        sizes.append(0)
    return sizes


def nontrivial_cut(tr):
    """a cut strictly inside a frame: some chunk boundary falls where the model's
    carry-over buffer is not empty"""
    pos = 0
    wire = tr['wire']
    inside = False
    for c in tr['chunks'][:-1]:
        pos += len(c)
        if 0 < pos < len(wire):
            inside = True
    return inside and len(tr['items']) > 0


# ---------------------------------------------------------------- the check

LINE_CFG = dict(Alphabet=set(), NL=10, MaxItems=0, MaxLen=0, MaxChunk=0, KeepHist=False, Deviation='none')


def do_replay(path):
    """Re-run one recorded case against the real code and let TLC judge it again."""
    C.use_repo()
    w = C.json.load(open(path))['witness']
    tr = w['trace']
    sizes = [len(c) for c in tr['chunks']]
    if w['op'] == 'line':
        new = line_trace([''.join(map(chr, i)) for i in tr['items']],
                         ''.join(map(chr, tr['tail'])), sizes, mode=tr.get('mode', 'plain'))
        v, _ = C.validate_traces('LineFramingTrace', [new],
                                 cfg_text=C.cfg(spec='TraceSpec', constants=LINE_CFG))
    else:
        p, order = w['config'][2:].split(',')
        new = lp_trace([bytes(i) for i in tr['items']], tr['cutoff'], sizes, int(p), order,
                       mode=tr.get('mode', 'plain'))
        v, _ = C.validate_traces('LengthPrefixTrace', [new], cfg_text=C.cfg(
            spec='TraceSpec', constants=dict(Bytes=set(), P=int(p), Order=order, MaxItems=0,
                                             MaxLen=0, MaxChunk=0, KeepHist=False, Deviation='none')))
    print('replay verdict:', v[0])
    print('items:', tr['items'], 'cuts:', sizes)
    print('real outputs per chunk:', new['outs'], 'at completion:', new['final'], new['ended'])
    if v[0][0] == 'REJECT':
        print('VIOLATION property=%s replay=%s clause=%s' % (PROP, path, v[0][2]))
        return 1
    return 0


def main(tier, replay):
    if replay:
        return do_replay(replay)
    C.use_repo()
    V = C.Verdict(PROP, tier)
    rng = random.Random(C.seed() * 7919 + 15)
    thorough = tier == 'thorough'
    mc_stats = []
    samples = []
    deviations_refuted = []

    # 1. exhaustive model checking -------------------------------------------------
    jobs = []
    lf_inv = ['TypeOK', 'Confluence', 'RoundTrip', 'FrameInverse', 'NoEarlyOutput']
    shapes = [(3, 2, 3)] if not thorough else [(3, 2, 4), (2, 3, 4)]     # (MaxItems, MaxLen, MaxChunk)
    for (mi, ml, mc_) in shapes:
        jobs.append(('LineFraming', dict(Alphabet={97, 98}, NL=10, MaxItems=mi, MaxLen=ml, MaxChunk=mc_,
                                         KeepHist=False, Deviation='none'), lf_inv))
    lp_cfgs = [(1, 'little'), (2, 'big')] + ([(2, 'little'), (1, 'big')] if thorough else [])
    for (p, order) in lp_cfgs:
        for (mi, ml, mc_) in shapes:
            jobs.append(('LengthPrefix', dict(Bytes={0, 1, 2}, P=p, Order=order, MaxItems=mi, MaxLen=ml,
                                              MaxChunk=mc_, KeepHist=False, Deviation='none'), ['Confluence', 'RoundTrip']))
    rs = C.par([lambda m=m, c=c, i=i: C.run_tlc(m, C.cfg(constants=c, invariants=i),
                                                  coverage=True, workers=4)
                for (m, c, i) in jobs])
    for (m, c, i), r in zip(jobs, rs):
        if r.violated:
            raise C.MachineryError('%s model violates %s:\n%s' % (m, r.violated, r.error_trace))
        mc_stats.append((m, c, r))
    # non-vacuity: slips re-introduced in the models must be refuted by the same invariants
    devs = [('LineFraming', dict(Alphabet={97, 98}, NL=10, MaxItems=2, MaxLen=2, MaxChunk=2, KeepHist=False,
                                 Deviation='no-flush'), ['RoundTrip']),
            ('LineFraming', dict(Alphabet={97, 98}, NL=10, MaxItems=2, MaxLen=2, MaxChunk=2, KeepHist=False,
                                 Deviation='drop-acc'), ['Confluence']),
            ('LengthPrefix', dict(Bytes={0, 1, 2}, P=1, Order='little', MaxItems=2, MaxLen=2, MaxChunk=2,
                                  KeepHist=False, Deviation='gt-size'), ['RoundTrip'])]
    for (m, c, i), r in zip(devs, C.par([lambda m=m, c=c, i=i: C.run_tlc(m, C.cfg(constants=c, invariants=i),
                                                                        workers=2) for (m, c, i) in devs])):
        if r.violated not in i:
            raise C.MachineryError('%s: deviation %s is not refuted (vacuous invariant)' % (m, c['Deviation']))
        deviations_refuted.append({'module': m, 'deviation': c['Deviation'], 'violated': r.violated})
    V.phase('model checking')

    # 2. behaviours generated by TLC ----------------------------------------------
    nsim = 3000 if thorough else 600
    cap = 2500 if thorough else 300     # exhaustive behaviours replayed per configuration
    gens = []
    gens.append(('line', 'LineFraming', dict(Alphabet={97, 98}, NL=10, MaxItems=2, MaxLen=1,
                                             MaxChunk=2, KeepHist=True, Deviation='none'), None))
    gens.append(('line', 'LineFraming', dict(Alphabet={97, 98, 34}, NL=10, MaxItems=3, MaxLen=2,
                                             MaxChunk=6, KeepHist=True, Deviation='none'), nsim))
    for (p, order) in [(1, 'little'), (2, 'big'), (1, 'big'), (2, 'little')]:
        gens.append(((p, order), 'LengthPrefix', dict(Bytes={0, 1, 2}, P=p, Order=order,
                                                      MaxItems=2, MaxLen=1, MaxChunk=2,
                                                      KeepHist=True, Deviation='none'), None))
        gens.append(((p, order), 'LengthPrefix', dict(Bytes={0, 1, 255}, P=p, Order=order,
                                                      MaxItems=3, MaxLen=2, MaxChunk=6,
                                                      KeepHist=True, Deviation='none'), nsim // 3))

    def gen(job):
        key, mod, const, sim = job
        text = C.cfg(constants=const, invariants=['EmitBehaviour'], constraints=['HistBound'])
        if sim is None:
            r = C.run_tlc(mod, text, workers=2)
        else:
            r = C.run_tlc(mod, text, workers=1, simulate='num=%d' % sim, depth=40,
                          tlc_seed=C.seed() + 1)
        b = C.extract_printed(r.stdout, 'BEH')
        n_all = len(b)
        if sim is None and cap is not None and len(b) > cap:
            b = rng_gen.sample(b, cap)
        return key, b, n_all, sim is None
    rng_gen = random.Random(C.seed() + 99)
    behaviours = {'line': [], 'lp': {}}
    gen_counts = []
    for key, b, n_all, exhaustive in C.par([lambda j=j: gen(j) for j in gens]):
        gen_counts.append({'config': str(key), 'exhaustive': exhaustive, 'generated': n_all,
                           'replayed': len(b)})
        if key == 'line':
            behaviours['line'] += b
        else:
            behaviours['lp'].setdefault(key, []).extend(b)
    V.phase('behaviour generation')
    # 3. replay into the real code + random executions -----------------------------
    line_traces = []
    for b in behaviours['line']:
        _, items, tail, sizes = b
        line_traces.append(line_trace([''.join(map(chr, i)) for i in items],
                                      ''.join(map(chr, tail)), sizes))
    n_replayed = len(line_traces)

    def rnd_text(maxlen):
        n = rng.choice([0, 0, 1, 2, rng.randint(0, maxlen)])
        pal = rng.choice(['ab', 'a\r\t ,"\\', None])
        s = []
        for _ in range(n):
            if pal:
                s.append(rng.choice(pal))
            else:
                cp = rng.choice([rng.randint(32, 126), rng.randint(0xa0, 0x2fff),
                                 rng.randint(0x10000, 0x10ffff), 0x0b, 0x0c, 0x0d, 0x1c, 0x85,
                                 0x2028])
                s.append(chr(cp))
        return ''.join(s)

    nrand = 1500 if thorough else 300
    for _ in range(nrand):
        items = [rnd_text(rng.choice([3, 10, 300])) for _ in range(rng.choice([0, 1, 2, 3, 8]))]
        tail = rnd_text(5) if rng.random() < 0.5 else ''
        n = sum(len(i) + 1 for i in items) + len(tail)
        line_traces.append(line_trace(items, tail, random_sizes(rng, n, rng.choice([1, 4, 50]))))

    lp_traces = {}
    for (p, order), bs in behaviours['lp'].items():
        lst = lp_traces.setdefault((p, order), [])
        for b in bs:
            _, items, cutoff, sizes = b
            lst.append(lp_trace([bytes(i) for i in items], cutoff, sizes, p, order))
    n_replayed += sum(len(v) for v in lp_traces.values())
    for _ in range(nrand):
        p = rng.choice([1, 2, 4, 8])
        order = rng.choice(['little', 'big'])
        maxlen = 200 if p == 1 else 300
        items = []
        for _ in range(rng.choice([0, 1, 2, 3, 6])):
            n = rng.choice([0, 0, 1, 2, rng.randint(0, maxlen)])
            pal = rng.choice([bytes([0, 1, 2]), bytes([0, 10, 255]), None])
            items.append(bytes(rng.choice(pal) if pal else rng.randint(0, 255) for _ in range(n)))
        cutoff = -1
        if items and rng.random() < 0.4:
            cutoff = rng.randint(0, p + len(items[-1]) - 1)
        n = sum(len(i) + p for i in items)
        if cutoff >= 0:
            n = n - (p + len(items[-1])) + cutoff
        lp_traces.setdefault((p, order), []).append(
            lp_trace(items, cutoff, random_sizes(rng, n, rng.choice([1, 4, 50])), p, order))

    # long streams and items at the limits of the prefix: more than 64 KiB delivered in one
    # subscription through reads that never end on a frame boundary; the largest length a
    # prefix can express (255 with one byte, 65535 with two)
    def big_items(count, lo, hi):
        return [bytes((j * 31 + k) % 251 for k in range(rng.randint(lo, hi))) for j in range(count)]
    bigs = [(1, [255, 254, 0, 255], 7), (1, [255], 256), (2, [65535, 3, 0, 700, 1], 4096)]
    bigs.append((rng.choice([2, 4, 8]), None, 1000))
    if thorough:
        bigs += [(1, None, 333), (4, [65536, 70000, 5], 65536), (2, [65535, 65535], 1 << 20)]
    for (p, lens, read) in bigs:
        order = rng.choice(['little', 'big'])
        items = big_items(rng.randint(360, 400), 0 if p > 1 else 150, 255 if p == 1 else 480) if lens is None \
            else [bytes((7 * k + n) % 253 for k in range(n)) for n in lens]
        n = sum(len(i) + p for i in items)
        sizes = [read] * (n // read) + ([n % read] if n % read else [])
        lp_traces.setdefault((p, order), []).append(lp_trace(items, -1, sizes, p, order))
    text = [''.join(chr(32 + (j * 7 + k) % 90) for k in range(rng.randint(0, 400))) for j in range(360)]
    n = sum(len(i) + 1 for i in text)
    line_traces.append(line_trace(text, 'tail', [1000] * (n // 1000) + [n % 1000 + 4]))

    V.phase('replay and random executions')
    # 4. validation by TLC --------------------------------------------------------
    tstats = {'states': 0, 'transitions': 0, 'tlc_runs': 0}
    out_of_sync = 0
    nontrivial = set()
    n_traces = 0

    def judge(kind, traces, verdicts, cfgname):
        nonlocal out_of_sync, n_traces
        for tr, v in zip(traces, verdicts):
            n_traces += 1
            if v[0] == 'ACCEPT':
                if v[2] is not True:
                    out_of_sync += 1
                if nontrivial_cut(tr):
                    nontrivial.add(C.json.dumps([tr['wire'], [len(c) for c in tr['chunks']]]))
            else:
                clause = v[2]
                if clause.startswith('model-'):
                    raise C.MachineryError('trace spec/harness problem: %s on %r' % (v, tr))
                V.violation({'op': kind, 'config': cfgname, 'items': tr['items'],
                             'chunks': [len(c) for c in tr['chunks']], 'trace': tr},
                            clause, detail='step %s' % v[1])

    verdicts, st = C.validate_traces(
        'LineFramingTrace', line_traces,
        cfg_text=C.cfg(spec='TraceSpec', constants=LINE_CFG, invariants=['TraceConfluence']))
    for k in tstats:
        tstats[k] += st[k]
    judge('line', line_traces, verdicts, 'line')
    for (p, order), traces in sorted(lp_traces.items()):
        verdicts, st = C.validate_traces(
            'LengthPrefixTrace', traces,
            cfg_text=C.cfg(spec='TraceSpec', constants=dict(
                Bytes=set(), P=p, Order=order, MaxItems=0, MaxLen=0, MaxChunk=0,
                KeepHist=False, Deviation='none')))
        for k in tstats:
            tstats[k] += st[k]
        judge('length_prefix', traces, verdicts, 'P=%d,%s' % (p, order))

    V.phase('trace validation')
    if out_of_sync:
        V.note('impl_model_in_sync=false: %d accepted traces emitted items in a different '
               'chunk than the model (allowed by C15)' % out_of_sync)
    samples.append({'kind': 'line', 'trace': line_traces[min(5, len(line_traces) - 1)]})
    k0 = sorted(lp_traces)[0]
    samples.append({'kind': 'length_prefix', 'config': k0, 'trace': lp_traces[k0][-1]})
    uncovered = sorted({a for (_, _, r) in mc_stats for a, (d, t) in r.coverage.items() if t == 0})
    coverage = {
        'states': sum(r.distinct for (_, _, r) in mc_stats) + tstats['states'],
        'transitions': sum(r.generated for (_, _, r) in mc_stats) + tstats['transitions'],
        'traces_validated_against_impl': n_traces,
        'samples': samples,
        'exhaustive': True,
        'model_checking_runs': [{'module': m, 'constants': {k: str(v) for k, v in c.items()},
                                 **r.summary()} for (m, c, r) in mc_stats],
        'tlc_behaviours_replayed': n_replayed,
        'model_deviations_refuted': deviations_refuted,
        'behaviour_generation': gen_counts,
        'random_executions': 2 * nrand,
        'distinct_nontrivial': len(nontrivial),
        'rule': 'a trace is non-trivial when at least one chunk boundary falls strictly inside '
                'the wire with items present; distinct by (wire, cut vector)',
        'trace_validation': tstats,
        'impl_model_in_sync': out_of_sync == 0,
        'actions_never_taken': uncovered,
    }
    return V.finish('model_checking', coverage, assumptions=[
        'line items contain no newline (framing is not injective otherwise)',
        'model alphabets are small; full Unicode / all byte values only through random traces',
        'rx Subject delivers synchronously (single-threaded)'])


if __name__ == '__main__':
    C.main_wrapper(main)
