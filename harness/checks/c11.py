"""C11: see harness/checks/muxprops.py (shared machinery of the multiplexed-stream checks)."""
import os
import sys

sys.path.insert(0, os.path.dirname(os.path.dirname(os.path.dirname(os.path.abspath(__file__)))))
from harness import common as C  # noqa: E402
from harness.checks import muxprops  # noqa: E402

if __name__ == '__main__':
    C.main_wrapper(muxprops.main('C11'))
