"""The checks of the multiplexed-stream core that share one machinery:
C02 C03 C04 C05 C06 C07 C08 C09 C10 C11 C13.

Each check
 1. lets TLC model-check the specification side: the layer-A list semantics against
    independent formulations of the property (spec/ListSemCheck.tla), and the
    implementation model against the layer-A contracts (spec/MuxModel.tla, all
    interleavings of the source events within the bounds);
 2. replays TLC-generated behaviours of the implementation model on the real code;
 3. drives the real code on harness-enumerated (exhaustive at small bounds) and random
    cases of the property's operator family, with a tap at every boundary;
 4. has TLC judge every recorded execution with the layer-A contracts
    (spec/MuxTrace.tla); only clauses that belong to the property are its violations.
"""
import itertools
import json
import os
import random
import sys

sys.path.insert(0, os.path.dirname(os.path.dirname(os.path.dirname(os.path.abspath(__file__)))))
from harness import common as C  # noqa: E402
from harness import mux as M  # noqa: E402
from harness import muxgen as G  # noqa: E402
from harness import muxcheck as MC  # noqa: E402

I = M.I
fn = M.fn
NONE = M.NONE


# values the value-agnostic operators must treat as opaque items: falsy ones in particular
# (0, '', False, None, empty list / tuple), strings, a non-integral number
OPAQUE = [I(0), I(1), NONE, ['s', ''], ['s', 'a'], ['b', False], ['l', []], ['t', []], ['q', 1, 2],
          ['o', 1], ['o', 2]]       # 'o': items whose == / != has no truth value (array-like)
# values with pairwise different python equality (no bool next to 0/1): usable as keys
KEYLIKE = [I(0), I(1), I(-1), I(-2), NONE, ['s', ''], ['s', 'a'], ['t', []], ['t', [I(0)]],
           ['t', [I(-1)]], ['t', [I(-2)]]]     # hash(-1) == hash(-2) in CPython


def mux_case(pipe, src, **kw):
    d = {'pipe': pipe, 'mode': 'mux', 'src': src}
    d.update(kw)
    return d


def src_case(pipe, items, **kw):
    d = {'pipe': pipe, 'mode': 'src', 'src': items}
    d.update(kw)
    return d


def feedback_cases(rng, pipes, n, items=None):
    """Re-entrant delivery: the subscriber pushes the next source item from inside its on_next
    (a feedback loop through the source Subject), whenever the output it receives was caused
    by an item.  Only pipelines in which the output for an item is the last thing every
    operator does for it (one output at most per item): there the boundary logs are those of
    the same events delivered one after the other, and the contracts apply unchanged."""
    cases = []
    for pipe in pipes:
        for _ in range(n):
            if items is None:
                lts = rand_lifetimes(rng, rng.choice([1, 2]), 8, vals=range(5))
            else:
                lts = [(idx, items(rng)) for idx in rng.sample([0, 1, 4], rng.choice([1, 2]))]
            cases.append(mux_case(pipe, G.schedule(rng, lts), feedback='end'))
    return cases


def sparse_cases(rng, pipes, n):
    """key indices far apart and far beyond anything allocated so far (the store tables and the
    join slots grow to the index they are asked for, in any order)"""
    cases = []
    for pipe in pipes:
        for _ in range(n):
            idxs = rng.sample([0, 3, 300, 1100, 2600, 5000], rng.choice([2, 3]))
            lts = [(idx, G.ints([rng.randint(0, 4) for _ in range(rng.randint(1, 5))])) for idx in idxs]
            cases.append(mux_case(pipe, G.schedule(rng, lts)))
    return cases


FB_DONE = {'op': 'identity', 'fb': 'd'}     # pushes the next item when a key completes here


def shared_inner_cases(rng, n, mk, items=None):
    """two composite operators in sequence that are given the same inner pipeline (the same
    python list in the untapped run), built from the same operator objects"""
    cases = []
    for _ in range(n):
        inn = rng.choice([[], [G.op_simple('last')], [G.op_simple('take', n=2)]])
        if rng.random() < 0.5:
            pipe = [mk(rng, inn), mk(rng, inn)]
        else:
            # one composite operator object applied in two branches of a tee_map
            k = mk(rng, inn)
            pipe = [G.op_tee('merge', [[k], [k]]), {'op': 'count', 'reduce': True}]
        if items is None:
            lts = rand_lifetimes(rng, rng.choice([1, 2]), 9, vals=range(5))
        else:
            lts = [(idx, items(rng)) for idx in rng.sample([0, 1, 4], rng.choice([1, 2]))]
        cases.append(mux_case(pipe, G.schedule(rng, lts), share_ops=True))
    return cases


def contains_op(pipe, name):
    for op in pipe:
        if op.get('op') == name:
            return True
        if 'inner' in op and contains_op(op['inner'], name):
            return True
        if 'branches' in op and any(contains_op(b, name) for b in op['branches']):
            return True
    return False


def rand_lifetimes(rng, nkeys, maxlen, vals=(-2, -1, 0, 1, 2, 3, 4), reuse=0.3, idxs=(0, 1, 2, 5, 9)):
    lts = []
    used = rng.sample(list(idxs), min(nkeys, len(idxs)))
    for idx in used:
        for _ in range(2 if rng.random() < reuse else 1):
            lts.append((idx, G.ints([rng.choice(vals) for _ in range(rng.randint(0, maxlen))])))
    return lts


def seqs(vals, maxlen):
    for n in range(maxlen + 1):
        for t in itertools.product(vals, repeat=n):
            yield list(t)


def child_closes(trace, in_path, head_path):
    """(#children closed in the step of a parent item, #closed in the step of a parent
    completion) for the keyer whose input boundary is in_path"""
    inn = MC.log_of(trace, in_path)
    head = MC.log_of(trace, head_path)
    by_item = by_done = 0
    for e in head:
        if e['t'] != 'd':
            continue
        cause = None
        for x in inn:
            if x['o'] < e['o']:
                cause = x
        if cause is None:
            continue
        if cause['t'] == 'n':
            by_item += 1
        elif cause['t'] == 'd':
            by_done += 1
    return by_item, by_done


def slot_reused(trace):
    """some boundary sees two lifetimes with the same slot index k[0]"""
    for t in trace['taps']:
        seen = {}
        for e in t['evs']:
            if e['t'] == 'c':
                seen[e['k'][0]] = seen.get(e['k'][0], 0) + 1
                if seen[e['k'][0]] > 1:
                    return True
    return False


# ======================================================================= C05 roll

def cases_c05(rng, thorough):
    cases = []
    geo = range(1, 7) if thorough else range(1, 6)
    lens = list(range(0, 15)) if thorough else [0, 1, 2, 3, 4, 6, 9, 14]
    for w in geo:
        for s in geo:
            for n in lens:
                cases.append(mux_case([G.op_roll(w, s, [])], G.key_stream(0, G.ints(range(n)))))
            for _ in range(5 if thorough else 2):   # interleaved parents, sparse indices, reuse
                lts = rand_lifetimes(rng, 2, 14, vals=range(5), reuse=0.4)
                cases.append(mux_case([G.op_roll(w, s, [])], G.schedule(rng, lts)))
            # as a user sees it: plain source, to_list per window
            cases.append(src_case([G.op_roll(w, s, [G.op_simple('to_list')])],
                                  G.ints(range(rng.choice([0, 3, 7, 12])))))
    for _ in range(60 if thorough else 15):       # the windows do not look at the items
        w, s_ = rng.randint(1, 4), rng.randint(1, 4)
        xs = [rng.choice(OPAQUE) for _ in range(rng.randint(0, 9))]
        cases.append(mux_case([G.op_roll(w, s_, [rng.choice([[], [G.op_simple('to_list')],
                                                              [G.op_simple('last')]])][0])],
                              G.key_stream(rng.choice([0, 3]), xs)))
    # nested: roll in roll / split / group_by, roll under group_by with interleaved groups
    nest = 60 if thorough else 20
    for _ in range(nest):
        w, s, w2, s2 = (rng.randint(1, 4) for _ in range(4))
        inner = G.op_roll(w2, s2, [rng.choice([[], [G.op_simple('to_list')],
                                                [{'op': 'count', 'reduce': True}]])][0])
        outer = rng.choice([
            G.op_roll(w, s, [inner]),
            G.op_split('divc', rng.choice([2, 3]), [inner]),
            G.op_group_by('modc', rng.choice([2, 3]), [inner]),
        ])
        lts = rand_lifetimes(rng, rng.choice([1, 2]), 10, vals=range(6))
        cases.append(mux_case([outer], G.schedule(rng, lts)))
    # windows longer than anything small: counters and slot numbers beyond one byte
    big = [(260, 260, 530), (258, 129, 400)] + ([(300, 300, 700), (257, 300, 620)] if thorough else [])
    for (w, s, n) in big:
        cases.append(mux_case([G.op_roll(w, s, [])], G.key_stream(0, G.ints([i % 7 for i in range(n)]))))
    cases += shared_inner_cases(rng, 24 if thorough else 8,
                                lambda r, inn: G.op_roll(r.randint(1, 3), r.randint(1, 3), inn))
    cases += multi_source_cases(rng, 12 if thorough else 4, mk_pipe=lambda r: [G.op_roll(
        r.randint(1, 3), r.randint(1, 3), r.choice([[], [G.op_agg('sum', True)]]))])
    cases += sparse_cases(rng, [[G.op_roll(3, 1, [])], [G.op_roll(2, 2, [G.op_agg('sum', True)])],
                                [G.op_roll(40, 2, [G.op_simple('last')])]], 3 if thorough else 1)
    # a feedback loop that pushes the next item when a (tumbling) window completes
    for w in (1, 2, 3):
        for inn in ([FB_DONE], [FB_DONE, G.op_simple('to_list')]):
            for _ in range(6 if thorough else 2):
                lts = rand_lifetimes(rng, rng.choice([1, 2]), 9, vals=range(5))
                cases.append(mux_case([G.op_roll(w, w, inn)], G.schedule(rng, lts)))
    return cases


def relevant_c05(n):
    return n.startswith('roll-')     # includes roll-stray-event / roll-stray-child


def nontrivial_c05(t):
    if not t['pipe'] or t['pipe'][0]['op'] != 'roll':
        return False
    a, b = child_closes(t, [0], [1, 1, 0])
    return a > 0 and b > 0


# ======================================================================= C04 group_by

def cases_c04(rng, thorough):
    cases = []
    variants = [None, 'bigint', 'tuple', 'str', 'float', 'altfloat', 'strenum', 'sentinel', 'npint']
    kfs = [('modc', 2), ('modc', 3), ('id', 0), ('addc', -3)]     # addc -3: negative keys (-1, -2 collide as hashes)
    maxlen = 5 if thorough else 4
    for (f, c) in kfs:
        for xs in seqs(range(4), maxlen):
            v = rng.choice(variants)
            cases.append(mux_case([G.op_group_by(f, c, [], v)], G.key_stream(rng.choice([0, 3]),
                                                                            G.ints(xs))))
    for _ in range(300 if thorough else 80):
        f, c = rng.choice(kfs)
        inner = rng.choice([[], [G.op_simple('to_list')], [G.op_agg('sum', True)],
                            G.gen_pipe(rng, 'int', 2, 0)[0]])
        g = G.op_group_by(f, c, inner, rng.choice(variants))
        shape = rng.random()
        if shape < 0.4:
            pipe = [g]
        elif shape < 0.6:
            pipe = [G.op_group_by('modc', 2, [g], rng.choice(variants))]
        elif shape < 0.8:
            pipe = [G.op_roll(rng.randint(1, 4), rng.randint(1, 4), [g])]
        else:
            pipe = [G.op_split('divc', 2, [g])]
        lts = rand_lifetimes(rng, rng.choice([1, 2, 3]), 8, vals=range(7))
        cases.append(mux_case(pipe, G.schedule(rng, lts)))
    for _ in range(80 if thorough else 20):     # keys of several types, falsy keys
        xs = [rng.choice(KEYLIKE) for _ in range(rng.randint(0, 8))]
        cases.append(mux_case([G.op_group_by('id', 0, rng.choice([[], [G.op_simple('to_list')]]))],
                              G.key_stream(rng.choice([0, 3]), xs)))
    for _ in range(30 if thorough else 8):      # many distinct keys
        xs = [rng.randint(0, 60) for _ in range(rng.randint(20, 80))]
        cases.append(src_case([G.op_group_by('id', 0, [G.op_simple('to_list')],
                                             rng.choice(variants))], G.ints(xs)))
    for _ in range(30 if thorough else 10):     # next to two other with_memory_store pipelines on the same feed
        inner = rng.choice([[], [G.op_simple('to_list')], [_scan_add()], [{'op': 'count', 'reduce': True}]])
        g = G.op_group_by(*rng.choice(kfs), inner, rng.choice(variants))
        xs = [rng.randint(0, 5) for _ in range(rng.randint(0, 10))]
        cases.append(src_case([g] if rng.random() < 0.7 else [G.op_group_by('modc', 2, [g])], G.ints(xs), sibling=True))
    cases += shared_inner_cases(rng, 24 if thorough else 8,
                                lambda r, inn: G.op_group_by('modc', r.choice([2, 3]), inn))
    # a key mapper that is not a function of the item (a round-robin dispatcher): it is
    # evaluated once per item; one key lifetime per case
    for _ in range(40 if thorough else 12):
        inner = rng.choice([[], [G.op_simple('to_list')], [_scan_add()]])
        xs = G.ints([rng.randint(0, 4) for _ in range(rng.randint(0, 9))])
        cases.append(mux_case([G.op_group_by('seqc', rng.choice([2, 3]), inner)], G.key_stream(rng.choice([0, 4]), xs),
                              stateful_fn=True))
    cases += sparse_cases(rng, [[G.op_group_by('modc', 3, [])], [G.op_group_by('id', 0, [G.op_simple('to_list')])]],
                          3 if thorough else 1)
    cases += multi_source_cases(rng, 12 if thorough else 4, mk_pipe=lambda r: [G.op_group_by(
        'modc', r.choice([2, 3]), r.choice([[], [G.op_simple('to_list')], [_scan_add()]]))])
    cases += feedback_cases(rng, [[G.op_group_by('modc', 2, [])], [G.op_group_by('id', 0, [_scan_add()])],
                                  [G.op_group_by('modc', 3, [G.op_simple('lag', n=1)])]], 8 if thorough else 3)
    return cases


def relevant_c04(n):
    return n.startswith('group_by-')


def nontrivial_c04(t):
    # at least two groups, one of them with two items that are not adjacent in the source
    for tp in t['taps']:
        if len(tp['p']) >= 3 and tp['p'][-1] == 0:
            ks = [e['k'][0] for e in tp['evs'] if e['t'] == 'n']
            if len(set(ks)) >= 2 and any(ks[i] != ks[i + 1] for i in range(len(ks) - 1)):
                return True
    return False


# ======================================================================= C06 split

def cases_c06(rng, thorough):
    cases = []
    preds = [('divc', 2), ('modc', 2), ('modc', 3), ('noneIf', 1), ('addc', -3)]   # noneIf: None as a predicate value
    variants = [None, 'bigint', 'tuple', 'str', 'altfloat', 'strenum', 'sentinel', 'npint']
    maxlen = 6 if thorough else 5
    for (f, c) in preds:
        for xs in seqs(range(4), maxlen):
            if len(xs) == maxlen and not thorough and rng.random() < 0.5:
                continue
            cases.append(mux_case([G.op_split(f, c, [], None if f == 'noneIf' else rng.choice(variants))],
                                  G.key_stream(rng.choice([0, 4]), G.ints(xs))))
    for _ in range(300 if thorough else 80):
        f, c = rng.choice(preds)
        inner = rng.choice([[], [G.op_simple('to_list')], [{'op': 'count', 'reduce': True}],
                            G.gen_pipe(rng, 'int', 2, 0)[0]])
        sp = G.op_split(f, c, inner, None if f == 'noneIf' else rng.choice(variants))
        shape = rng.random()
        if shape < 0.4:
            pipe = [sp]
        elif shape < 0.6:
            pipe = [G.op_group_by('modc', 2, [sp])]
        elif shape < 0.8:
            pipe = [G.op_roll(rng.randint(1, 4), rng.randint(1, 4), [sp])]
        else:
            pipe = [G.op_split('divc', 3, [sp])]
        lts = rand_lifetimes(rng, rng.choice([1, 2, 3]), 9, vals=range(6))
        cases.append(mux_case(pipe, G.schedule(rng, lts)))
    for _ in range(80 if thorough else 20):     # predicate values of several types, falsy ones
        xs = [rng.choice(KEYLIKE) for _ in range(rng.randint(0, 8))]
        cases.append(mux_case([G.op_split('id', 0, rng.choice([[], [G.op_simple('to_list')]]))],
                              G.key_stream(rng.choice([0, 3]), xs)))
    for _ in range(10 if thorough else 4):
        xs = [rng.randint(0, 5) for _ in range(rng.randint(0, 40))]
        cases.append(src_case([G.op_split('divc', 2, [G.op_simple('to_list')], 'str')], G.ints(xs)))
    cases += shared_inner_cases(rng, 24 if thorough else 8,
                                lambda r, inn: G.op_split('divc', r.choice([2, 3]), inn))
    # a criterion that is unequal to itself (NaN, every time the same object): every such item
    # starts a run of its own
    for _ in range(40 if thorough else 12):
        inner = rng.choice([[], [G.op_simple('to_list')], [{'op': 'count', 'reduce': True}]])
        sp = G.op_split('nanIf', rng.choice([0, 1]), inner)
        pipe = [sp] if rng.random() < 0.6 else [G.op_group_by('modc', 2, [sp])]
        lts = [(idx, G.ints([rng.choice([0, 0, 1, 1, 2]) for _ in range(rng.randint(0, 7))])) for idx in rng.sample([0, 2, 5], 2)]
        cases.append(mux_case(pipe, G.schedule(rng, lts)))
    # an item that fails upstream: its error event passes through split (and round its inner
    # pipeline); the runs are those of the sequence without that item
    for _ in range(40 if thorough else 12):
        inner = rng.choice([[G.op_simple('ignore')], [G.op_simple('ignore'), G.op_simple('to_list')],
                            [G.op_simple('ignore'), {'op': 'count', 'reduce': True}]])
        pipe = [G.op_map('failIf', rng.choice([1, 2, 3])), G.op_split('divc', rng.choice([2, 3]), inner),
                G.op_simple('ignore')]
        lts = rand_lifetimes(rng, rng.choice([1, 2]), 9, vals=range(6))
        cases.append(mux_case(pipe, G.schedule(rng, lts)))
    cases += feedback_cases(rng, [[G.op_split('divc', 2, [])], [G.op_split('modc', 2, [_scan_add()])],
                                  [G.op_split('divc', 3, [], 'tuple')]], 8 if thorough else 3)
    return cases


def relevant_c06(n):
    return n.startswith('split-')


def nontrivial_c06(t):
    if not t['pipe'] or t['pipe'][0]['op'] != 'split':
        return False
    a, b = child_closes(t, [0], [1, 1, 0])
    return a > 0 and b > 0


# ======================================================================= C07 time_split

def ts_items(gaps_flags):
    t = 0
    out = []
    for g, c in gaps_flags:
        t += g
        out.append(['t', [I(t), ['b', c]]])
    return out


def cases_c07(rng, thorough):
    cases = []
    cfgs = [(a, i, cl, inc) for a in (-1, 0, 2, 3) for i in (-1, 0, 1, 2) for cl in (False, True)
            for inc in (True, False) if cl or inc]       # 0: a zero duration is a timeout too
    maxlen = 4 if thorough else 3
    steps = [(g, c) for g in range(4) for c in (False, True)]
    for (a, i, cl, inc) in cfgs:
        op = G.op_time_split(a, i, cl, inc, [])
        space = [list(t) for n in range(maxlen + 1) for t in itertools.product(steps, repeat=n)]
        if not cl:
            space = [s for s in space if not any(c for _, c in s)]
        if len(space) > (400 if thorough else 60):
            space = rng.sample(space, 400 if thorough else 60)
        for gf in space:
            cases.append(mux_case([op], G.key_stream(rng.choice([0, 2]), ts_items(gf)),
                                  timescale=rng.choice([None, 'datetime', 'datetime-days', 'datetime-ms', 'datetime-dst', 'datetime-aware'])))
    for _ in range(400 if thorough else 100):    # longer, interleaved keys, to_list
        a, i, cl, inc = rng.choice(cfgs)
        inner = rng.choice([[], [G.op_simple('to_list')], [{'op': 'count', 'reduce': True}]])
        op = G.op_time_split(a, i, cl, inc, inner)
        lts = []
        for idx in rng.sample([0, 1, 4], rng.choice([1, 2])):
            for _ in range(rng.choice([1, 1, 2])):
                gf = [(rng.choice([0, 0, 1, 1, 2, 3]), cl and rng.random() < 0.3)
                      for _ in range(rng.randint(0, 9))]
                lts.append((idx, ts_items(gf)))
        pipe = [op] if rng.random() < 0.6 else [G.op_group_by('fstmodc', 2, [op])]
        cases.append(mux_case(pipe, G.schedule(rng, lts),
                              timescale=rng.choice([None, 'datetime', 'datetime-days', 'datetime-ms', 'datetime-dst', 'datetime-aware'])))
    cases += shared_inner_cases(
        rng, 24 if thorough else 8,
        lambda r, inn: G.op_time_split(r.choice([-1, 2, 3]), r.choice([-1, 1, 2]), True, r.random() < 0.5, inn),
        items=lambda r: ts_items([(r.choice([0, 1, 1, 2, 3]), r.random() < 0.3) for _ in range(r.randint(0, 8))]))
    # a closing mapper that is not a function of the item (a budget that accepts every second
    # consultation): it is consulted only for items that do not expire the window
    for _ in range(60 if thorough else 16):
        op = G.op_time_split(rng.choice([-1, 2, 3]), rng.choice([-1, 1, 2]), True, rng.random() < 0.5,
                             rng.choice([[], [G.op_simple('to_list')]]))
        op['closing'] = fn('every2')
        gf = [(rng.choice([0, 0, 1, 1, 2, 3]), False) for _ in range(rng.randint(0, 9))]
        cases.append(mux_case([op], G.key_stream(rng.choice([0, 2]), ts_items(gf)),
                              timescale=rng.choice([None, 'datetime']), stateful_fn=True))
    cases += multi_source_cases(
        rng, 12 if thorough else 4,
        mk_pipe=lambda r: [G.op_time_split(r.choice([-1, 2, 3]), r.choice([1, 2]), True, r.random() < 0.5,
                                           r.choice([[], [G.op_simple('to_list')]]))],
        items=lambda r: ts_items([(r.choice([0, 1, 1, 2, 3]), r.random() < 0.3) for _ in range(r.randint(0, 7))]))
    cases += feedback_cases(
        rng, [[G.op_time_split(2, -1, False, True, [])], [G.op_time_split(-1, 1, False, True, [])],
              [G.op_time_split(3, 2, False, True, [{'op': 'count', 'reduce': False}])]], 8 if thorough else 3,
        items=lambda r: ts_items([(r.choice([0, 1, 1, 2, 3]), False) for _ in range(r.randint(0, 8))]))
    return cases


def relevant_c07(n):
    return n.startswith('time_split-')


def nontrivial_c07(t):
    if not t['pipe'] or t['pipe'][0]['op'] != 'time_split':
        return False
    a, b = child_closes(t, [0], [1, 1, 0])
    return a > 0


# ======================================================================= C08 tee_map

BRANCHES = {
    'stream': lambda: [G.op_map('addc', 1)],
    'scan': lambda: [G.op_scan('add', I(0))],
    'filter_lt': lambda: [G.op_filter('ltc', 2)],
    'filter_ge': lambda: [G.op_filter('gec', 2)],
    'even': lambda: [G.op_filter('even')],
    'count': lambda: [{'op': 'count', 'reduce': False}],
    'reduce': lambda: [G.op_agg('max', True)],
    'last': lambda: [G.op_simple('last')],
    'to_list': lambda: [G.op_simple('to_list')],
    'dupl': lambda: [G.op_map('list3'), G.op_simple('flat_map')],
    'roll': lambda: [G.op_roll(2, 1, [G.op_agg('sum', True)])],
    'take1': lambda: [G.op_simple('take', n=1)],
    'ident': lambda: [],
    'opt': lambda: [G.op_map('noneIf', 1)],           # emits None as an item
    'opt2': lambda: [G.op_map('noneIf', 2), G.op_simple('last')],
}


def cases_c08(rng, thorough):
    cases = []
    names = sorted(BRANCHES)
    joins = ['merge', 'zip', 'combine_latest']
    for join in joins:
        for a, b in itertools.product(names, repeat=2):
            if not thorough and rng.random() < 0.6:
                continue
            t = G.op_tee(join, [BRANCHES[a](), BRANCHES[b]()])
            lts = rand_lifetimes(rng, rng.choice([1, 2]), 6, vals=range(4), reuse=0.5)
            cases.append(mux_case([t], G.schedule(rng, lts)))
    for _ in range(500 if thorough else 130):
        nb = rng.choice([2, 2, 3, 4])
        brs = [BRANCHES[rng.choice(names)]() for _ in range(nb)]
        if rng.random() < 0.2:   # nested tee
            brs[0] = [G.op_tee(rng.choice(joins), [BRANCHES[rng.choice(names)](),
                                                   BRANCHES[rng.choice(names)]()])]
        t = G.op_tee(rng.choice(joins), brs)
        shape = rng.random()
        if shape < 0.3:
            pipe = [t]
        elif shape < 0.5:
            pipe = [G.op_group_by('modc', 2, [t])]
        elif shape < 0.75:
            w = rng.randint(1, 3)
            pipe = [G.op_roll(w, rng.choice([w, w, 1, 2]), [t])]
        else:
            pipe = [G.op_split('divc', 2, [t])]
        lts = rand_lifetimes(rng, rng.choice([1, 2, 3]), 7, vals=range(5), reuse=0.5)
        cases.append(mux_case(pipe, G.schedule(rng, lts)))
    # the same operator object in several branches (operators are factories)
    for _ in range(60 if thorough else 16):
        shared = rng.choice([[{'op': 'count', 'reduce': True}], [G.op_agg('max', False)], [_scan_add()],
                             [G.op_simple('to_list')], [G.op_simple('take', n=1)]])
        pre = [[G.op_filter('even')], [G.op_filter('gec', 1)], [G.op_filter('ltc', 2)], []]
        rng.shuffle(pre)
        nb = rng.choice([2, 3])
        t = G.op_tee(rng.choice(joins), [pre[b] + shared for b in range(nb)])
        lts = rand_lifetimes(rng, rng.choice([1, 2]), 6, vals=range(-1, 4), reuse=0.4)
        cases.append(mux_case([t], G.schedule(rng, lts), share_ops=True))
    # a branch that fails on some item: the error event leaves the tee_map whichever branch it
    # comes from (and is then ignored, mapped, or ends the stream)
    for _ in range(60 if thorough else 16):
        nb = rng.choice([2, 3])
        brs = [rng.choice([[G.op_map('addc', 10)], [], [{'op': 'count', 'reduce': False}]]) for _ in range(nb)]
        brs[rng.randrange(nb)] = rng.choice([[G.op_map('failIf', 2)], [G.op_filter('failIfP', 2)],
                                             [G.op_scan('failAdd', I(0), c=2)]])
        t = G.op_tee(rng.choice(joins), brs)
        after = rng.choice([[G.op_simple('ignore')], [{'op': 'errmap', 'f': fn('errconst', 77)}], None])
        xs = G.ints([rng.choice([1, 2, 3]) for _ in range(rng.randint(1, 6))])
        if after is None:
            cases.append(src_case([t], xs))
        else:
            cases.append(mux_case([t] + after, G.key_stream(rng.choice([0, 3]), xs)))
    # the same tee_map operator object applied more than once: in two branches of an outer
    # tee_map, at two positions of a pipeline, inside two keyers (one application each)
    for _ in range(60 if thorough else 16):
        inner_t = G.op_tee(rng.choice(joins), [BRANCHES[rng.choice(names)]() for _ in range(2)])
        shape = rng.randint(0, 3)
        if shape == 0:
            pipe = [G.op_tee(rng.choice(joins), [[inner_t], [inner_t]])]
        elif shape == 1:
            pipe = [G.op_tee('merge', [[G.op_filter('even'), inner_t], [G.op_filter('gec', 1), inner_t]])]
        elif shape == 2:
            zt = G.op_tee('zip', [[G.op_map('addc', 1)], [_scan_add()]])
            pipe = [zt, G.op_map('fst'), zt]
        else:
            it = G.op_tee('zip', [[G.op_agg('max', True)], [G.op_simple('last')]])      # ints in, a pair of ints out
            pipe = [G.op_group_by('modc', 2, [it]), G.op_map('fst'), G.op_group_by('modc', 2, [it])]
        lts = rand_lifetimes(rng, rng.choice([1, 2]), 6, vals=range(4), reuse=0.4)
        cases.append(mux_case(pipe, G.schedule(rng, lts), share_ops=True))
    cases += sparse_cases(rng, [[G.op_tee(j, [[G.op_filter('even')], [_scan_add()]])] for j in ('zip', 'combine_latest')]
                          + [[G.op_roll(30, 1, [G.op_tee('zip', [[], [{'op': 'count', 'reduce': False}]])])]],
                          3 if thorough else 1)
    for _ in range(60 if thorough else 16):      # items the joins must not look at
        agn = [[], [G.op_simple('last')], [G.op_simple('take', n=2)], [{'op': 'count', 'reduce': False}],
               [G.op_simple('to_list')], [G.op_simple('lag', n=1)]]
        t = G.op_tee(rng.choice(joins), [rng.choice(agn) for _ in range(rng.choice([2, 3]))])
        lts = [(idx, [rng.choice(OPAQUE) for _ in range(rng.randint(0, 6))]) for idx in rng.sample([0, 2, 5], 2)]
        cases.append(mux_case([t], G.schedule(rng, lts)))
    # re-entrant delivery: zip of branches that give one output per item (the tuple is the
    # last thing the tee_map does for an item)
    cases += feedback_cases(rng, [
        [G.op_tee('zip', [[G.op_map('addc', 1)], [_scan_add()]])],
        [G.op_tee('zip', [[], [{'op': 'count', 'reduce': False}], [G.op_simple('lag', n=1)]])],
        [G.op_group_by('modc', 2, [G.op_tee('zip', [[G.op_map('mulc', 2)], []])])],
    ], 10 if thorough else 4)
    return cases


PLAIN_BRANCHES = ['stream', 'scan', 'filter_lt', 'filter_ge', 'even', 'count', 'reduce', 'to_list',      # (no last: RxPY raises on an empty sequence)
                  'dupl', 'take1', 'ident', 'opt']


def plain_tee_traces(tee, items):
    """one PlainTrace execution per branch of a tee_map run on a plain observable: the branch,
    as observed at its tail inside the tee_map, against the plain semantics of that pipeline"""
    logs, out = M.run_plain_tee(tee, items)
    return [{'pipe': b, 'modeled': True, 'oracle': 'plain-sem',
             'groups': [{'items': items, 'mux': [], 'muxerr': 0, 'plain': log['out'],
                         'plainend': log['end'], 'plainerr': 0}]}
            for b, log in zip(tee['branches'], logs)], out


def extra_c08_plain(V, rng, thorough, stats):
    """Plain mode: every branch of a tee_map receives the source's items and its completion,
    whatever the other branches do (a branch that ends early, a branch that never emits): at
    its tail it delivers what the same pipeline delivers alone, and it completes."""
    names = PLAIN_BRANCHES + ['never']
    mk = lambda n: [G.op_filter('false')] if n == 'never' else BRANCHES[n]()
    traces, meta = [], []
    for _ in range(240 if thorough else 60):
        tee = G.op_tee(rng.choice(['zip', 'zip', 'merge', 'combine_latest']),
                       [mk(rng.choice(names)) for _ in range(rng.choice([2, 2, 3]))])
        items = G.ints([rng.randint(0, 4) for _ in range(rng.randint(0, 6))])
        trs, out = plain_tee_traces(tee, items)
        for bi, t in enumerate(trs):
            traces.append(t)
            meta.append((tee, items, bi, out))
    verdicts, st = C.validate_traces('PlainTrace', traces)
    for k in ('states', 'transitions', 'tlc_runs'):
        stats[k] = stats.get(k, 0) + st[k]
    stats['traces'] = stats.get('traces', 0) + len(traces)
    stats['plain_tee_branch_traces'] = len(traces)
    for t, v, (tee, items, bi, out) in zip(traces, verdicts, meta):
        if v[0] == 'REJECT':
            V.violation({'family': 'C08', 'ops': ' '.join(MC.op_names([tee])), 'pipe': json.dumps([tee], sort_keys=True),
                         'mode': 'plaintee', 'src': items, 'branch': bi + 1,
                         'branch_delivered': t['groups'][0]['plain'], 'branch_end': t['groups'][0]['plainend']},
                        'tee-plain-branch-' + str(v[2]),
                        detail='branch %d of the tee_map on a plain observable: %s' % (bi + 1, v[2]))


def relevant_c08(n):
    return n.startswith('tee-')


def nontrivial_c08(t):
    # branches emitted different numbers of items for some key
    counts = {}
    for tp in t['taps']:
        p = tp['p']
        if len(p) >= 3:
            counts.setdefault(tuple(p[:-2]), {}).setdefault(p[-2], {})[p[-1]] = \
                sum(1 for e in tp['evs'] if e['t'] == 'n')
    for pre, brs in counts.items():
        tails = [c[max(c)] for c in brs.values()]
        if len(tails) >= 2 and len(set(tails)) > 1:
            return True
    return False


# ======================================================================= C09 scan algebra

def scan_ops():
    L0 = ['l', []]
    ops = []
    for red in (False, True):
        for term in ('none', 'addc'):
            ops.append(G.op_scan('add', I(0), reduce=red, term=term, tc=10))
            ops.append(G.op_scan('add', I(5), reduce=red, term=term, tc=10, seedfactory=True))
        ops.append(G.op_scan('appendMut', L0, reduce=red))
        ops.append(G.op_scan('appendMut', L0, reduce=red, seedfactory=True))
        ops.append(G.op_scan('appendNew', L0, reduce=red))
        ops.append(G.op_scan('max', NONE, reduce=red))
        # a factory seed says nothing about the type of later accumulators
        ops.append(G.op_scan('last', I(0), reduce=red, seedfactory=True))
        ops.append(G.op_scan('failAdd', I(0), reduce=red, c=2))
        ops.append({'op': 'count', 'reduce': red})
        for o in ('sum', 'min', 'max', 'mean'):
            ops.append(G.op_agg(o, red))
    ops += [G.op_simple('to_list'), G.op_simple('to_array'), G.op_simple('batch', n=2),
            G.op_simple('batch', n=1), G.op_simple('batch', n=3),
            G.op_simple('duc', f=fn('id')), G.op_simple('duc', f=fn('modc', 2)),
            G.op_simple('progress'), G.op_simple('dist')]
    return ops


def cases_c09(rng, thorough):
    cases = []
    for op in scan_ops():
        if op['op'] == 'mean' and op['reduce']:
            minlen = 1        # mean(reduce) of an empty key raises by design
        else:
            minlen = 0
        for _ in range(40 if thorough else 10):
            nk = rng.choice([1, 2, 3])
            lts = []
            for idx in rng.sample([0, 1, 2, 6], nk):
                for _ in range(rng.choice([1, 1, 2])):
                    lts.append((idx, G.ints([rng.randint(-3, 3)
                                             for _ in range(rng.randint(minlen, 6))])))
            cases.append(mux_case([op], G.schedule(rng, lts)))
        # all interleavings of two short keys
        streams = [G.key_stream(0, G.ints([1, 2][:max(minlen, 2)])), G.key_stream(3, G.ints([2]))]
        for src in G.all_interleavings(streams, cap=None if thorough else 12, rng=rng):
            cases.append(mux_case([op], src))
        if op['op'] == 'duc' and op['f']['n'] == 'id':
            for xs in ([NONE], [NONE, I(1)], [NONE, NONE, I(0)], [I(0), NONE, NONE], [['s', ''], NONE],
                       [['nan'], ['nan']], [I(1), ['nan'], ['nan'], I(1), I(1)], [['nan'], I(0), ['nan']]):
                cases.append(mux_case([op], G.key_stream(rng.choice([0, 2]), xs)))     # a leading None / falsy key
            for _ in range(12 if thorough else 4):     # None / falsy / colliding-hash keys first
                lts = [(idx, [rng.choice(KEYLIKE) for _ in range(rng.randint(0, 5))]) for idx in (0, 2)]
                cases.append(mux_case([op], G.schedule(rng, lts)))
        if op['op'] in ('to_list', 'batch', 'progress') or \
                (op['op'] == 'scan' and op['f']['n'] in ('appendMut', 'appendNew', 'last')) or \
                (op['op'] == 'count'):
            for _ in range(12 if thorough else 3):     # value-agnostic folds on falsy / mixed items
                lts = [(idx, [rng.choice(OPAQUE) for _ in range(rng.randint(0, 5))]) for idx in (0, 2)]
                cases.append(mux_case([op], G.schedule(rng, lts)))
        # a lifetime ended by an error event of the source, then the same key again
        for _ in range(6 if thorough else 2):
            a = G.ints([rng.randint(-2, 3) for _ in range(rng.randint(max(1, minlen), 4))])
            b = G.ints([rng.randint(-2, 3) for _ in range(rng.randint(max(1, minlen), 4))])
            streams = [G.failing_key_stream(0, a, b)]
            if rng.random() < 0.5:
                streams.append(G.key_stream(3, G.ints([rng.randint(0, 3) for _ in range(rng.randint(minlen, 3))])))
            cases.append(mux_case([op], rng.choice(G.all_interleavings(streams, cap=20, rng=rng))))
        # inside windows and groups (seed per lifetime)
        for _ in range(12 if thorough else 3):
            parent = rng.choice([lambda inn: G.op_roll(2, 2, inn), lambda inn: G.op_roll(3, 1, inn),
                                 lambda inn: G.op_group_by('modc', 2, inn),
                                 lambda inn: G.op_split('divc', 2, inn)])
            lts = rand_lifetimes(rng, 2, 7, vals=range(4))
            cases.append(mux_case([parent([op])], G.schedule(rng, lts)))
        # re-entrant delivery (the state is written before the running value is emitted)
        if op['op'] != 'dist' and not (op['op'] == 'mean' and op['reduce']):
            cases += feedback_cases(rng, [[op]], 4 if thorough else 1)
    # a consumer that modifies the list it receives; lifetimes that get no item (everything is
    # filtered out before the fold) emit the seed: it must not be the shared seed object
    for _ in range(60 if thorough else 16):
        fold = rng.choice([G.op_scan('appendNew', ['l', []], reduce=True), G.op_scan('appendMut', ['l', []], reduce=True),
                           G.op_scan('appendMut', ['l', []], reduce=True, seedfactory=True), G.op_simple('to_list')])
        inner = [G.op_filter('gec', rng.choice([1, 2, 3])), fold, G.op_map('appendc', 9)]
        parent = rng.choice([lambda inn: G.op_split('divc', 2, inn), lambda inn: G.op_group_by('modc', 3, inn),
                             lambda inn: G.op_roll(2, 2, inn)])
        lts = rand_lifetimes(rng, 2, 9, vals=range(5))
        cases.append(mux_case([parent(inner)], G.schedule(rng, lts)))
    cases += sparse_cases(rng, [[_scan_add()], [{'op': 'count', 'reduce': True}], [G.op_simple('to_list')],
                                [G.op_simple('duc', f=fn('id'))]], 3 if thorough else 1)
    cases += multi_source_cases(rng, 16 if thorough else 5, mk_pipe=lambda r: [r.choice(
        [o for o in scan_ops() if o['op'] not in ('dist', 'mean', 'to_array') and not (o['op'] == 'scan' and o['f']['n'] == 'failAdd')])])
    cases += feedback_cases(rng, [[_scan_add(), G.op_simple('lag', n=1)],
                                  [G.op_map('modc', 2), G.op_simple('duc', f=fn('id')), {'op': 'count', 'reduce': False}]],
                            8 if thorough else 3)
    return cases


C09_OPS = ('scan', 'count', 'sum', 'mean', 'min', 'max', 'to_list', 'to_array', 'batch', 'duc',
           'progress', 'dist')


def relevant_c09(n):
    return any(n == o + '-output' for o in C09_OPS)


def nontrivial_c09(t):
    # two keys (or two lifetimes) alive in the same run, both with items
    b0 = MC.log_of(t, [0])
    keys = {}
    for e in b0:
        if e['t'] == 'n':
            keys[e['k'][0]] = keys.get(e['k'][0], 0) + 1
    return len(keys) >= 2 or slot_reused(t)


# ======================================================================= C10 sequence operators

def seq_ops():
    ops = [G.op_simple('first'), G.op_simple('last')]
    ops += [G.op_simple('take', n=n) for n in (0, 1, 2, 5)]
    ops += [G.op_simple('distinct', f=fn('id')), G.op_simple('duc', f=fn('id')),
            G.op_simple('distinct', f=fn('addc', -3)), G.op_simple('duc', f=fn('addc', -3)),
            G.op_simple('distinct', f=fn('modc', 2), variant='altfloat'),
            G.op_simple('duc', f=fn('modc', 2), variant='altfloat'),
            G.op_simple('duc', f=fn('nanIf', 1))]          # NaN keys: never equal, not even the same object
    ops += [G.op_simple('lag', n=n) for n in (0, 1, 2, 4)]
    for n in (0, 1, 3):
        for v in (NONE, I(9)):
            ops.append(G.op_simple('pad_start', n=n, v=v))
            ops.append(G.op_simple('pad_end', n=n, v=v))
    ops += [G.op_simple('start_with', p=p) for p in ([], [I(7)], [I(7), I(8)])]
    ops += [G.op_simple('batch', n=n) for n in (1, 2, 3, 5)]
    return ops


def cases_c10(rng, thorough):
    cases = []
    vals0 = [I(0), I(1), I(2), NONE]
    maxlen = 5 if thorough else 4
    space0 = [list(t) for n in range(maxlen + 1) for t in itertools.product(vals0, repeat=n)]
    ivals = [I(0), I(1), I(2), I(3)]
    ispace = [list(t) for n in range(maxlen + 1) for t in itertools.product(ivals, repeat=n)]
    for op in seq_ops():
        intonly = op['op'] in ('distinct', 'duc') and op['f']['n'] != 'id'   # integer key functions
        vals, space = (ivals, ispace) if intonly else (vals0, space0)
        sp = space
        if not thorough and len(sp) > 45:
            sp = [s for s in space if len(s) <= 2] + rng.sample([s for s in space if len(s) > 2], 24)
        for xs in sp:
            cases.append(mux_case([op], G.key_stream(rng.choice([0, 2]), xs)))
        # falsy / non-integer items: the operators are value-agnostic (distinct and
        # distinct_until_changed compare with ==: key-like values only)
        pool = ivals if intonly else KEYLIKE if op['op'] in ('distinct', 'duc') else OPAQUE
        for _ in range(40 if thorough else 10):
            xs = [rng.choice(pool) for _ in range(rng.randint(0, 6))]
            cases.append(mux_case([op], G.key_stream(rng.choice([0, 2]), xs)))
        for _ in range(20 if thorough else 5):        # two keys interleaved, long sequences
            lts = [(idx, [rng.choice(vals) for _ in range(rng.randint(0, 12))])
                   for idx in rng.sample([0, 1, 7], 2)]
            cases.append(mux_case([op], G.schedule(rng, lts)))
        cases.append(src_case([op], [rng.choice(vals) for _ in range(rng.randint(0, 30))]))
        # re-entrant delivery; pad_start / start_with emit several items for the first one
        if op['op'] not in ('pad_start', 'start_with', 'pad_end'):
            for _ in range(4 if thorough else 2):
                lts = [(idx, [rng.choice(vals) for _ in range(rng.randint(1, 7))]) for idx in rng.sample([0, 1, 5], 2)]
                cases.append(mux_case([op], G.schedule(rng, lts), feedback='end'))
    # parameters beyond the small-integer range of the interpreter (batch sizes, take counts,
    # lags in the hundreds), on sequences long enough to reach them
    for op, n in ((G.op_simple('batch', n=300), 650), (G.op_simple('take', n=270), 300), (G.op_simple('lag', n=260), 280)):
        xs = G.ints([j % 7 for j in range(n)])
        cases.append(src_case([op], xs))
        if thorough or op['op'] == 'batch':
            cases.append(mux_case([op], G.schedule(rng, [(0, xs[:n // 2 + 5]), (3, xs[:20])])))
    return cases


C10_OPS = ('first', 'last', 'take', 'distinct', 'duc', 'lag', 'pad_start', 'pad_end', 'start_with',
           'batch', 'sort')


def relevant_c10(n):
    return any(n == o + '-output' for o in C10_OPS)


def nontrivial_c10(t):
    b0 = MC.log_of(t, [0])
    return sum(1 for e in b0 if e['t'] == 'n') >= 2


# ======================================================================= C11 promptness

def cases_c11(rng, thorough):
    cases = []
    for _ in range(900 if thorough else 220):
        pipe, _k = G.gen_pipe(rng, 'int', rng.choice([1, 2, 3]), rng.choice([1, 2, 2]))
        lts = rand_lifetimes(rng, rng.choice([1, 2, 3]), 7, vals=range(5))
        cases.append(mux_case(pipe, G.schedule(rng, lts)))
    # dedicated: results of windows / segments / batches / running aggregates
    ded = [
        [G.op_simple('batch', n=1)], [G.op_simple('batch', n=2)],
        [G.op_scan('add', I(0))], [{'op': 'count', 'reduce': False}],
        [G.op_roll(3, 1, [G.op_agg('sum', True)])], [G.op_roll(2, 2, [G.op_simple('to_list')])],
        [G.op_split('divc', 2, [G.op_simple('to_list')])],
        # criteria that are equal but never identical objects
        [G.op_split('divc', 2, [G.op_simple('to_list')], 'bigint')],
        [G.op_split('divc', 2, [G.op_agg('sum', True)], 'tuple')],
        [G.op_split('divc', 3, [{'op': 'count', 'reduce': True}], 'float')],
        [G.op_group_by('modc', 2, [G.op_scan('add', I(0))])],
        [G.op_group_by('modc', 2, [G.op_scan('add', I(0))], 'str')],
        [G.op_tee('zip', [[G.op_scan('add', I(0))], [{'op': 'count', 'reduce': False}]])],
        [G.op_time_split(3, -1, False, True, [G.op_simple('to_list')])],
        [G.op_time_split(-1, -1, True, True, [G.op_simple('to_list')])],
        [G.op_time_split(3, 2, True, False, [G.op_simple('to_list')])],
        [G.op_time_split(-1, 2, True, True, [{'op': 'count', 'reduce': True}])],
        [G.op_tee('zip', [[G.op_filter('even')], []])],
        [G.op_tee('zip', [[G.op_simple('last')], [G.op_simple('first')]])],
        [G.op_tee('zip', [[G.op_roll(3, 3, [G.op_agg('sum', True)])], [G.op_roll(2, 2, [G.op_agg('sum', True)])]])],
        [G.op_tee('combine_latest', [[G.op_agg('max', True)], [G.op_map('addc', 1)]])],
        [G.op_simple('take', n=2), G.op_simple('to_list')],
        [G.op_simple('first'), G.op_simple('last')],
    ]
    for pipe in ded:
        for _ in range(10 if thorough else 4):
            if pipe[0]['op'] == 'time_split':
                cl = pipe[0]['closing']['n'] != 'none'
                lts = [(idx, ts_items([(rng.choice([0, 1, 2, 3]), cl and rng.random() < 0.4)
                                       for _ in range(rng.randint(0, 8))])) for idx in rng.sample([0, 2], rng.choice([1, 2]))]
            else:
                lts = rand_lifetimes(rng, rng.choice([1, 2]), 8, vals=range(5))
            cases.append(mux_case(pipe, G.schedule(rng, lts),
                                  **({'timescale': rng.choice([None, 'datetime', 'datetime-dst'])}
                                     if pipe[0]['op'] == 'time_split' else {})))
            if pipe[0]['op'] != 'time_split':
                cases.append(src_case(pipe, G.ints([rng.randint(0, 4)
                                                    for _ in range(rng.randint(0, 8))])))
    return cases


def relevant_c11(n):
    return n.endswith('-timing') or n.endswith('-child-item-step') or \
        n.endswith('-child-close-step') or n.endswith('-child-create-step') or n == 'root-demux-output'


def nontrivial_c11(t):
    # some output is determined before the end of its key (emitted in the step of an item)
    last = t['taps'][-1] if t['taps'] else None
    top = MC.log_of(t, [len(t['pipe'])])
    b0 = MC.log_of(t, [0])
    for e in top:
        if e['t'] != 'n':
            continue
        cause = None
        for x in b0:
            if x['o'] < e['o']:
                cause = x
        if cause is not None and cause['t'] == 'n':
            return True
    return False


# ======================================================================= C13 item-level errors

def cases_c13(rng, thorough):
    cases = []
    failing = [
        ('map', lambda: [G.op_map('failIf', 2)]),
        # (x, x) -> x + x, fails with a TypeError-family exception (code 2) where the sum is 2
        ('starmap', lambda: [G.op_map('dup'), {'op': 'starmap', 'f': fn('failAdd2', 2)}]),
        ('filter', lambda: [G.op_filter('failIfP', 2)]),
        ('scan', lambda: [G.op_scan('failAdd', I(0), c=2)]),
        ('scan-reduce', lambda: [G.op_scan('failAdd', I(0), reduce=True, c=2)]),
        # the failing operator inside a branch of a tee_map (not the last / the last one)
        ('tee-first', lambda: [G.op_tee('merge', [[G.op_map('failIf', 2)], [G.op_map('addc', 10)]])]),
        ('tee-last', lambda: [G.op_tee('zip', [[G.op_map('addc', 10)], [G.op_filter('failIfP', 2)]])]),
        ('tee-mid', lambda: [G.op_tee('combine_latest', [[], [G.op_scan('failAdd', I(0), c=2)], [G.op_map('addc', 10)]])]),
    ]
    handlers = [
        ('none', None), ('ignore', lambda: G.op_simple('ignore')),
        ('errmap', lambda: {'op': 'errmap', 'f': fn('errcode')}),
        ('errconst', lambda: {'op': 'errmap', 'f': fn('errconst', 77)}),
        ('errnone', lambda: {'op': 'errmap', 'f': fn('errnone')}),     # (a missing value in place of the failure)
        ('router', lambda: G.op_simple('router')),
    ]
    downstream = [[], [G.op_scan('add', I(0))], [{'op': 'count', 'reduce': True}],
                  [G.op_simple('to_list')], [G.op_simple('duc', f=fn('id'))],
                  [G.op_simple('lag', n=1)], [G.op_simple('take', n=2)]]
    maxlen = 6 if thorough else 4
    # items over {1, 2}: value 2 fails -> every subset of failing positions
    space = [list(t) for n in range(maxlen + 1) for t in itertools.product((1, 2), repeat=n)]
    for fname, mk in failing:
        if mk is None:
            continue
        for hname, hk in handlers:
            anyds = [d for d in downstream if not (d and d[0]['op'] == 'scan')] \
                if fname in ('tee-last', 'tee-mid') or hname == 'errnone' else downstream     # tuples come out of zip / combine_latest, None out of errnone
            for down in (anyds if thorough else rng.sample(anyds, 3)):
                sp = space if thorough else rng.sample(space, 12) + [[2], [2, 2], [1, 2], [2, 1]]
                for xs in sp:
                    pipe = mk() + ([hk()] if hk else []) + (down if hk else [])
                    if hk is None:
                        # unhandled: surfaces as on_error where the stream is demultiplexed
                        cases.append(src_case(pipe, G.ints(xs)))
                        cases.append(mux_case([G.op_group_by('modc', 2, pipe)],
                                              G.key_stream(0, G.ints(xs))))
                    else:
                        cases.append(mux_case(pipe, G.key_stream(rng.choice([0, 3]), G.ints(xs))))
                # two interleaved keys
                for _ in range(6 if thorough else 2):
                    pipe = mk() + ([hk()] if hk else []) + (down if hk else [])
                    if hk is None:
                        continue
                    lts = [(idx, G.ints([rng.choice([1, 2, 3]) for _ in range(rng.randint(0, 6))]))
                           for idx in rng.sample([0, 1, 5], 2)]
                    cases.append(mux_case(pipe, G.schedule(rng, lts)))
                    cases.append(src_case(pipe, G.ints([rng.choice([1, 2, 3])
                                                       for _ in range(rng.randint(0, 7))])))
    # the handler directly after the failing operator, but as the first operator of the
    # branches of a tee_map (its source is then the tee_map's connectable proxy), or behind a
    # plain RxPY-style pass-through
    for _ in range(60 if thorough else 16):
        fail = rng.choice([G.op_map('failIf', 2), G.op_filter('failIfP', 2), G.op_scan('failAdd', I(0), c=2)])
        h1 = rng.choice([G.op_simple('ignore'), {'op': 'errmap', 'f': fn('errconst', 77)}, {'op': 'errmap', 'f': fn('errcode')}])
        h2 = rng.choice([G.op_simple('ignore'), {'op': 'errmap', 'f': fn('errconst', 78)}])
        b1 = [h1] + rng.choice([[], [G.op_map('addc', 1)], [{'op': 'count', 'reduce': False}]])
        b2 = [h2] + rng.choice([[], [G.op_simple('lag', n=1)]])
        pipe = [fail, G.op_tee(rng.choice(['merge', 'zip', 'combine_latest']), [b1, b2])]
        lts = [(idx, G.ints([rng.choice([1, 2, 3]) for _ in range(rng.randint(0, 6))])) for idx in rng.sample([0, 1, 5], 2)]
        cases.append(mux_case(pipe, G.schedule(rng, lts)))
    # failing operator and handler inside the inner pipeline of a keyer (nested keys), also
    # two levels deep
    for _ in range(120 if thorough else 30):
        fail = rng.choice([[G.op_map('failIf', 2)], [G.op_filter('failIfP', 2)], [G.op_scan('failAdd', I(0), c=2)],
                           [G.op_map('dup'), {'op': 'starmap', 'f': fn('failAdd2', 4)}]])
        h = rng.choice([G.op_simple('ignore'), {'op': 'errmap', 'f': fn('errconst', 77)}, {'op': 'errmap', 'f': fn('errcode')}])
        down = rng.choice([[], [{'op': 'count', 'reduce': True}], [G.op_simple('to_list')], [G.op_simple('last')]])
        inner = fail + [h] + down

        def keyer(inn):
            k = rng.randint(0, 3)
            if k == 0:
                return G.op_group_by('modc', 2, inn)
            if k == 1:
                w = rng.randint(1, 3)
                return G.op_roll(w, rng.choice([w, 1]), inn)
            if k == 2:
                return G.op_split('divc', 2, inn)
            return {'op': 'time_split', 'tm': fn('id'), 'active': -1, 'inactive': rng.choice([1, 2]),
                    'closing': fn('none'), 'incl': False, 'inner': inn}
        pipe = [keyer(inner)] if rng.random() < 0.7 else [keyer([keyer(inner)])]
        lts = [(idx, G.ints(sorted(rng.choice([1, 2, 3, 4]) for _ in range(rng.randint(0, 6)))))
               for idx in rng.sample([0, 1, 5], rng.choice([1, 2]))]
        cases.append(mux_case(pipe, G.schedule(rng, lts)))
    # an unhandled failure in front of a key-creating operator: the error event crosses the
    # operator on the parent's path and ends the stream where it is demultiplexed, whether or
    # not a window / group / segment is open for the key and whatever the inner pipeline handles
    for _ in range(120 if thorough else 36):
        fail = rng.choice([[G.op_map('failIf', 2)], [G.op_filter('failIfP', 2)], [G.op_scan('failAdd', I(0), c=2)]])
        inner = rng.choice([[G.op_simple('to_list')], [G.op_simple('ignore'), G.op_simple('to_list')],
                            [{'op': 'errmap', 'f': fn('errconst', 77)}, {'op': 'count', 'reduce': True}], []])
        k = rng.randint(0, 3)
        if k == 0:
            w, st = rng.choice([(3, 2), (1, 3), (2, 2), (2, 1), (1, 2), (4, 3)])
            kop = G.op_roll(w, st, inner)
        elif k == 1:
            kop = G.op_group_by('modc', 2, inner)
        elif k == 2:
            kop = G.op_split('divc', 2, inner)
        else:
            kop = {'op': 'time_split', 'tm': fn('id'), 'active': -1, 'inactive': rng.choice([1, 2]),
                   'closing': fn('none'), 'incl': False, 'inner': inner}
        xs = sorted(rng.choice([1, 1, 2, 3, 4]) for _ in range(rng.randint(1, 7)))
        if k != 3:
            rng.shuffle(xs)
        cases.append(src_case(fail + [kop], G.ints(xs)))
    # rs.ops.multiplex (no store): stateless pipelines with handlers, and unhandled errors
    for _ in range(60 if thorough else 16):
        fail = rng.choice([G.op_map('failIf', 2), G.op_filter('failIfP', 2)])
        h = rng.choice([None, G.op_simple('ignore'), {'op': 'errmap', 'f': fn('errcode')}, G.op_simple('router')])
        pipe = [G.op_map('addc', 0), fail] + ([h, G.op_map('mulc', 2)] if h else [])
        cases.append(src_case(pipe, G.ints([rng.choice([1, 2, 3]) for _ in range(rng.randint(0, 7))]),
                              root='multiplex'))
    # the dead-letter observable may be subscribed after the data pipeline (hot source)
    for c in cases:
        if any(o['op'] == 'router' for o in c['pipe']) and rng.random() < 0.5:
            c['dl_late'] = True
    # starmap on pairs
    for hname, hk in handlers[1:]:
        for _ in range(10 if thorough else 3):
            pipe = [G.op_map('dup'), {'op': 'starmap', 'f': fn('add2')}, G.op_map('failIf', 4), hk()]
            lts = [(0, G.ints([rng.choice([1, 2, 3]) for _ in range(rng.randint(0, 6))]))]
            cases.append(mux_case(pipe, G.schedule(rng, lts)))
    return cases


C13_OPS = ('map', 'starmap', 'filter', 'scan', 'ignore', 'errmap', 'router')


def relevant_c13(n):
    return any(n == o + '-output' for o in C13_OPS) or n.startswith('router-dead-letter') or \
        n.startswith('fatal-error-') or n == 'unexpected-stream-error' or \
        n.endswith('-demux-output') or n == 'tee-error-passage'


def nontrivial_c13(t):
    for tp in t['taps']:
        if any(e['t'] == 'e' for e in tp['evs']):
            return True
    return t['end']['t'] == 'error'


# ======================================================================= C03 protocol

def cases_c03(rng, thorough):
    cases = []
    # every keyer / tee around nothing, small parameters, degenerate inputs
    for w in (1, 2, 3, 5):
        for s in (1, 2, 3, 5):
            for xs in ([], [1], [1, 2, 3], [1, 2, 3, 4, 5, 6, 7]):
                cases.append(mux_case([G.op_roll(w, s, [])], G.key_stream(0, G.ints(xs))))
                cases.append(src_case([G.op_roll(w, s, [G.op_filter('false')])], G.ints(xs)))
    for xs in ([], [0], [0, 1, 2, 3], [1, 1, 1], [0, 2, 4, 1]):
        for k in (G.op_split('modc', 2, []), G.op_group_by('modc', 2, []),
                  G.op_group_by('modc', 2, [G.op_filter('false')]),
                  G.op_split('divc', 2, [])):
            cases.append(mux_case([k], G.key_stream(0, G.ints(xs))))
            cases.append(src_case([k], G.ints(xs)))
    for _ in range(1200 if thorough else 300):
        pipe, _k = G.gen_pipe(rng, 'int', rng.choice([1, 2, 3]), rng.choice([1, 2, 3]),
                              allow_err=rng.random() < 0.3)
        lts = rand_lifetimes(rng, rng.choice([1, 2, 3]), 7, vals=range(5), reuse=0.4)
        if rng.random() < 0.25:
            cases.append(src_case(pipe, G.ints([rng.randint(0, 4)
                                                for _ in range(rng.randint(0, 9))])))
        else:
            src = G.schedule(rng, lts)
            if rng.random() < 0.1:
                src.append({'t': 'open', 'k': [0]})    # the source never completes
            cases.append(mux_case(pipe, src))
    for _ in range(100 if thorough else 25):     # time_split nests
        op = G.op_time_split(rng.choice([-1, 2, 3]), rng.choice([-1, 1, 2]), rng.random() < 0.5,
                             rng.random() < 0.5, rng.choice([[], [G.op_simple('to_list')]]))
        if op['active'] < 0 and op['inactive'] < 0 and op['closing']['n'] == 'none':
            op['active'] = 2
        lts = [(idx, ts_items([(rng.choice([0, 1, 2, 3]), rng.random() < 0.3)
                               for _ in range(rng.randint(0, 7))])) for idx in rng.sample([0, 2], 2)]
        cases.append(mux_case([op], G.schedule(rng, lts)))
    cases += multi_source_cases(rng, 40 if thorough else 10)
    # sources that deliver from inside subscribe() (no trampoline between the subscription and
    # the first item): the root key must exist before its first item
    for _ in range(40 if thorough else 12):
        pipe = rng.choice([[G.op_scan('add', I(0))], [G.op_roll(2, 1, [G.op_simple('last')])],
                           [G.op_group_by('modc', 2, [{'op': 'count', 'reduce': True}])], [G.op_map('addc', 1)],
                           [G.op_split('divc', 2, [G.op_simple('to_list')])], []])
        items = G.ints([rng.randint(0, 4) for _ in range(rng.randint(0, 6))])
        cases.append(src_case(pipe, items, source=rng.choice(['sync', 'immediate']),
                              root=rng.choice(['store', 'store', 'multiplex']) if pipe in ([], [G.op_map('addc', 1)]) else 'store'))
    # two chained store sections with a store manager each (the state ids of the second
    # section address the second store)
    for _ in range(60 if thorough else 16):
        a = rng.choice([[G.op_roll(3, 3, [])], [G.op_roll(2, 1, [G.op_simple('last')])], [G.op_scan('add', I(0))],
                        [G.op_group_by('modc', 2, [G.op_simple('last')])], [{'op': 'count', 'reduce': False}]])
        b = rng.choice([[G.op_roll(2, 2, [])], [G.op_roll(2, 2, [G.op_agg('sum', True)])], [G.op_scan('add', I(0))],
                        [G.op_split('divc', 2, [G.op_simple('to_list')])], [G.op_simple('lag', n=1)],
                        [G.op_simple('distinct', f=fn('id'))]])
        lts = rand_lifetimes(rng, rng.choice([1, 2]), 8, vals=range(5))
        cases.append(mux_case(a + b, G.schedule(rng, lts), store_split=len(a)))
    # one composite operator object at two places of the pipeline
    n = 12 if thorough else 4
    cases += shared_inner_cases(rng, n, lambda r, inn: G.op_roll(r.randint(1, 3), r.randint(1, 3), inn))
    cases += shared_inner_cases(rng, n, lambda r, inn: G.op_group_by('modc', r.choice([2, 3]), inn))
    cases += shared_inner_cases(rng, n, lambda r, inn: G.op_split('divc', r.choice([2, 3]), inn))
    return cases


def relevant_c03(n):
    return n.startswith('proto-') or n.endswith('-stray-child') or n.endswith('-stray-event') \
        or n == 'root-lifecycle'


def nontrivial_c03(t):
    return len(t['taps']) >= 4 and any(e['t'] == 'd' for e in MC.log_of(t, [0]))


# ======================================================================= C02 state confinement

STATEFUL = lambda: [
    [G.op_scan('add', I(0))], [G.op_scan('add', I(0), reduce=True)],
    [G.op_scan('appendMut', ['l', []], reduce=True)], [{'op': 'count', 'reduce': True}],
    [G.op_agg('max', False)], [G.op_agg('mean', False)],
    [G.op_simple('first')], [G.op_simple('last')], [G.op_simple('take', n=2)],
    [G.op_simple('distinct', f=fn('id'))], [G.op_simple('duc', f=fn('id'))],
    [G.op_simple('lag', n=1)], [G.op_simple('lag', n=2)],
    [G.op_simple('pad_start', n=1, v=NONE)], [G.op_simple('pad_end', n=1, v=NONE)],
    [G.op_simple('pad_start', n=2, v=I(7))], [G.op_simple('pad_end', n=2, v=I(9))],       # (an explicit padding value)
    [G.op_simple('start_with', p=[I(7)])], [G.op_simple('batch', n=2)],
    [G.op_simple('batch', n=2), G.op_simple('to_list')],      # (a consumer that keeps the batches it received)
    [G.op_simple('assert1', p=fn('true'))],
    [G.op_tee('zip', [[G.op_filter('ltc', 2)], [G.op_filter('gec', 2)]])],
    [G.op_tee('combine_latest', [[G.op_filter('even')], []])],
    [G.op_tee('zip', [[G.op_simple('take', n=1)], [], [G.op_filter('gec', 3)]])],
    [G.op_group_by('modc', 2, [G.op_simple('to_list')])],
    [G.op_roll(2, 1, [G.op_agg('sum', True)])],
    [G.op_split('modc', 2, [{'op': 'count', 'reduce': True}])],
    [G.op_simple('to_list')],
]

REUSING = lambda rng: [
    lambda inn: G.op_roll(2, 2, inn), lambda inn: G.op_roll(3, 3, inn),
    lambda inn: G.op_roll(3, 1, inn), lambda inn: G.op_roll(3, 2, inn), lambda inn: G.op_roll(1, 1, inn),
    lambda inn: G.op_roll(2, 3, inn),
    lambda inn: G.op_split('divc', 2, inn), lambda inn: G.op_split('modc', 2, inn),
    lambda inn: G.op_split('noneIf', 1, inn), lambda inn: G.op_group_by('noneIf', 2, inn),
    lambda inn: G.op_group_by('modc', 2, inn),
    # keys -3..1: -1 and -2 have equal hashes; equal values of different types
    lambda inn: G.op_group_by('addc', -3, inn), lambda inn: G.op_group_by('modc', 2, inn, 'altfloat'),
    lambda inn: G.op_split('addc', -3, inn, 'tuple'), lambda inn: G.op_split('divc', 2, inn, 'bigint'),
    lambda inn: G.op_group_by('modc', 2, [G.op_roll(2, 2, inn)]),
    lambda inn: G.op_roll(4, 4, [G.op_group_by('modc', 2, inn)]),
    None,    # top-level key re-creation
]


def cases_c02(rng, thorough):
    cases = []
    for inner in STATEFUL():
        for parent in REUSING(rng):
            for _ in range(6 if thorough else 2):
                if parent is None:
                    idxs = rng.sample([0, 1, 4], 2)
                    lts = []
                    for idx in idxs:
                        for _ in range(rng.choice([2, 3])):
                            lts.append((idx, G.ints([rng.randint(0, 4)
                                                     for _ in range(rng.randint(0, 5))])))
                    cases.append(mux_case(inner, G.schedule(rng, lts)))
                else:
                    lts = rand_lifetimes(rng, rng.choice([1, 2]), 10, vals=range(5), reuse=0.3)
                    cases.append(mux_case([parent(inner)], G.schedule(rng, lts)))
    # a lifetime ended by an error event of the source, then the same key again
    for inner in STATEFUL():
        if inner[0]['op'] in ('tee', 'group_by', 'roll', 'split', 'mean'):
            continue
        for _ in range(4 if thorough else 1):
            a = G.ints([rng.randint(-1, 3) for _ in range(rng.randint(1, 4))])
            b = G.ints([rng.randint(-1, 3) for _ in range(rng.randint(1, 4))])
            streams = [G.failing_key_stream(0, a, b), G.key_stream(2, G.ints([1, 2]))]
            cases.append(mux_case(inner, rng.choice(G.all_interleavings(streams, cap=20, rng=rng))))
    # time_split parents
    for inner in STATEFUL():
        pairs_ok = inner[0]['op'] in ('first', 'last', 'take', 'lag', 'to_list', 'count', 'batch',
                                      'pad_start', 'pad_end', 'distinct', 'duc')
        if not pairs_ok:
            continue
        for _ in range(4 if thorough else 1):
            op = G.op_time_split(2, -1, True, rng.random() < 0.5, inner)
            lts = [(idx, ts_items([(rng.choice([0, 1, 1, 2]), rng.random() < 0.25)
                                   for _ in range(rng.randint(0, 9))])) for idx in (0, 3)]
            cases.append(mux_case([op], G.schedule(rng, lts)))
    cases += sparse_cases(rng, [[G.op_simple('lag', n=2)], [G.op_simple('take', n=2)], [G.op_simple('last')],
                                [G.op_split('divc', 2, [_scan_add()])], [G.op_simple('distinct', f=fn('id'))]],
                          3 if thorough else 1)
    cases += multi_source_cases(rng, 60 if thorough else 15)
    # fixed schedules: a key holds a pending value of one zip branch while another key emits a
    # tuple (in both index orders); every lifetime of two interleaved keys needs its padding;
    # full batches kept by their consumer until the end
    ev = lambda t, k, v=None: {'t': t, 'k': [k]} if v is None else {'t': t, 'k': [k], 'v': I(v)}
    zt = [G.op_tee('zip', [[G.op_map('addc', 10)], [G.op_filter('even')]])]
    for a, b in ((0, 1), (1, 0), (0, 3)):
        cases.append(mux_case(zt, [ev('c', a), ev('c', b), ev('n', a, 1), ev('n', b, 2), ev('n', a, 2), ev('n', b, 3),
                                   ev('n', b, 4), ev('n', a, 4), ev('d', a), ev('d', b)]))
    for op in ([G.op_simple('pad_start', n=2, v=I(7))], [G.op_simple('pad_end', n=2, v=I(9))],
               [G.op_simple('batch', n=2), G.op_simple('to_list')]):
        cases.append(mux_case(op, [ev('c', 0), ev('c', 1), ev('n', 0, 1), ev('n', 1, 2), ev('n', 0, 3), ev('n', 1, 4),
                                   ev('d', 0), ev('c', 0), ev('n', 0, 5), ev('n', 0, 6), ev('d', 1), ev('d', 0)]))
        cases.append(src_case(op, G.ints([1, 2, 3, 4])))
    # every with_memory_store is a store section of its own: the pipeline next to two other
    # with_memory_store pipelines subscribed to the same feed (one before, one after it)
    for inner in STATEFUL():
        if rng.random() < (1.0 if thorough else 0.4) and inner[0]['op'] not in ('mean',):
            xs = [rng.randint(0, 4) for _ in range(rng.randint(1, 8))]
            cases.append(src_case(inner, G.ints(xs), sibling=True))
    return cases


def multi_source_cases(rng, n, mk_pipe=None, items=None):
    """several pipelines on the sources of one with_store(sources=[...]): shared store
    manager and state topology, events of the sources interleaved.  mk_pipe(rng): the
    pipeline of one source (default: a random typed pipeline); items(rng): the items of one
    key lifetime (default: integers)"""
    cases = []
    for _ in range(n):
        k = rng.choice([2, 2, 3])
        pipes = [mk_pipe(rng) if mk_pipe else G.gen_pipe(rng, 'int', rng.choice([1, 2]), rng.choice([0, 1, 1]))[0]
                 for _ in range(k)]
        streams = []
        for si in range(k):
            if items is None:
                lts = rand_lifetimes(rng, rng.choice([1, 2]), 6, reuse=0.3)
            else:
                lts = [(idx, items(rng)) for idx in rng.sample([0, 1, 3], rng.choice([1, 2]))]
            streams.append([(si, e) for e in G.schedule(rng, lts)])
        schedule = []
        pos = [0] * k
        while any(pos[i] < len(streams[i]) for i in range(k)):
            i = rng.choice([j for j in range(k) if pos[j] < len(streams[j])])
            schedule.append(streams[i][pos[i]])
            pos[i] += 1
        for si in range(k):
            cases.append({'pipe': pipes[si], 'mode': 'mux', 'src': [e for (sj, e) in schedule if sj == si],
                          'multi': {'pipes': pipes, 'schedule': schedule, 'index': si}})
    return cases


def relevant_c02(n):
    return n.endswith('-output') and not n.endswith('-demux-output')


def nontrivial_c02(t):
    return slot_reused(t)


# ======================================================================= plain-path extras

def plain_sem_traces(cases):
    """cases: (pipe, items).  Runs the plain (non multiplexed) code path; the oracle is
    PlainSem (spec/PlainTrace.tla with oracle = "plain-sem")."""
    out = []
    for pipe, items in cases:
        r = M.run_plain(pipe, items)
        if r['end'] == 'error' and r.get('errtype') in ('SequenceContainsNoElementsError',
                                                         'ZeroDivisionError'):
            continue      # first/last/mean(reduce) on an empty sequence: RxPY raises by design
        out.append({'pipe': pipe, 'modeled': True, 'oracle': 'plain-sem',
                    'groups': [{'items': items, 'mux': [], 'muxerr': 0,
                                'plain': [o['v'] for o in r['out']], 'plainend': r['end'],
                                'plainerr': 0 if r['end'] != 'error' else max(1, min(r['endstep'], len(items)))}]})
    return out


def judge_plain(V, prop, traces, stats):
    verdicts, st = C.validate_traces('PlainTrace', traces)
    for k in ('states', 'transitions', 'tlc_runs'):
        stats[k] = stats.get(k, 0) + st[k]
    stats['traces'] = stats.get('traces', 0) + len(traces)
    stats['plain_path_traces'] = stats.get('plain_path_traces', 0) + len(traces)
    for tr, v in zip(traces, verdicts):
        if v[0] == 'REJECT':
            V.violation({'family': prop, 'ops': ' '.join(MC.op_names(tr['pipe'])),
                         'pipe': json.dumps(tr['pipe'], sort_keys=True), 'mode': 'plain',
                         'src': tr['groups'][0]['items'], 'plain': tr['groups'][0]['plain'],
                         'plainend': tr['groups'][0]['plainend']}, v[2],
                        detail='plain code path vs PlainSem')


def extra_c13(V, rng, thorough, stats):
    """'as if the item were absent' for the aggregates whose user function (the key mapper) runs
    inside the fold: a failing item must leave no trace in the values that follow."""
    aggs = [lambda f, r: G.op_agg('sum', r), lambda f, r: G.op_agg('mean', r), lambda f, r: G.op_agg('max', r),
            lambda f, r: G.op_agg('min', r)]
    traces, meta = [], []
    for _ in range(80 if thorough else 24):
        code = rng.choice([1, 2, 3])
        red = rng.random() < 0.4
        kind = rng.choice(['sum', 'mean', 'max', 'min', 'variance', 'stddev', 'fvariance'])
        if kind in ('variance', 'stddev', 'fvariance'):
            mk = lambda f: {'op': kind, 'f': f, 'reduce': red}
        else:
            mk = lambda f: {'op': kind, 'f': f, 'reduce': red}
        pipe = [mk(fn('failIf', code)), G.op_simple('ignore')]
        clean = [mk(fn('id'))]
        items = G.ints([rng.choice([0, 1, 2, 3, 4, 5]) for _ in range(rng.randint(2, 9))])
        if kind == 'mean' and red and all(v == I(code) for v in items):
            continue
        tr = MC.absent_pair(pipe, clean, items, lambda v: v == I(code))
        traces.append(tr)
        meta.append((pipe, clean, items, code))
    verdicts, st = C.validate_traces('PlainTrace', traces)
    for k in ('states', 'transitions', 'tlc_runs'):
        stats[k] = stats.get(k, 0) + st[k]
    stats['traces'] = stats.get('traces', 0) + len(traces)
    for tr, v, (pipe, clean, items, code) in zip(traces, verdicts, meta):
        if v[0] == 'REJECT':
            V.violation({'family': 'C13', 'ops': ' '.join(MC.op_names(pipe)), 'pipe': json.dumps(pipe, sort_keys=True),
                         'clean_pipe': json.dumps(clean, sort_keys=True), 'mode': 'absent', 'src': items,
                         'fail_code': code, 'with': tr['groups'][0]['mux'], 'without': tr['groups'][0]['plain']},
                        'failing-item-not-absent', detail='the values after a failing item differ from those of the '
                        'sequence without it')


def framing_timing_verdicts(kind, traces, cfgname):
    """(verdict, in time) per trace of a framing operator: in time = every item came out while
    the chunk that completes it was being processed (the trace specifications of C15 compare
    the emission chunk with the model's; C15 itself does not depend on it)"""
    from harness.checks import c15
    if kind == 'line':
        text = C.cfg(spec='TraceSpec', constants=c15.LINE_CFG)
        module = 'LineFramingTrace'
    else:
        p, order = cfgname[2:].split(',')
        text = C.cfg(spec='TraceSpec', constants=dict(Bytes=set(), P=int(p), Order=order, MaxItems=0,
                                                       MaxLen=0, MaxChunk=0, KeepHist=False, Deviation='none'))
        module = 'LengthPrefixTrace'
    return C.validate_traces(module, traces, cfg_text=text)


def extra_c11(V, rng, thorough, stats):
    """The framing operators are per-item operators of a pipeline as well: a line, a frame is
    emitted while the chunk that completes it is processed, whether or not the chunk ends on
    a frame boundary."""
    from harness.checks import c15

    def sizes_for(lens, total):
        style = rng.choice(['per-frame', 'frames', 'random', 'one'])
        if style == 'per-frame':            # every chunk ends exactly on a frame boundary
            sizes = list(lens)
        elif style == 'frames':             # several whole frames per chunk
            sizes, k = [], 0
            while k < len(lens):
                n = rng.randint(1, 3)
                sizes.append(sum(lens[k:k + n]))
                k += n
        elif style == 'one':
            sizes = [total] if total else []
        else:
            sizes = c15.random_sizes(rng, total, rng.choice([1, 4, 30]))
        rest = total - sum(sizes)
        if rest > 0:
            sizes.append(rest)
        return sizes
    groups = {}
    for _ in range(240 if thorough else 60):
        if rng.random() < 0.5:
            items = [''.join(rng.choice('ab \r\t\u00e9,') for _ in range(rng.choice([0, 1, 3, rng.randint(0, 20)])))
                     for _ in range(rng.randint(0, 6))]
            tail = rng.choice(['', '', '', 'xy'])
            lens = [len(i) + 1 for i in items]
            tr = c15.line_trace(items, tail, sizes_for(lens, sum(lens) + len(tail)), mode='plain')
            groups.setdefault(('line', 'line'), []).append(tr)
        else:
            p, order = rng.choice([1, 2, 4]), rng.choice(['little', 'big'])
            items = [bytes(rng.randint(0, 255) for _ in range(rng.choice([0, 1, 2, rng.randint(0, 40)])))
                     for _ in range(rng.randint(0, 6))]
            lens = [len(i) + p for i in items]
            tr = c15.lp_trace(items, -1, sizes_for(lens, sum(lens)), p, order, mode='plain')
            groups.setdefault(('length_prefix', 'P=%d,%s' % (p, order)), []).append(tr)
    n = late = 0
    for (kind, cfgname), traces in sorted(groups.items()):
        verdicts, st = framing_timing_verdicts(kind, traces, cfgname)
        for k in ('states', 'transitions', 'tlc_runs'):
            stats[k] = stats.get(k, 0) + st[k]
        for tr, v in zip(traces, verdicts):
            n += 1
            if v[0] == 'ACCEPT' and v[2] is True:
                continue
            if v[0] == 'REJECT' and (v[2].startswith('model-') or v[2] in ('frame',)):
                continue            # what is delivered is C15's subject, not promptness
            late += 1
            V.violation({'family': 'C11', 'mode': 'framing', 'op': kind, 'config': cfgname, 'items': tr['items'],
                         'chunks': [len(c) for c in tr['chunks']], 'trace': tr},
                        'framing-emission-time',
                        detail='items per chunk: %s, at completion: %s' % (
                            [len(o) for o in tr['outs']], len(tr['final'])))
    stats['traces'] = stats.get('traces', 0) + n
    stats['framing_timing_traces'] = n


def extra_c10(V, rng, thorough, stats):
    cases = []
    keys = [('id', 0), ('modc', 2), ('modc', 3), ('mulc', -1)]
    for (f, c) in keys:
        for rev in (False, True):
            op = {'op': 'sort', 'f': fn(f, c), 'reverse': rev}
            for xs in seqs(range(-1, 3), 4 if thorough else 3):
                cases.append(([op], G.ints(xs)))
            for _ in range(40 if thorough else 10):
                cases.append(([op], G.ints([rng.randint(-5, 9) for _ in range(rng.randint(0, 25))])))
    # sort by the first component of pairs: ties between distinguishable items
    for rev in (False, True):
        op = {'op': 'sort', 'f': fn('fst'), 'reverse': rev}
        for _ in range(60 if thorough else 20):
            items = [['t', [I(rng.randint(0, 3)), I(j)]] for j in range(rng.randint(0, 12))]
            cases.append(([op], items))
    # the dual-mode sequence operators on the plain path
    for op in [G.op_simple('first'), G.op_simple('last'), G.op_simple('take', n=0),
               G.op_simple('take', n=2), G.op_simple('duc', f=fn('id')), G.op_simple('batch', n=1),
               G.op_simple('batch', n=2), G.op_simple('batch', n=3)]:
        vals = [I(0), I(1), I(2), NONE]
        for xs in seqs(vals, 4 if thorough else 3):
            if op['op'] in ('first', 'last') and not xs:
                continue            # RxPY raises on an empty sequence by design
            cases.append(([op], list(xs)))
    traces = plain_sem_traces(cases)
    # one piped observable subscribed again after a first subscriber raised while the items
    # were being delivered to it (an aborted first pass must leave nothing behind)
    for (pipe, items) in rng.sample(cases, min(len(cases), 120 if thorough else 40)):
        if not items:
            continue
        r = M.run_plain_after_abort(pipe, items, rng.randint(1, max(1, len(items))))
        if r['end'] == 'error' and r.get('errtype') in ('SequenceContainsNoElementsError', 'ZeroDivisionError'):
            continue
        traces.append({'pipe': pipe, 'modeled': True, 'oracle': 'plain-sem',
                       'groups': [{'items': items, 'mux': [], 'muxerr': 0, 'plain': [o['v'] for o in r['out']],
                                   'plainend': r['end'], 'plainerr': 0 if r['end'] != 'error' else len(items)}]})
    judge_plain(V, 'C10', traces, stats)


def extra_c09(V, rng, thorough, stats):
    """plain code path: the same operator objects subscribed by several sources at once
    (and one subscription disposed mid-stream): every subscription folds from its own seed"""
    traces = []
    ops = [o for o in scan_ops() if o['op'] not in ('dist', 'to_array')
           and not (o['op'] == 'scan' and o['f']['n'] == 'failAdd')]    # a raising accumulator ends a plain stream
    for op in ops:
        minlen = 1 if (op['op'] == 'mean' and op.get('reduce')) else 0
        for _ in range(6 if thorough else 2):
            n = rng.choice([2, 2, 3])
            streams = [G.ints([rng.randint(-2, 3) for _ in range(rng.randint(max(minlen, 1), 6))])
                       for _ in range(n)]
            schedule = [i for i in range(n) for _ in streams[i]]
            rng.shuffle(schedule)
            disp = rng.choice([None, None, 1, 2])
            res = M.run_plain_shared([op], streams, schedule, dispose_first_after=disp)
            groups = []
            for i, r in enumerate(res):
                if r['disposed']:
                    continue
                groups.append({'items': streams[i], 'mux': [], 'muxerr': 0,
                               'plain': [o['v'] for o in r['out']], 'plainend': r['end'],
                               'plainerr': 0 if r['end'] != 'error' else max(1, r['endstep'])})
            traces.append({'pipe': [op], 'modeled': True, 'oracle': 'plain-sem', 'groups': groups})
        # one piped observable, a second subscriber arriving mid-stream
        for _ in range(6 if thorough else 2):
            items = G.ints([rng.randint(-2, 3) for _ in range(rng.randint(max(minlen, 2), 7))])
            k = rng.randint(1, len(items) - (1 if minlen else 0))
            da = rng.choice([None, None, rng.randint(0, len(items))])
            res = M.run_plain_late_subscriber([op], items, k, dispose_first_at=da)
            groups = []
            for i, (r, its) in enumerate(zip(res, (items, items[k:]))):
                if r['disposed']:
                    continue
                groups.append({'items': its, 'mux': [], 'muxerr': 0,
                               'plain': [o['v'] for o in r['out']], 'plainend': r['end'],
                               'plainerr': 0 if r['end'] != 'error' else max(1, r['endstep'])})
            traces.append({'pipe': [op], 'modeled': True, 'oracle': 'plain-sem', 'groups': groups})
    judge_plain(V, 'C09', traces, stats)


def extra_c08(V, rng, thorough, stats):
    names = [n for n in sorted(BRANCHES) if n not in ('roll',)]
    cases = []
    for join in ('merge', 'zip', 'combine_latest'):
        for a, b in itertools.product(names, repeat=2):
            if not thorough and rng.random() < 0.5:
                continue
            t = G.op_tee(join, [BRANCHES[a](), BRANCHES[b]()])
            cases.append(([t], G.ints([rng.randint(-1, 4) for _ in range(rng.randint(0, 7))])))
    for _ in range(300 if thorough else 60):
        nb = rng.choice([2, 3, 4])
        brs = [BRANCHES[rng.choice(names)]() for _ in range(nb)]
        if rng.random() < 0.25:
            brs[rng.randrange(nb)] = [G.op_tee(rng.choice(['merge', 'zip', 'combine_latest']),
                                               [BRANCHES[rng.choice(names)](), BRANCHES[rng.choice(names)]()])]
        t = G.op_tee(rng.choice(['merge', 'zip', 'combine_latest']), brs)
        cases.append(([t], G.ints([rng.randint(-1, 4) for _ in range(rng.randint(0, 8))])))
    # the joins do not look at the items: falsy, None and array-like items (no truth value for ==)
    agnostic = [[], [G.op_simple('last')], [G.op_simple('take', n=2)], [{'op': 'count', 'reduce': False}],
                [G.op_simple('to_list')], [G.op_simple('first')]]
    for _ in range(120 if thorough else 30):
        t = G.op_tee(rng.choice(['merge', 'zip', 'combine_latest']), [rng.choice(agnostic) for _ in range(rng.choice([2, 3]))])
        cases.append(([t], [rng.choice(OPAQUE) for _ in range(rng.randint(1, 6))]))
    judge_plain(V, 'C08', plain_sem_traces(cases), stats)
    extra_c08_plain(V, rng, thorough, stats)


# ======================================================================= implementation model

def model_phase(V, prop, pipes, thorough, kind='int', deviations=(), stats=None):
    """TLC on spec/MuxSystem.tla for the given pipelines:
      * exhaustive: every interleaving / key re-use history within the bounds, invariants
        ContractsHold (layer-A contracts) and DeathJustified;
      * for each named deviation (a defect repaired in rxsci, re-introduced in the model)
        the same run must be VIOLATED, otherwise the invariant is vacuous for it;
      * simulation beyond the exhaustive bounds with behaviour output; the behaviours are
        replayed on the real code and compared log for log with the model.
    Returns (summaries, replay cases, model logs by case)."""
    out = []
    with C.scratch('rxsci-verif.pipes.') as d:
        pf = os.path.join(d, 'pipes.json')
        with open(pf, 'w') as f:
            json.dump(pipes, f)
        base = dict(KeyIdx={0, 1}, ValSet={0, 1, 2} if kind == 'int' else {0, 1, 2},
                    ItemKind=kind, MaxEvents=7 if thorough else 6, MaxLives=2, Emit_=False,
                    Deviations=C.Raw('{}'))
        if kind == 'int':
            base['ValSet'] = {0, 1, 2} if thorough else {0, 1}
        else:
            base['ValSet'] = {0, 1, 2} if thorough else {0, 2}
            base['MaxEvents'] = 6 if thorough else 5

        def exhaustive():
            return C.run_tlc('MuxSystem', C.cfg(constants=base, invariants=['ContractsHold', 'DeathJustified']),
                             workers=8, env={'PIPES_FILE': pf}, timeout=3000)

        def deviation(dev):
            c = dict(base)
            c['Deviations'] = {dev}
            return C.run_tlc('MuxSystem', C.cfg(constants=c, invariants=['ContractsHold']),
                             workers=4, env={'PIPES_FILE': pf}, timeout=3000)

        def simulate():
            c = dict(base, KeyIdx={0, 1, 2}, ValSet={0, 1, 2, 3}, MaxEvents=12, MaxLives=3, Emit_=True)
            return C.run_tlc('MuxSystem', C.cfg(constants=c, invariants=['ContractsHold', 'EmitBehaviour']),
                             workers=1, env={'PIPES_FILE': pf}, simulate='num=%d' % (600 if thorough else 120),
                             depth=14, tlc_seed=C.seed() + 5, timeout=600)
        res = C.par([exhaustive] + [lambda dv=dv: deviation(dv) for dv in deviations] + [simulate])
    r = res[0]
    if r.violated:
        raise C.MachineryError('implementation model violates %s (the model and the contracts '
                               'disagree: one of them misrepresents the code):\n%s'
                               % (r.violated, r.error_trace))
    out.append({'module': 'MuxSystem', 'pipelines': len(pipes), 'constants': {k: str(v) for k, v in base.items()},
                **r.summary()})
    for dv, rd in zip(deviations, res[1:1 + len(deviations)]):
        if rd.violated != 'ContractsHold':
            raise C.MachineryError('deviation %r of the implementation model is not rejected by the '
                                   'contracts: the invariant is vacuous for it' % dv)
        out.append({'module': 'MuxSystem', 'deviation': dv, 'expected_violation_found': True, **rd.summary()})
    sim = res[-1]
    if sim.violated:
        raise C.MachineryError('implementation model violates %s in simulation:\n%s'
                               % (sim.violated, sim.error_trace))
    cases, model_logs = [], []
    seen = set()
    for b in C.extract_printed(sim.stdout, 'BEH'):
        _, pid, src, dead, logs = b
        key = json.dumps([pid, src])
        if key in seen:
            continue
        seen.add(key)
        evs = []
        for (t, k, v) in src:
            e = {'t': t, 'k': k}
            if t == 'n':
                e['v'] = v
            evs.append(e)
        livek = set()
        for e in evs:
            if e['t'] == 'c':
                livek.add(e['k'][0])
            elif e['t'] == 'd':
                livek.discard(e['k'][0])
        if not dead and livek:
            evs.append({'t': 'open', 'k': [0]})    # the behaviour stops with live keys
        cases.append(mux_case(pipes[pid - 1], evs, timescale=None))
        model_logs.append({json.dumps(p): l for (p, l) in logs})
    out.append({'module': 'MuxSystem', 'mode': 'simulation', 'behaviours': len(cases)})
    return out, cases, model_logs


def compare_with_model(traces, model_logs):
    """log-for-log comparison of the real execution with the model behaviour it replays"""
    diff = 0
    for tr, ml in zip(traces, model_logs):
        for t in tr['taps']:
            real = [[e['t'], e['k'], e['v']] for e in t['evs']]
            mod = ml.get(json.dumps(t['p']))
            if mod is None or [list(x) for x in mod] != real:
                diff += 1
                break
    return diff


# ======================================================================= Apalache (C05)

def apalache_roll(V, thorough):
    """Unbounded complement for C05: the inductive invariant of spec/RollRing.tla (the ring
    holds exactly the windows Windows(W, S) has open, for every stream length) is
    discharged by Apalache for fixed geometries: Init => IndInv (length 0) and
    IndInv /\\ Next => IndInv' (length 1); a broken density must be refuted."""
    import shutil
    import subprocess
    geos = [(w, s) for w in range(1, 7) for s in range(1, 7) if w != s] if thorough \
        else [(3, 2), (5, 2), (2, 3)]
    res = {'obligations': 0, 'discharged': 0, 'geometries': len(geos), 'failed': []}
    if shutil.which('apalache-mc') is None:
        V.note('apalache-mc not available: the inductive invariant of RollRing was not checked')
        return res
    with C.scratch('rxsci-verif.apa.') as d:
        shutil.copy(os.path.join(C.SPEC_DIR, 'RollRing.tla'), d)
        bad = open(os.path.join(d, 'RollRing.tla')).read()
        bad = bad.replace('MODULE RollRing ', 'MODULE RollRingBad ').replace(
            'Density == (W \\div S) + (IF W % S = 0 THEN 0 ELSE 1)',
            'Density == IF W \\div S = 0 THEN 1 ELSE W \\div S')
        open(os.path.join(d, 'RollRingBad.tla'), 'w').write(bad)

        def mc_module(name, base, w, s):
            open(os.path.join(d, name + '.tla'), 'w').write(
                '---- MODULE %s ----\nEXTENDS Integers\nVARIABLES\n    \\* @type: Int;\n    n,\n'
                '    \\* @type: Int -> Int;\n    w\nINSTANCE %s WITH W <- %d, S <- %d\n====\n'
                % (name, base, w, s))

        def run(name, init, length):
            p = subprocess.run(['apalache-mc', 'check', '--init=' + init, '--inv=Safety',
                                '--length=%d' % length, '--out-dir=' + os.path.join(d, 'out'),
                                name + '.tla'], cwd=d, stdout=subprocess.PIPE,
                               stderr=subprocess.STDOUT, text=True, timeout=600)
            return 'The outcome is: NoError' in p.stdout, 'The outcome is: Error' in p.stdout

        jobs = []
        for (w, s) in geos:
            name = 'MC_%d_%d' % (w, s)
            mc_module(name, 'RollRing', w, s)
            jobs.append((name, 'Init', 0, (w, s)))
            jobs.append((name, 'IndInit', 1, (w, s)))
        mc_module('MC_bad', 'RollRingBad', 3, 2)
        outs = C.par([lambda j=j: run(j[0], j[1], j[2]) for j in jobs]
                     + [lambda: run('MC_bad', 'IndInit', 1)], max_workers=6)
    for j, (ok, err) in zip(jobs, outs[:-1]):
        res['obligations'] += 1
        if ok:
            res['discharged'] += 1
        else:
            res['failed'].append({'geometry': j[3], 'obligation': j[1]})
    if not outs[-1][1]:
        raise C.MachineryError('Apalache did not refute the inductive invariant for a ring without '
                               'the ceiling in density: the proof obligation is vacuous')
    res['broken_density_refuted'] = True
    if res['failed']:
        raise C.MachineryError('RollRing: inductive invariant not discharged for %s (the integer model '
                               'and its invariant disagree; nothing is claimed about the code from this)'
                               % res['failed'])
    return res


# ======================================================================= registry

def _scan_add(reduce=False):
    return G.op_scan('add', I(0), reduce=reduce)


MODEL = {
    'C02': dict(pipes=lambda: [
        [G.op_roll(2, 2, [_scan_add()])], [G.op_roll(3, 1, [{'op': 'count', 'reduce': True}])],
        [G.op_split('modc', 2, [G.op_simple('batch', n=2)])], [G.op_split('modc', 2, [G.op_simple('first')])],
        [G.op_roll(2, 2, [G.op_tee('zip', [[G.op_filter('ltc', 1)], [G.op_filter('gec', 1)]])])],
        [G.op_simple('lag', n=2)], [G.op_simple('distinct', f=fn('id'))],
        [G.op_roll(2, 2, [G.op_group_by('modc', 2, [G.op_simple('to_list')])])],
    ], deviations=['scan-no-reset', 'tee-reset-last-only']),
    'C03': dict(pipes=lambda: [
        [G.op_roll(2, 1, [G.op_split('modc', 2, [])])], [G.op_group_by('modc', 2, [G.op_roll(2, 2, [])])],
        [G.op_tee('merge', [[G.op_roll(2, 2, [])], []])], [G.op_split('modc', 2, [G.op_group_by('modc', 2, [])])],
        [G.op_roll(1, 2, [G.op_filter('false')])], [G.op_roll(3, 2, [])],
    ], deviations=['tee-create-every-branch', 'group-index-per-parent']),
    'C04': dict(pipes=lambda: [
        [G.op_group_by('modc', 2, [])], [G.op_group_by('id', 0, [G.op_simple('to_list')])],
        [G.op_roll(2, 2, [G.op_group_by('modc', 2, [])])],
        [G.op_group_by('modc', 2, [G.op_group_by('id', 0, [{'op': 'count', 'reduce': True}])])],
    ], deviations=['group-index-per-parent']),
    'C05': dict(pipes=lambda: [[G.op_roll(w, s, [])] for (w, s) in
                               [(1, 1), (2, 1), (3, 1), (3, 2), (2, 3), (2, 2), (3, 3), (1, 3)]]
                + [[G.op_roll(2, 1, [G.op_roll(2, 2, [])])]],
                deviations=['roll-close-ring-order']),
    'C06': dict(pipes=lambda: [
        [G.op_split('modc', 2, [])], [G.op_split('divc', 2, [G.op_simple('to_list')])],
        [G.op_roll(2, 2, [G.op_split('modc', 2, [])])], [G.op_split('modc', 2, [G.op_split('divc', 2, [])])],
    ], deviations=['split-no-store']),
    'C07': dict(kind='ts', pipes=lambda: [
        [G.op_time_split(2, -1, False, True, [])], [G.op_time_split(-1, 1, False, True, [])],
        [G.op_time_split(2, 1, True, True, [])], [G.op_time_split(3, 2, True, False, [])],
        [G.op_time_split(0, -1, False, True, [])], [G.op_time_split(-1, 0, True, True, [])],   # zero timeouts
    ], deviations=['time-split-inactive-gt']),
    'C08': dict(pipes=lambda: [
        [G.op_tee(j, [[G.op_filter('ltc', 1)], [G.op_filter('gec', 1)]])] for j in ('zip', 'combine_latest', 'merge')]
        + [[G.op_tee('zip', [[_scan_add()], [{'op': 'count', 'reduce': True}], []])],
           [G.op_roll(2, 2, [G.op_tee('zip', [[G.op_filter('ltc', 1)], [G.op_filter('gec', 1)]])])],
           [G.op_split('modc', 2, [G.op_tee('combine_latest', [[G.op_simple('take', n=1)], []])])],
           [G.op_tee('merge', [[G.op_tee('zip', [[], [_scan_add()]])], [G.op_simple('last')]])]],
        deviations=['tee-reset-last-only', 'tee-create-every-branch']),
    'C09': dict(pipes=lambda: [
        [_scan_add()], [_scan_add(True)], [G.op_scan('add', I(1), term='addc', tc=10)],
        [G.op_scan('appendMut', ['l', []], reduce=True)], [{'op': 'count', 'reduce': False}],
        [G.op_agg('mean', False)], [G.op_agg('max', True)], [G.op_simple('batch', n=2)],
        [G.op_simple('duc', f=fn('id'))], [G.op_simple('to_list')],
    ], deviations=['scan-no-reset']),
    'C10': dict(pipes=lambda: [
        [G.op_simple('first')], [G.op_simple('last')], [G.op_simple('take', n=2)],
        [G.op_simple('distinct', f=fn('id'))], [G.op_simple('lag', n=1)], [G.op_simple('lag', n=2)],
        [G.op_simple('lag', n=0)],
        [G.op_simple('pad_start', n=1, v=NONE)], [G.op_simple('pad_end', n=2, v=I(9))],
        [G.op_simple('start_with', p=[I(7)])], [G.op_simple('batch', n=1)], [G.op_simple('batch', n=3)],
    ], deviations=['take-off-by-one', 'first-no-flag', 'lag-off-by-one', 'batch-late']),
    'C11': dict(pipes=lambda: [
        [G.op_simple('batch', n=1)], [_scan_add()], [G.op_roll(3, 1, [G.op_agg('sum', True)])],
        [G.op_split('modc', 2, [G.op_simple('to_list')])],
        [G.op_tee('zip', [[_scan_add()], [{'op': 'count', 'reduce': False}]])],
        [G.op_simple('take', n=1), G.op_simple('to_list')],
    ], deviations=['batch-late']),
    'C13': dict(pipes=lambda: [
        [G.op_map('failIf', 1), G.op_simple('ignore'), _scan_add()],
        [G.op_map('failIf', 1), {'op': 'errmap', 'f': fn('errconst', 7)}, G.op_simple('lag', n=1)],
        [G.op_filter('failIfP', 1), {'op': 'errmap', 'f': fn('errcode')}],
        [G.op_scan('failAdd', I(0), c=0), G.op_simple('ignore'), G.op_simple('to_list')],
        [G.op_group_by('modc', 2, [G.op_map('failIf', 1)])],
        [G.op_map('dup'), {'op': 'starmap', 'f': fn('failAdd2', 2)}, G.op_simple('ignore')],
        [G.op_tee('merge', [[G.op_map('failIf', 1)], [G.op_map('addc', 10)]]), G.op_simple('ignore')],
        [G.op_tee('zip', [[], [G.op_filter('failIfP', 1)]])],
    ], deviations=['scan-error-loses-state', 'tee-errors-last-branch-only']),
}

PROPS = {
    'C02': dict(cases=cases_c02, relevant=relevant_c02, nontrivial=nontrivial_c02, lsc=['int'],
                rule='a key slot is reused by a second lifetime at some boundary (window ring '
                     'wrapped, next split segment, re-created key) with a stateful operator '
                     'downstream'),
    'C03': dict(cases=cases_c03, relevant=relevant_c03, nontrivial=nontrivial_c03, lsc=['part'],
                rule='>= 4 observed boundaries and at least one completed top-level key'),
    'C04': dict(cases=cases_c04, relevant=relevant_c04, nontrivial=nontrivial_c04, lsc=['part'],
                rule='>= 2 groups whose items are interleaved in the source'),
    'C05': dict(cases=cases_c05, relevant=relevant_c05, nontrivial=nontrivial_c05, lsc=['part'],
                rule='at least one window closed by its w-th item and one by key completion'),
    'C06': dict(cases=cases_c06, relevant=relevant_c06, nontrivial=nontrivial_c06, lsc=['part'],
                rule='at least one segment closed by a predicate change and one by key completion'),
    'C07': dict(cases=cases_c07, relevant=relevant_c07, nontrivial=nontrivial_c07, lsc=['ts'],
                rule='at least one window closed by a timeout or a closing item'),
    'C08': dict(cases=cases_c08, relevant=relevant_c08, nontrivial=nontrivial_c08, lsc=[], extra=extra_c08,
                rule='branches emitting different numbers of items'),
    'C09': dict(cases=cases_c09, relevant=relevant_c09, nontrivial=nontrivial_c09, lsc=['int'], extra=extra_c09,
                rule='two keys with items alive in one run, or a re-used key slot'),
    'C10': dict(cases=cases_c10, relevant=relevant_c10, nontrivial=nontrivial_c10, lsc=['seq', 'int'], extra=extra_c10,
                rule='a key with at least two items'),
    'C11': dict(cases=cases_c11, relevant=relevant_c11, nontrivial=nontrivial_c11, lsc=['seq', 'int'], extra=extra_c11,
                rule='some output of the pipeline is emitted in the step of a source item '
                     '(not only at completion)'),
    'C13': dict(cases=cases_c13, relevant=relevant_c13, nontrivial=nontrivial_c13, lsc=['int'], extra=extra_c13,
                rule='at least one item-level error event occurred'),
}

LSC_MAXLEN = {'seq': (5, 6), 'int': (5, 6), 'part': (5, 6), 'ts': (3, 4)}


def run_lsc(families, thorough):
    """TLC: the layer-A definitions satisfy the independent property statements"""
    jobs = []
    for fam in families:
        const = {'Family': fam, 'MaxLen': LSC_MAXLEN[fam][1 if thorough else 0]}
        jobs.append((fam, const))

    def one(job):
        fam, const = job
        r = C.run_tlc('ListSemCheck', C.cfg(constants=const,
                                            invariants=['Statement', 'ScanReduceAgrees',
                                                        'PartitionStatement'],
                                            properties=['Monotone']), workers=4)
        if r.violated:
            raise C.MachineryError('ListSemCheck(%s) violates %s:\n%s'
                                   % (fam, r.violated, r.error_trace))
        return fam, const, r
    return C.par([lambda j=j: one(j) for j in jobs])


UNIVERSAL = ('unexpected-stream-error', 'fatal-error-not-raised', 'fatal-error-wrong',
             'untapped-differs')


def main(prop):
    def _main(tier, replay):
        P = dict(PROPS[prop])
        rel0 = P['relevant']
        # a stream that dies (or survives) unexpectedly loses outputs of whatever
        # operator family is being exercised: relevant to every property
        P['relevant'] = lambda n: rel0(n) or n in UNIVERSAL
        if replay:
            return MC.replay(prop, replay, P['relevant'])
        C.use_repo()
        V = C.Verdict(prop, tier)
        thorough = tier == 'thorough'
        rng = random.Random(C.seed() * 1000003 + int(prop[1:]))
        lsc = run_lsc(P['lsc'], thorough)
        V.phase('model checking (list semantics)')
        extra_mc, replay_cases, model_logs = [], [], []
        if prop in MODEL:
            Mo = MODEL[prop]
            mpipes = Mo['pipes']()
            if thorough and Mo.get('kind', 'int') == 'int':
                # random well-typed compositions, exhaustively over all interleavings too
                mrng = random.Random(C.seed() * 7 + int(prop[1:]))
                while len(mpipes) < len(Mo['pipes']()) + 24:
                    cand = G.gen_pipe(mrng, 'int', mrng.choice([1, 2, 2]), mrng.choice([0, 1, 2]))[0]
                    if 'dist' not in json.dumps(cand):
                        mpipes.append(cand)
            extra_mc, replay_cases, model_logs = model_phase(V, prop, mpipes, thorough,
                                                             kind=Mo.get('kind', 'int'),
                                                             deviations=Mo['deviations'])
            V.phase('model checking (implementation model)')
        if prop == 'C08':
            # "identically on plain observables": the two readings of PlainSem agree on tees
            rp = C.run_tlc('PlainCheck', C.cfg(constants=dict(MaxLen=3, Depth=1, BranchLen=2 if thorough else 1),
                                               invariants=['MuxEqualsPlain', 'FlatAgrees']), workers=4)
            if rp.violated:
                raise C.MachineryError('PlainCheck violates %s:\n%s' % (rp.violated, rp.error_trace))
            extra_mc.append({'module': 'PlainCheck', **rp.summary()})
            V.phase('model checking (tee_map, plain and multiplexed readings)')
        apa = None
        if prop == 'C05':
            apa = apalache_roll(V, thorough)
            V.phase('Apalache: inductive invariant of the roll ring')
        cases = replay_cases + P['cases'](rng, thorough)
        for c in cases[len(replay_cases):]:
            # a quarter of the cases build one python operator object per distinct descriptor
            # and use it at every position where that descriptor occurs
            if c.get('mode') == 'mux' and 'multi' not in c and 'share_ops' not in c and rng.random() < 0.25:
                c['share_ops'] = True
            # a fifth of the plain-source cases run next to two other with_memory_store pipelines
            # on the same feed
            if c.get('mode') == 'src' and c.get('source', 'subject') == 'subject' and c.get('root', 'store') == 'store' \
                    and 'sibling' not in c and rng.random() < 0.2:
                c['sibling'] = True
            # and some are preceded by a warm-up subscription of the same piped observable that
            # is disposed with keys still open (what it received is a prefix of the events)
            if c.get('mode') == 'mux' and 'multi' not in c and len(c['src']) > 2 and rng.random() < 0.2 \
                    and not c.get('stateful_fn'):     # (a user function with a memory would remember the warm-up)
                evs = [e for e in c['src'] if e.get('t') in ('c', 'n', 'd', 'e')]
                c['warmup'] = evs[:rng.randint(1, len(evs))]
                # ... or, half of the time, by an earlier application of the same operator
                # objects to another source (with its own store), which has completed
                c['reapply'] = rng.random() < 0.5
                # ... or (a third of the others) the first subscription runs to its completion
                # (not for pipelines with a tee_map: it is built on RxPY's publish(), whose Subject
                # is created when the operator is applied and ends with the first completion)
                c['warmup_completes'] = not c['reapply'] and rng.random() < 0.35 and not contains_op(c['pipe'], 'tee')
        stats = {}
        traces = MC.judge(V, cases, P['relevant'], stats, family=prop,
                          isolation=MC.tee_branches_alone if prop == 'C08' else None)
        out_of_sync = compare_with_model(traces[:len(replay_cases)], model_logs)
        if out_of_sync:
            V.note('impl_model_in_sync=false: %d of %d replayed model behaviours differ log for log from '
                   'the real execution (the contracts still judge the real execution)'
                   % (out_of_sync, len(replay_cases)))
        if stats.get('model_out_of_sync'):
            out_of_sync += stats['model_out_of_sync']
            V.note('impl_model_in_sync=false: for %d accepted executions the implementation model '
                   '(MuxModel, run by TLC on the recorded source events) does not reproduce the '
                   'recorded logs, e.g. %s' % (stats['model_out_of_sync'],
                                               json.dumps(stats['model_out_of_sync_samples'][:1])))
        V.phase('real executions + trace validation')
        if 'extra' in P:
            P['extra'](V, rng, thorough, stats)
            V.phase('plain code path vs PlainSem')
        nt = MC.nontrivial_count(traces, P['nontrivial'])
        if stats.get('other_property_clauses'):
            V.note('clauses of other properties seen in this run (not violations of %s): %s'
                   % (prop, json.dumps(stats['other_property_clauses'], sort_keys=True)))
        picks = [t for t in traces if P['nontrivial'](t)][:2] or traces[:1]
        coverage = {
            'states': sum(r.distinct for (_, _, r) in lsc) + stats['states']
            + sum(m.get('states', 0) for m in extra_mc),
            'transitions': sum(r.generated for (_, _, r) in lsc) + stats['transitions']
            + sum(m.get('transitions', 0) for m in extra_mc),
            'traces_validated_against_impl': stats['traces'],
            'samples': [MC.sample(t) for t in picks],
            'exhaustive': False,
            'distinct_nontrivial': nt,
            'rule': P['rule'],
            'model_checking_runs': [{'module': 'ListSemCheck', 'family': f, 'constants': c,
                                     **r.summary()} for (f, c, r) in lsc] + extra_mc,
            'trace_validation': {k: stats.get(k, 0) for k in ('states', 'transitions', 'tlc_runs',
                                                              'traces', 'rejected', 'untapped_runs',
                                                              'plain_path_traces', 'model_in_sync',
                                                              'model_out_of_sync',
                                                              'model_not_applicable')},
            'distinct_pipelines': len({json.dumps(t['pipe'], sort_keys=True) for t in traces}),
            'tlc_behaviours_replayed': len(replay_cases),
            **({'apalache_inductive_invariant': apa} if apa else {}),
            'impl_model_in_sync': out_of_sync == 0,
            'source_events': sum(len(MC.log_of(t, [0])) for t in traces),
        }
        return V.finish('model_checking', coverage, assumptions=[
            'rxsci is synchronous and single threaded: everything a source event causes is '
            'emitted before the next source event is pushed (taps order events by a global '
            'ordinal)',
            'user functions come from the finite library spec/FnLib.tla = harness/mux.py '
            '(cross-checked by bin/setup)',
            'TLC, the Json community module and rx Subjects are trusted'])
    return _main
