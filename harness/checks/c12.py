"""C12  Math aggregates are accurate and numerically stable.

 1. TLC model-checks MathAgg.tla (exact rationals): the Welford recurrence of
    variance.py, the folds of sum/mean/min/max and the two-pass moments of formal.* are
    compared, after every item of every integer sequence over -VMax..VMax up to MaxLen
    and at completion, with Sum/Mean/SampleVar/PopVar/Min/Max of the multiset of items.
    The code as it is (FormalClears = TRUE: formal._variance clears the list scan keeps)
    is model-checked next to the repaired behaviour (FALSE); TLC collects the sequences
    on which the faithful model misses the specification.
 2. TLC generates item sequences (exhaustive at small bounds, simulation at the full
    bounds); each is replayed into the real operators: plain / multiplexed (two
    interleaved keys) / with_memory_store on a plain source, reduce=False / True,
    with a key_mapper, once with Fraction items (results must be exactly the
    specification's rationals) and once with floats.
 3. The harness adds executions beyond the model bounds (larger integers, halves).
 4. Every recorded subscription is validated by TLC against MathAggTrace.tla.
 5. AUXILIARY NUMERIC PROBE (python, sampling, *not* model checking): random float/int
    sequences up to 10^4 items (offsets up to 1e6, tiny/huge scales, constants,
    negatives); oracle = the MathAgg definitions evaluated exactly on the same floats;
    tolerance 8*n*eps*kappa for the variances (kappa = sqrt(1 + mean^2/var)),
    n*eps*sum|x| for sum/mean, exact for min/max.
"""
import math
import os
import random
import sys
from fractions import Fraction

sys.path.insert(0, os.path.dirname(os.path.dirname(os.path.dirname(os.path.abspath(__file__)))))
from harness import common as C  # noqa: E402

PROP = 'C12'
OPS = ['sum', 'mean', 'min', 'max', 'variance', 'stddev', 'formal.variance', 'formal.stddev']
NONFORMAL = OPS[:6]
FORMAL = OPS[6:]
SQRT_OPS = ('stddev', 'formal.stddev')
EPS = sys.float_info.epsilon
BADTOK = [0, 0, 9]
DENMAX = 4096


def factory(op):
    import rxsci as rs
    return {'sum': rs.math.sum, 'mean': rs.math.mean, 'min': rs.math.min, 'max': rs.math.max,
            'variance': rs.math.variance, 'stddev': rs.math.stddev,
            'formal.variance': rs.math.formal.variance,
            'formal.stddev': rs.math.formal.stddev}[op]


# ---------------------------------------------------------------- real code drivers

class Sub:
    """one subscription: collects what is emitted while each item is delivered"""

    def __init__(self):
        self.cur = []
        self.ended = 'open'

    def on_error(self, e):
        self.ended = 'error:%s' % type(e).__name__

    def on_completed(self):
        if self.ended == 'open':
            self.ended = 'completed'


_RESUB = [0]


def drive(mode, make_op, items, decoy=None):
    """Push `items` one at a time through a fresh operator.
    make_op(calls) -> operator, `calls` is a one-element list counting key_mapper calls.
    Returns (outs per item, final, ended, key_mapper calls per item)."""
    import rxsci as rs
    from rx.subject import Subject
    calls = [0]
    op = make_op(calls)
    subj = Subject()
    sub = Sub()
    if mode == 'plain':
        piped = subj.pipe(op)
        _RESUB[0] += 1
        if _RESUB[0] % 3 == 0 and len(items) > 0:
            # the same piped observable served an earlier subscription (disposed before
            # the end): the subscription under test must start from a fresh accumulator
            warm = piped.subscribe(on_next=lambda x: None, on_error=lambda e: None)
            try:
                for x in items[:2]:
                    subj.on_next(x)
            except Exception:
                pass
            warm.dispose()
            calls[0] = 0
        piped.subscribe(on_next=sub.cur.append, on_error=sub.on_error,
                        on_completed=sub.on_completed)
        send = subj.on_next
    elif mode == 'store':
        subj.pipe(rs.state.with_memory_store([op])).subscribe(
            on_next=sub.cur.append, on_error=sub.on_error, on_completed=sub.on_completed)
        send = subj.on_next
    elif mode == 'mux':
        def on_next(i):
            if i.key == (1,):
                if type(i) is rs.OnNextMux:
                    sub.cur.append(i.item)
                elif type(i) is rs.OnErrorMux:
                    sub.ended = 'error:mux:%s' % type(i.error).__name__
        subj.pipe(rs.cast_as_mux_observable(), rs.state.with_memory_store(op)).subscribe(
            on_next=on_next, on_error=sub.on_error, on_completed=sub.on_completed)
        subj.on_next(rs.OnCreateMux((1,)))
        subj.on_next(rs.OnCreateMux((2,)))

        def send(x):
            subj.on_next(rs.OnNextMux((1,), x))
    else:
        raise C.MachineryError('mode %r' % mode)
    outs, km = [], []
    failed = False
    for n, x in enumerate(items):
        if mode == 'mux' and decoy is not None and n < len(decoy):
            subj.on_next(rs.OnNextMux((2,), decoy[n]))     # another key, interleaved
        c0 = calls[0]
        try:
            send(x)
        except Exception as e:      # an exception escaping on_next is an error of the stream
            sub.ended = 'raised:%s' % type(e).__name__
            failed = True
        outs.append(list(sub.cur))
        km.append(calls[0] - c0)
        sub.cur.clear()
        if failed:
            break
    final = []
    if not failed:
        try:
            if mode == 'mux':
                subj.on_next(rs.OnCompletedMux((1,)))
                final = list(sub.cur)
                sub.cur.clear()
                subj.on_next(rs.OnCompletedMux((2,)))
            subj.on_completed()
            final += list(sub.cur)
        except Exception as e:
            sub.ended = 'raised:%s' % type(e).__name__
    while len(outs) < len(items):
        outs.append([])
        km.append(0)
    return outs, final, sub.ended, km


# ---------------------------------------------------------------- values -> tokens

def is_number(r):
    return isinstance(r, (int, float, Fraction)) and not isinstance(r, bool) and \
        (not isinstance(r, float) or math.isfinite(r))


def small(q):
    """Can q be a value the specification expects within the bounds the harness drives
    (|items| <= 14 in halves, <= 8 items)?  Expected values have denominators dividing
    n^3 * unit^2 <= 2048 and numerators far below 2^20; anything else is logged as the
    non-matching token (and cannot overflow TLC's 32-bit cross-multiplications)."""
    return abs(q.numerator) < 2 ** 20 and q.denominator <= DENMAX


def snap(r, tol):
    """the small rational a float denotes, or None"""
    q = Fraction(r).limit_denominator(DENMAX)
    if abs(Fraction(r) - q) <= tol:
        return q
    return None


def token(op, r, num, tol):
    """exact rational token of a real output.  num='exact': Fraction(r) itself; 'float':
    the rational with denominator <= DENMAX within tol of r.  stddev: the token carries
    the *square* (the rational q whose correctly rounded root r is)."""
    if r is None:
        return []
    if not is_number(r):
        return BADTOK
    if op in SQRT_OPS:
        if r < 0:
            return BADTOK
        q = Fraction(Fraction(r) ** 2).limit_denominator(DENMAX)
        root = math.sqrt(q)
        if q == 0:
            ok = (r == 0) if num == 'exact' else (Fraction(r) ** 2 <= tol)
        else:
            slack = 4 * EPS * root + (0 if num == 'exact' else float(tol) / (2 * root))
            ok = abs(r - root) <= slack
        return [q.numerator, q.denominator, 2] if ok and small(q) else BADTOK
    if num == 'exact':
        q = Fraction(r)
        return [q.numerator, q.denominator] if small(q) else BADTOK
    q = snap(r, tol)
    return [q.numerator, q.denominator] if q is not None and small(q) else BADTOK


def tok_str(t):
    if t == []:
        return 'None'
    if t == BADTOK:
        return '?'
    s = str(Fraction(t[0], t[1]))
    return 'sqrt(%s)' % s if len(t) == 3 and s != '0' else s


# ---------------------------------------------------------------- recording

def record_group(raw, kmul, kadd, unit, mode, num, ops=OPS):
    """One record: the items raw[j]/unit sent to a streaming and a reduce subscription of
    every operator in `ops` (each with its own fresh operator instance and source)."""
    ops = [op for op in ops if in_property(op, raw)]
    rec = {'mode': mode, 'num': num, 'unit': unit, 'kmul': kmul, 'kadd': kadd,
           'items': list(raw), 'ops': ops, 's': {}, 'r': {}, 'raw': {'s': {}, 'r': {}}}
    mx = max([abs(kmul * a / unit + kadd) for a in raw] + [1.0])
    tol = [Fraction(16 * (j + 1) * EPS * mx * mx) if num == 'float' else 0
           for j in range(len(raw) + 1)]
    for op in ops:
        if num == 'float':
            vals = [a / unit for a in raw]
        elif op == 'sum':   # the float seed 0.0 turns Fractions into floats: ints / dyadics
            vals = [a if unit == 1 else a / unit for a in raw]
        else:
            vals = [Fraction(a, unit) for a in raw]
        items = [{'v': v} for v in vals]
        decoy = [{'v': v} for v in reversed(vals)]

        def make(reduce):
            def make_op(calls):
                def km(i):
                    calls[0] += 1
                    return kmul * i['v'] + kadd
                return factory(op)(km, reduce=reduce)
            return make_op
        for side, reduce in (('s', False), ('r', True)):
            outs, final, ended, km = drive(mode, make(reduce), items, decoy)
            rec[side][op] = {
                'outs': [[token(op, r, num, tol[j]) for r in o] for j, o in enumerate(outs)],
                'final': [token(op, r, num, tol[max(0, len(raw) - 1)]) for r in final],
                'ended': ended, 'km': km}
            rec['raw'][side][op] = {'outs': [[repr(r) for r in o] for o in outs],
                                    'final': [repr(r) for r in final]}
    return rec


def in_property(op, raw):
    return not (op == 'mean' and len(raw) == 0)     # mean of nothing: outside C12


def nontrivial(rec):
    """a record exercises the property non-trivially when the expected statistics move:
    at least two different item values (variance > 0)"""
    return len(set(rec['items'])) >= 2


# ---------------------------------------------------------------- exact oracle (probe)

class Exact:
    """Sum / Mean / SampleVar / PopVar / Min / Max of every prefix of a float/int sequence,
    as exact Fractions: the definitions of MathAgg part 2 (SumN, DevN = n*(n*Q - S^2))."""

    def __init__(self, xs):
        fr = [Fraction(x) for x in xs]
        self.den = 1
        for f in fr:
            if f.denominator > self.den:
                self.den = f.denominator        # floats: powers of two
        for f in fr:
            if self.den % f.denominator:
                raise C.MachineryError('items without common power-of-two denominator')
        X = [f.numerator * (self.den // f.denominator) for f in fr]
        self.X = X
        self.S, self.Q, self.A, self.mn, self.mx = [0], [0], [0], [None], [None]
        for v in X:
            self.S.append(self.S[-1] + v)
            self.Q.append(self.Q[-1] + v * v)
            self.A.append(self.A[-1] + abs(v))
            self.mn.append(v if self.mn[-1] is None else min(self.mn[-1], v))
            self.mx.append(v if self.mx[-1] is None else max(self.mx[-1], v))

    def dev(self, k):           # = DevN / k = k * sum of squared deviations (scaled)
        return k * self.Q[k] - self.S[k] ** 2

    def dev_by_definition(self, k):     # DevN of MathAgg, literally
        t = self.S[k]
        return sum((k * v - t) ** 2 for v in self.X[:k])

    def value(self, op, k):
        d = self.den
        if op == 'sum':
            return Fraction(self.S[k], d)
        if op == 'mean':
            return Fraction(self.S[k], k * d)
        if op == 'min':
            return None if k == 0 else Fraction(self.mn[k], d)
        if op == 'max':
            return None if k == 0 else Fraction(self.mx[k], d)
        if op in ('variance', 'stddev'):
            return Fraction(0) if k < 2 else Fraction(self.dev(k), k * (k - 1) * d * d)
        return Fraction(0) if k == 0 else Fraction(self.dev(k), k * k * d * d)

    def tolerance(self, op, k):
        """bound on |computed - exact| the property allows (a float)"""
        if op in ('min', 'max'):
            return 0.0
        sabs = float(Fraction(self.A[k], self.den))
        if op == 'sum':
            return k * EPS * sabs
        if op == 'mean':
            return (k + 1) * EPS * sabs / k
        if k == 0:
            return 0.0
        var = float(self.value(op, k))
        mean = float(Fraction(self.S[k], k * self.den))
        second = (k * EPS) ** 2 * (mean * mean + var)
        if var == 0.0:
            return second
        kappa = math.hypot(1.0, mean / math.sqrt(var))
        return 8 * k * EPS * kappa * var + second


def probe_sequences(rng, thorough):
    """(category, list of numbers)"""
    seqs = []

    def length(maxn):
        return max(1, int(round(math.exp(rng.uniform(0, math.log(maxn))))))
    cats = ['normal', 'offset', 'tiny', 'huge', 'constant', 'negative', 'ints', 'nearconst',
            'smallints']
    nseq = 160 if thorough else 36
    longs = 6 if thorough else 2
    for s in range(nseq):
        cat = cats[s % len(cats)]
        n = 10 ** 4 if s < longs else length(3000 if thorough else 600)
        if s < longs:
            cat = ['offset', 'normal', 'huge', 'tiny', 'negative', 'ints'][s]
        if cat == 'normal':
            sc = rng.choice([1.0, 1e-3, 1e3, 1e6])
            xs = [rng.gauss(0.0, 1.0) * sc for _ in range(n)]
        elif cat == 'offset':
            off = rng.choice([1e3, -1e4, 1e6, -1e6, 123456.789])
            sd = rng.choice([1.0, 1e-2, 10.0])
            xs = [off + rng.gauss(0.0, sd) for _ in range(n)]
        elif cat == 'tiny':
            sc = 10.0 ** rng.uniform(-140, -100)
            off = rng.choice([0.0, 1e3, 1e6])
            xs = [(off + rng.gauss(0.0, 1.0)) * sc for _ in range(n)]
        elif cat == 'huge':
            sc = 10.0 ** rng.uniform(100, 140)
            off = rng.choice([0.0, -1e3, 1e6])
            xs = [(off + rng.gauss(0.0, 1.0)) * sc for _ in range(n)]
        elif cat == 'constant':
            c = rng.choice([0.1, -1e6 / 3, 4.2, 1e-120, 7.0, 0.0])
            xs = [c] * n
        elif cat == 'negative':
            xs = [-abs(rng.gauss(5.0, 3.0)) * rng.choice([1.0, 1e4]) for _ in range(n)]
        elif cat == 'ints':
            hi = rng.choice([10, 10 ** 6])
            xs = [rng.randint(-hi, hi) for _ in range(n)]
        elif cat == 'nearconst':
            c = rng.choice([1e6, -3.3e5, 1.0])
            xs = [c + rng.choice([0.0, 0.0, 0.0, 1e-3]) for _ in range(n)]
        else:
            xs = [float(rng.randint(-3, 3)) for _ in range(min(n, 12))]
        seqs.append((cat, xs))
    return seqs


def probe_run(mode, reduce, ops, xs):
    """all `ops` subscribed side by side to one source; returns op -> (outs, final, ended)"""
    import rxsci as rs
    from rx.subject import Subject
    subj = Subject()
    subs = {}
    for op in ops:
        sub = Sub()
        subs[op] = sub
        o = factory(op)(lambda i: i[0], reduce=reduce)
        if mode == 'plain':
            subj.pipe(o).subscribe(on_next=sub.cur.append, on_error=sub.on_error,
                                   on_completed=sub.on_completed)
        else:
            def on_next(i, sub=sub):
                if type(i) is rs.OnNextMux and i.key == (1,):
                    sub.cur.append(i.item)
                elif type(i) is rs.OnErrorMux:
                    sub.ended = 'error:mux:%s' % type(i.error).__name__
            subj.pipe(rs.cast_as_mux_observable(), rs.state.with_memory_store(o)).subscribe(
                on_next=on_next, on_error=sub.on_error, on_completed=sub.on_completed)
    if mode == 'plain':
        for x in xs:
            subj.on_next((x,))
    else:
        # a second key of a very different magnitude is interleaved: its items must not
        # influence the statistics of the key under test
        subj.on_next(rs.OnCreateMux((1,)))
        subj.on_next(rs.OnCreateMux((2,)))
        big = [1e16, 3.0, -1e16 + 2.0, 1e-9, 7e15]
        for n, x in enumerate(xs):
            if n < 64:
                subj.on_next(rs.OnNextMux((2,), (big[n % len(big)],)))
            subj.on_next(rs.OnNextMux((1,), (x,)))
        subj.on_next(rs.OnCompletedMux((1,)))
        subj.on_next(rs.OnCompletedMux((2,)))
    subj.on_completed()
    return {op: (s.cur, s.ended) for op, s in subs.items()}


FORMAL_STREAM_CAP = 400     # formal.* keeps every item and recomputes: O(n^2) when streaming


class Collector:
    """violations of the auxiliary probe, handed to the Verdict after those judged by TLC"""

    def __init__(self):
        self.items = []

    def violation(self, witness, clause, detail=None):
        self.items.append((witness, clause, detail))


def numeric_probe(rng, thorough, V):
    """AUXILIARY, not model checking.  Returns the statistics for coverage['numeric_probe']."""
    stats = {'sequences': 0, 'values_compared': 0, 'max_len': 0, 'violations': 0,
             'worst_ratio': {op: 0.0 for op in OPS}, 'categories': {}, 'oracle_selfchecks': 0}
    reported = set()

    def judge(op, got, k, ex, ctx):
        stats['values_compared'] += 1
        want = ex.value(op, k)
        if want is None or got is None:
            good, ratio, tol = (got is None and want is None), 0.0, 0.0
        elif not is_number(got):
            good, ratio, tol = False, float('inf'), 0.0
        else:
            tol = ex.tolerance(op, k)
            g = Fraction(got)
            if op in SQRT_OPS:
                # stddev^2 against the variance, exactly; sqrt adds its own rounding
                err = abs(g * g - want)
                tol = tol + 4 * EPS * float(want)
                good = got >= 0 and err <= tol
            else:
                err = abs(g - want)
                good = err <= tol
            ratio = (float(err / Fraction(tol)) if tol > 0 else (0.0 if err == 0 else float('inf')))
        if ratio > stats['worst_ratio'][op] and good:
            stats['worst_ratio'][op] = ratio
        if not good:
            stats['violations'] += 1
            key = (op, ctx['mode'], ctx['reduce'], ctx['category'])
            if key not in reported and len(reported) < 40:
                reported.add(key)
                streamed = '0' if (is_number(got) and got == 0) else repr(got)
                V.violation({'op': op, 'mode': ctx['mode'], 'num': 'float',
                             'reduce': ctx['reduce'],
                             'wrong_side': 'reduce' if ctx['reduce'] else 'streaming',
                             'streamed': streamed if not ctx['reduce'] else None,
                             'category': ctx['category'], 'n': ctx['n'], 'position': k,
                             'got': repr(got), 'exact': str(float(want)) if want is not None
                             else 'None', 'tolerance': tol, 'error_over_tolerance': ratio,
                             'probe': {'seq_index': ctx['index'], 'seed': C.seed(),
                                       'tier': 'thorough' if thorough else 'quick',
                                       'items': ctx['xs'] if ctx['n'] <= 50 else None}},
                            'numeric',
                            detail='|got - exact| > tolerance at item %d of %d' % (k, ctx['n']))

    for index, (cat, xs) in enumerate(probe_sequences(rng, thorough)):
        n = len(xs)
        ex = Exact(xs)
        if n <= 60:
            for k in (n, max(1, n // 2)):
                if ex.dev_by_definition(k) != k * ex.dev(k):
                    raise C.MachineryError('numeric oracle: DevN forms disagree')
                stats['oracle_selfchecks'] += 1
        stats['sequences'] += 1
        stats['max_len'] = max(stats['max_len'], n)
        stats['categories'][cat] = stats['categories'].get(cat, 0) + 1
        modes = ['plain', 'mux'] if n <= 2000 else [['plain', 'mux'][index % 2]]
        if n <= 300:
            pos = list(range(1, n + 1))
        else:
            pos = sorted(set([1, 2, 3, n - 1, n] + [rng.randint(1, n) for _ in range(150)]))
        for mode in modes:
            ctx = {'mode': mode, 'category': cat, 'n': n, 'index': index, 'xs': xs}
            s_ops = [op for op in OPS if op not in FORMAL or n <= FORMAL_STREAM_CAP]
            res = probe_run(mode, False, s_ops, xs)
            ctx['reduce'] = False
            for op in s_ops:
                out, ended = res[op]
                if ended != 'completed' or len(out) != n:
                    V.violation({'op': op, 'mode': mode, 'num': 'float', 'reduce': False,
                                 'wrong_side': 'streaming', 'category': cat, 'n': n,
                                 'ended': ended, 'emitted': len(out),
                                 'probe': {'seq_index': index, 'seed': C.seed(),
                                           'tier': 'thorough' if thorough else 'quick'}},
                                'count' if ended == 'completed' else 'error')
                    continue
                for k in pos:
                    judge(op, out[k - 1], k, ex, ctx)
            res = probe_run(mode, True, OPS, xs)
            ctx['reduce'] = True
            for op in OPS:
                out, ended = res[op]
                if ended != 'completed' or len(out) != 1:
                    V.violation({'op': op, 'mode': mode, 'num': 'float', 'reduce': True,
                                 'wrong_side': 'reduce', 'category': cat, 'n': n,
                                 'ended': ended, 'emitted': len(out),
                                 'probe': {'seq_index': index, 'seed': C.seed(),
                                           'tier': 'thorough' if thorough else 'quick'}},
                                'count' if ended == 'completed' else 'error')
                    continue
                judge(op, out[0], n, ex, ctx)
    stats['worst_ratio'] = {k: float('%.3g' % v) for k, v in stats['worst_ratio'].items()}
    return stats


# ---------------------------------------------------------------- TLC jobs

def mc_const(vmax, maxlen, km, clears, pops, keephist=False):
    return dict(VMax=vmax, MaxLen=maxlen, KAbs=abs(km[0]), KNeg=km[0] < 0, KAdd=km[1],
                FormalClears=clears,
                POps=set(pops), KeepHist=keephist)


INV_ALL = ['TypeOK', 'SpecConsistent', 'WelfordIdentity', 'FoldIdentity', 'Counts',
           'KeyMapperOnce', 'StreamingValue', 'VarianceValue', 'StdDevSquared',
           'FormalStreaming', 'FormalFaithfulZero', 'ReduceValue', 'StreamEqualsReduce',
           'EmptyValues']
INV_FAITHFUL = [i for i in INV_ALL if i != 'FormalStreaming']    # + FormalReport (collector)
KMS = [(1, 0), (-1, 1)]


def trace_cfg(clears):
    return C.cfg(spec='TraceSpec', constants=mc_const(0, 0, (1, 0), clears, []),
                 invariants=['TraceModelOK'])


def strip(rec, ops=None):
    out = {k: v for k, v in rec.items() if k != 'raw'}
    if ops is not None:
        out.update(ops=list(ops), s={o: rec['s'][o] for o in ops}, r={o: rec['r'][o] for o in ops})
    return out


def validate(records, clears, only=None):
    """TLC verdicts: verdicts[i] = {op: {'s': (step, clause, insync), 'r': (...)}};
    only[i]: restrict record i to these operators."""
    tstats = {'states': 0, 'transitions': 0, 'tlc_runs': 0, 'wall_s': 0.0}
    send = [strip(r, only[i] if only else None) for i, r in enumerate(records)]
    chunk = max(100, -(-len(send) // 6))
    vs, st = C.validate_traces('MathAggTrace', send, cfg_text=trace_cfg(clears), chunk=chunk)
    verdicts = []
    for rec, v in zip(send, vs):
        if v[0] != 'DONE':
            raise C.MachineryError('trace spec/harness problem: %s on %r' % (v, rec))
        vd = {o: {'s': tuple(a), 'r': tuple(b)} for (o, a, b) in v[1]}
        if sorted(vd) != sorted(rec['ops']):
            raise C.MachineryError('verdicts do not cover the operators of the record')
        verdicts.append(vd)
    for k in tstats:
        tstats[k] += st[k]
    return verdicts, tstats


def witness_of(rec, op, side, v):
    """the dict given to V.violation for a rejected subscription"""
    step, clause = v[0], v[1]
    n = len(rec['items'])
    w = {'op': op, 'mode': rec['mode'], 'num': rec['num'], 'reduce': side == 'r',
         'key_mapper': [rec['kmul'], rec['kadd']], 'unit': rec['unit'], 'items': rec['items'],
         'step': step, 'streamed': None}
    souts = rec['s'][op]['outs']
    if side == 's':
        w['wrong_side'] = 'streaming'
        if clause == 'value' and 1 <= step <= n and souts[step - 1]:
            w['streamed'] = tok_str(souts[step - 1][0])
        w['got_raw'] = rec['raw']['s'][op]
    elif clause == 'streaming-vs-reduce':
        w['wrong_side'] = 'streaming'       # the reduce value is the specified one
        w['streamed'] = tok_str(souts[n - 1][0])
        w['got_raw'] = {'reduce': rec['raw']['r'][op]['final'],
                        'last_streaming': rec['raw']['s'][op]['outs'][n - 1]}
    else:
        w['wrong_side'] = 'reduce'
        w['got_raw'] = rec['raw']['r'][op]
    w['trace'] = {k: (x if k not in ('s', 'r', 'raw') else None) for k, x in rec.items()}
    w['trace'].update(ops=[op], s={op: rec['s'][op]}, r={op: rec['r'][op]},
                      raw={'s': {op: rec['raw']['s'][op]}, 'r': {op: rec['raw']['r'][op]}})
    return w


# ---------------------------------------------------------------- replay

def do_replay(path):
    C.use_repo()
    data = C.json.load(open(path))
    w = data['witness']
    if data['clause'] == 'numeric' or 'probe' in w:
        p = w['probe']
        tier = p.get('tier', 'quick')
        seqs = probe_sequences(random.Random(p['seed'] * 104729 + 12), tier == 'thorough')
        cat, xs = seqs[p['seq_index']]
        ex = Exact(xs)
        res, ended = probe_run(w['mode'], bool(w['reduce']), [w['op']], xs)[w['op']]
        if ended != 'completed' or len(res) != (1 if w['reduce'] else len(xs)):
            print('numeric probe (auxiliary): %s %s reduce=%s n=%d: %d values emitted, %s'
                  % (w['op'], w['mode'], w['reduce'], len(xs), len(res), ended))
            print('VIOLATION property=%s replay=%s clause=%s'
                  % (PROP, path, 'count' if ended == 'completed' else 'error'))
            return 1
        k = w.get('position', len(xs))
        got = res[0] if w['reduce'] else res[k - 1]
        want = ex.value(w['op'], k)
        tol = ex.tolerance(w['op'], k)
        g = Fraction(got) if is_number(got) else None
        if w['op'] in SQRT_OPS and g is not None:
            err, tol = abs(g * g - want), tol + 4 * EPS * float(want)
        else:
            err = abs(g - want) if g is not None and want is not None else None
        print('numeric probe (auxiliary): %s %s reduce=%s category=%s n=%d item %d'
              % (w['op'], w['mode'], w['reduce'], cat, len(xs), k))
        print('got', repr(got), 'exact (the variance for a stddev: squares are compared)'
              if w['op'] in SQRT_OPS else 'exact', float(want) if want is not None else None,
              'error', float(err) if err is not None else None, 'tolerance', tol)
        bad = (err is None and not (got is None and want is None)) or (err is not None and err > tol)
        if bad:
            print('VIOLATION property=%s replay=%s clause=numeric' % (PROP, path))
            return 1
        return 0
    tr = w['trace']
    op = w['op']
    side = 'r' if w['reduce'] else 's'
    new = record_group(tr['items'], tr['kmul'], tr['kadd'], tr['unit'], tr['mode'], tr['num'],
                       ops=[op])
    vs, _ = validate([new], False)
    v = vs[0][op][side]
    print('replay verdict (step, clause, insync):', v)
    print('%s mode=%s reduce=%s items=%s/%d key_mapper=%d*x+%d'
          % (op, tr['mode'], w['reduce'], tr['items'], tr['unit'], tr['kmul'], tr['kadd']))
    for sd, nm in (('s', 'streaming'), ('r', 'reduce')):
        print('%s subscription: per item %s at completion %s (%s)'
              % (nm, new['raw'][sd][op]['outs'], new['raw'][sd][op]['final'],
                 new[sd][op]['ended']))
    if v[1] != '':
        print('VIOLATION property=%s replay=%s clause=%s' % (PROP, path, v[1]))
        return 1
    return 0


# ---------------------------------------------------------------- the check

def main(tier, replay):
    if replay:
        return do_replay(replay)
    C.use_repo()
    V = C.Verdict(PROP, tier)
    rng = random.Random(C.seed() * 7919 + 12)
    thorough = tier == 'thorough'

    # 1. model checking (TLC jobs run in the background while the real code is driven) ------
    L = 8 if thorough else 6            # non-formal operators: all sequences over -3..3
    LF = 6 if thorough else 4           # formal.* (one state per sequence)
    LC = 5 if thorough else 4           # the code as it is (FormalClears = TRUE)
    jobs = []       # (label, constants, invariants, kwargs)
    for km in KMS:
        jobs.append(('algebra', mc_const(3, L, km, False, NONFORMAL), INV_ALL, {}))
    if thorough:
        jobs.append(('algebra-wide', mc_const(4, 9, (1, 0), False, NONFORMAL), INV_ALL,
                     {'workers': 6}))
        jobs.append(('formal-repaired', mc_const(2, 7, (-1, 1), False, FORMAL), INV_ALL, {}))
    jobs.append(('formal-repaired', mc_const(3, LF, (1, 0), False, FORMAL), INV_ALL,
                 {'workers': 8 if thorough else 4}))
    jobs.append(('formal-repaired', mc_const(1, L, (-1, 1), False, FORMAL), INV_ALL, {}))
    jobs.append(('formal-as-coded', mc_const(3, LC, (1, 0), True, FORMAL), INV_FAITHFUL, {}))
    jobs.append(('all-operators', mc_const(2, 3, (1, 0), False, OPS), INV_ALL, {'coverage': True}))
    # collector: the sequences on which the code as it is misses PopVar
    jobs.append(('formal-report', mc_const(3, 3, (1, 0), True, FORMAL, keephist=True),
                 ['FormalReport', 'FormalFaithfulZero'], {}))
    # the plain invariant on the code as it is: TLC must produce a counterexample
    jobs.append(('formal-counterexample', mc_const(3, 3, (1, 0), True, FORMAL, keephist=True),
                 ['FormalStreaming'], {'workers': 1}))

    def run(job):
        label, const, invs, kw = job
        kw = dict(kw)
        kw.setdefault('workers', 3)
        return C.run_tlc('MathAgg', C.cfg(constants=const, invariants=invs), **kw)

    # 2. behaviours generated by TLC ----------------------------------------------------
    nsim = 1500 if thorough else 110
    gens = [('exhaustive', mc_const(3, 3 if thorough else 2, (1, 0), False, [], keephist=True), None),
            ('simulation', mc_const(3, L, (1, 0), False, [], keephist=True), nsim)]

    def gen(job):
        kind, const, sim = job
        text = C.cfg(constants=const, invariants=['EmitBehaviour'])
        if sim is None:
            r = C.run_tlc('MathAgg', text, workers=2)
        else:
            r = C.run_tlc('MathAgg', text, workers=1, simulate='num=%d' % sim, depth=L + 3,
                          tlc_seed=C.seed() + 1)
        return kind, [b[1] for b in C.extract_printed(r.stdout, 'BEH')]
    import concurrent.futures as cf
    pool = cf.ThreadPoolExecutor(max_workers=len(jobs) + len(gens))
    gen_futs = [pool.submit(gen, j) for j in gens]
    mc_futs = [pool.submit(run, j) for j in jobs]
    behaviours = []
    gen_counts = []
    for f in gen_futs:
        kind, b = f.result()
        gen_counts.append({'kind': kind, 'generated': len(b)})
        behaviours += b
    seen = set()
    uniq = []
    for b in behaviours:
        if tuple(b) not in seen:
            seen.add(tuple(b))
            uniq.append(b)
    V.phase('behaviour generation')

    # 3. replay into the real code + executions beyond the model bounds -------------------
    records = []
    for n, raw in enumerate(uniq):
        km = KMS[n % 2]
        modes = ['plain', 'mux'] + (['store'] if n % 3 == 0 else [])
        for mode in modes:
            records.append(record_group(raw, km[0], km[1], 1, mode, 'exact'))
        # floats: every path in thorough, one path per sequence (rotating) in quick
        for mode in (modes if thorough else [['plain', 'mux', 'store'][n % 3]]):
            records.append(record_group(raw, km[0], km[1], 1, mode, 'float'))
    n_replayed = len(uniq)
    n_beh_records = len(records)
    nrand = 400 if thorough else 40
    for n in range(nrand):
        unit = rng.choice([1, 1, 2])
        ln = rng.choice([0, 1, 2, 3, 5, 8])
        pal = rng.choice([None, None, [rng.randint(-12, 12)] * 2 + [rng.randint(-12, 12)]])
        raw = [rng.choice(pal) if pal else rng.randint(-12, 12) for _ in range(ln)]
        km = KMS[n % 2]
        records.append(record_group(raw, km[0], km[1], unit, rng.choice(['plain', 'mux', 'store']),
                                    rng.choice(['exact', 'exact', 'float'])))
    n_subs = sum(2 * len(r['ops']) for r in records)
    V.phase('replay and random executions')

    # 5. auxiliary numeric probe (python, sampling) ------------------------------------
    probe_found = Collector()
    probe = numeric_probe(random.Random(C.seed() * 104729 + 12), thorough, probe_found)
    V.phase('numeric probe')

    # (1.) collect the model-checking results ---------------------------------------------
    results = [f.result() for f in mc_futs]
    pool.shutdown()
    mc_stats = []
    formal_bad = None
    counterexample = None
    for (label, const, invs, kw), r in zip(jobs, results):
        if label == 'formal-counterexample':
            if r.violated != 'FormalStreaming':
                raise C.MachineryError('the faithful model (FormalClears) does not violate '
                                       'FormalStreaming: model or spec changed')
            counterexample = r.error_trace
            continue
        if r.violated:
            raise C.MachineryError('MathAgg %s violates %s:\n%s' % (label, r.violated,
                                                                   r.error_trace))
        if label == 'formal-report':
            formal_bad = C.extract_printed(r.stdout, 'FORMALBAD')
        mc_stats.append((label, const, r))
    # the failing set predicted by the faithful model: exactly the sequences whose
    # population variance is not 0 (at least two different values)
    bad_seqs = sorted(set(tuple(b[1]) for b in formal_bad))
    import itertools
    predicted = sorted(s for k in range(1, 4) for s in itertools.product(range(-3, 4), repeat=k)
                       if len(set(s)) >= 2)
    if bad_seqs != predicted:
        raise C.MachineryError('FormalReport: failing sequences of the faithful model are not '
                               'the non-constant ones (%d vs %d)' % (len(bad_seqs), len(predicted)))
    V.phase('model checking (waited)')

    # 4. validation by TLC --------------------------------------------------------------
    verdicts, tstats = validate(records, False)

    def unsynced(vd):
        return [(op, side) for op in vd for side in ('s', 'r') if vd[op][side][2] is not True]
    out_of_sync = [i for i, vd in enumerate(verdicts) if unsynced(vd)]
    explained = 0
    out_of_sync_final = []
    if out_of_sync:
        # does the model of the code as it is (FormalClears = TRUE) explain them ?
        v2, st2 = validate([records[i] for i in out_of_sync], True,
                           only=[sorted({op for op, _ in unsynced(verdicts[i])})
                                 for i in out_of_sync])
        for k in ('states', 'transitions', 'tlc_runs', 'wall_s'):
            tstats[k] += st2[k]
        for i, vd in zip(out_of_sync, v2):
            left = unsynced(vd)
            explained += len(unsynced(verdicts[i])) - len(left)
            # only subscriptions the specification accepts count as "differs in something
            # C12 does not constrain"; a rejected one differs from every model anyway
            out_of_sync_final += [(i, op, side) for (op, side) in left
                                  if verdicts[i][op][side][1] == '']
    nontriv = set()
    n_rejected = 0
    for rec, vd in zip(records, verdicts):
        for op in rec['ops']:
            for side in ('s', 'r'):
                step, clause, _ = vd[op][side]
                if clause == '':
                    if nontrivial(rec):
                        nontriv.add((op, side, rec['mode'], rec['num'], rec['unit'], rec['kmul'],
                                     tuple(rec['items'])))
                    continue
                n_rejected += 1
                if clause.startswith('model-'):
                    raise C.MachineryError('trace spec/harness problem: %s on %r' % (clause, rec))
                V.violation(witness_of(rec, op, side, vd[op][side]), clause,
                            detail='step %s' % step)
    for (w, clause, detail) in probe_found.items:
        V.violation(w, clause, detail=detail)
    V.phase('trace validation')

    # empty input of mean: outside the property (length >= 1), only noted
    mean_empty = {}
    for mode in ('plain', 'mux'):
        o, f, e, _ = drive(mode, lambda calls: factory('mean')(reduce=True), [])
        mean_empty[mode] = {'emitted': [repr(x) for x in f], 'ended': e}

    if out_of_sync_final:
        i0, op0, side0 = out_of_sync_final[0]
        V.note('impl_model_in_sync=false: %d subscriptions differ from the implementation-shaped '
               'model in something C12 does not constrain (key_mapper calls per item or the '
               'representation of a value), e.g. %s %s %s key_mapper calls %s'
               % (len(out_of_sync_final), op0, records[i0]['mode'], side0,
                  records[i0][side0][op0]['km']))
    model_variant = 'FormalClears=FALSE (repaired behaviour)'
    if explained:
        model_variant = ('FormalClears=TRUE (code as it is): %d subscriptions that differ from '
                         'the repaired model emit exactly what the faithful model emits' % explained)
    samples = []
    for rec, vd in zip(records, verdicts):
        if len(rec['items']) >= 4 and nontrivial(rec) and rec['num'] == 'exact':
            samples.append({'verdicts (op: s/r -> step, clause, insync)': vd, 'trace': rec})
            break
    import re
    taken = {}
    for (label, _, r) in mc_stats:      # (common's pattern misses "<Feed line .. (..)>: d:t")
        for m in re.finditer(r'^<(\w+) line [^>]*of module MathAgg[^>]*>: (\d+):(\d+)', r.stdout,
                             re.M):
            taken[m.group(1)] = taken.get(m.group(1), 0) + int(m.group(3))
    if not {'Feed', 'Complete'} <= set(taken):
        raise C.MachineryError('TLC coverage output lacks the actions Feed / Complete: %r' % taken)
    uncovered = sorted(a for a in ('Feed', 'Complete') if taken[a] == 0)
    nseq = lambda vmax, ln: sum((2 * vmax + 1) ** k for k in range(ln + 1))
    coverage = {
        'states': sum(r.distinct for (_, _, r) in mc_stats) + tstats['states'],
        'transitions': sum(r.generated for (_, _, r) in mc_stats) + tstats['transitions'],
        'traces_validated_against_impl': n_subs,
        'records (one item sequence, all operators, streaming + reduce)': len(records),
        'samples': samples,
        'exhaustive': True,
        'model_checking_runs': [{'run': label, 'constants': {k: str(v) for k, v in c.items()},
                                 'item_sequences_covered': nseq(c['VMax'], c['MaxLen']),
                                 **r.summary()} for (label, c, r) in mc_stats],
        'bounds': {
            'sum/mean/min/max/variance/stddev': sorted(
                'items -%d..%d, length 0..%d, key_mapper %s%d*x+%d'
                % (c['VMax'], c['VMax'], c['MaxLen'], '-' if c['KNeg'] else '', c['KAbs'], c['KAdd'])
                for (label, c, r) in mc_stats if label.startswith('algebra')),
            'formal.variance/formal.stddev (repaired behaviour)': sorted(
                'items -%d..%d, length 0..%d, key_mapper %s%d*x+%d'
                % (c['VMax'], c['VMax'], c['MaxLen'], '-' if c['KNeg'] else '', c['KAbs'], c['KAdd'])
                for (label, c, r) in mc_stats if label == 'formal-repaired'),
            'note': 'every item sequence within the bounds is a path of the state graph and the '
                    'invariants are checked after each of its prefixes; sequences that lead to '
                    'identical accumulators share a TLC state (Welford and the folds forget the '
                    'order, as the invariants prove), so distinct states << sequences for the '
                    'non-formal operators; formal.* keeps the list: one state per sequence'},
        'formal_as_coded': {
            'model': 'FormalClears=TRUE',
            'failing_sequences_collected_by_TLC': len(bad_seqs),
            'characterisation': 'exactly the sequences of length 1..3 over -3..3 with at least '
                                'two different values (population variance > 0); emitted 0',
            'example': formal_bad[0] if formal_bad else None,
            'tlc_counterexample_FormalStreaming': counterexample[:1500] if counterexample else None},
        'tlc_behaviours_replayed': n_replayed,
        'records_from_tlc_behaviours': n_beh_records,
        'behaviour_generation': gen_counts,
        'random_executions': nrand,
        'distinct_nontrivial': len(nontriv),
        'rule': 'an accepted record is non-trivial when its items take at least two different '
                'values (the variance moves); distinct by (op, streaming|reduce, mode, number type, '
                'key_mapper, items)',
        'trace_validation': tstats,
        'subscriptions_rejected': n_rejected,
        'impl_model_in_sync': not out_of_sync_final,
        'impl_model_variant': model_variant,
        'actions_never_taken': uncovered,
        'action_transitions (coverage run)': {a: taken[a] for a in ('Feed', 'Complete')},
        'mean_on_empty_input': {'outside_property': True, 'observed': mean_empty},
        'numeric_probe': dict(probe, kind='AUXILIARY python sampling, not model checking; oracle: '
                              'MathAgg part-2 definitions evaluated with exact integers/Fractions',
                              tolerances={'variance, formal.variance':
                                          '8*n*eps*kappa*var + (n*eps)^2*(mean^2+var), '
                                          'kappa=sqrt(1+mean^2/var)',
                                          'stddev': 'squares compared with the variance bound + 4*eps*var',
                                          'sum': 'n*eps*sum|x|', 'mean': '(n+1)*eps*sum|x|/n',
                                          'min, max': 'exact'},
                              formal_streaming_cap=FORMAL_STREAM_CAP),
    }
    return V.finish('model_checking', coverage, assumptions=[
        'TLC has no reals: the specification decides the algebra in exact rational arithmetic '
        '(items are small integers / halves); the floating-point clause (error proportional to '
        'eps, n and the conditioning) is only probed numerically (coverage.numeric_probe: '
        'python sampling with an exact-rational oracle, not model checking)',
        'model bounds are small (|x| <= 3..5, length <= 6..9); larger integers and halves only '
        'through recorded executions',
        'float replays of model-sized sequences are identified with the rational of '
        'denominator <= %d within 16*n*eps*max|x|^2' % DENMAX,
        'stddev outputs are compared through their squares (math.sqrt is kept symbolic)',
        'mean of an empty source is outside the property (the code raises ZeroDivisionError)',
        'formal.* streaming is probed numerically up to %d items only (it recomputes both '
        'moments over all items after every item)' % FORMAL_STREAM_CAP,
        'rx Subject delivers synchronously (single-threaded)'])


if __name__ == '__main__':
    C.main_wrapper(main)
