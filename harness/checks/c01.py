"""C01  Multiplexing is transparent: keyed execution equals per-group plain execution.

 1. TLC model-checks the design-level statement (spec/PlainSem.tla, PlainCheck.tla): for
    every pipeline of a bounded grammar and every item sequence the plain reading
    (take/first complete early) and the multiplexed reading deliver the same items,
    given the preconditions; the run without the precondition must be violated.
 2. The real code is run in BOTH modes on the same keyed input: the multiplexed pipeline
    (events pushed on a MuxObservable with interleaved keys, and under
    with_memory_store + group_by) and rx.from_(items of the group).pipe(*P) per group.
 3. TLC judges every pair of executions with spec/PlainTrace.tla (verdict: per group the
    two item sequences are equal and fail at the same item) and compares both with
    PlainSem (reported only).  The multiplexed executions are also judged by the
    layer-A contracts (MuxTrace) to localise a deviation; that is reported only.
"""
import json
import os
import random
import sys

sys.path.insert(0, os.path.dirname(os.path.dirname(os.path.dirname(os.path.abspath(__file__)))))
from harness import common as C  # noqa: E402
from harness import mux as M  # noqa: E402
from harness import muxgen as G  # noqa: E402
from harness import muxcheck as MC  # noqa: E402

PROP = 'C01'
I = M.I
fn = M.fn
NONE = M.NONE
MUX_ONLY = ('distinct', 'lag', 'pad_start', 'pad_end', 'start_with', 'ignore', 'errmap', 'router')
COMPLETION = ('last', 'to_list', 'to_array', 'batch')
UNMODELED = ('variance', 'stddev', 'fvariance', 'fstddev')
PRECOND_ERRORS = ('SequenceContainsNoElementsError', 'ZeroDivisionError')


def completion_triggered(op):
    return op['op'] in COMPLETION or op.get('reduce') is True or \
        (op['op'] == 'scan' and op['term']['n'] != 'none')


def dual_choices(kind):
    out = [(d, k) for (d, k) in G._prim_choices(kind) if d['op'] not in MUX_ONLY]
    if kind == 'int':
        for o in UNMODELED:
            for r in (False, True):
                out.append(({'op': o, 'f': fn('id'), 'reduce': r}, 'any'))
        out.append((G.op_simple('assert', p=fn('ltc', 1000)), 'int'))
        out.append((G.op_simple('assert1', p=fn('true')), 'int'))
        out.append((G.op_simple('progress'), 'int'))
        out.append((G.op_agg('mean', True), 'any'))
    return out


def contains_take(pipe):
    return any(op['op'] in ('take', 'first') or
               (op['op'] == 'tee' and any(contains_take(b) for b in op['branches'])) for op in pipe)


def gen_dual(rng, kind, length, tee_depth, in_branch=False):
    pipe = []
    after_take = False
    for _ in range(length):
        if tee_depth > 0 and rng.random() < 0.3 and not (in_branch and after_take):
            nb = rng.choice([2, 2, 3])
            brs, kinds = [], []
            for _b in range(nb):
                b, k = gen_dual(rng, kind, rng.choice([0, 1, 1, 2, 3]), tee_depth - 1, True)
                brs.append(b)
                kinds.append(k)
            join = rng.choice(['merge', 'zip', 'combine_latest'])
            pipe.append(G.op_tee(join, brs))
            kind = 'any' if join != 'merge' or len(set(kinds)) > 1 else kinds[0]
            if any(contains_take(b) for b in brs):
                # a nested tee_map whose branches end early may itself end early on a plain
                # observable: the precondition about take/first applies behind it as well
                after_take = True
            continue
        ch = dual_choices(kind)
        if in_branch and after_take:
            ch = [(d, k) for (d, k) in ch if not completion_triggered(d)]
        d, kind = rng.choice(ch)
        pipe.append(d)
        if d['op'] in ('take', 'first'):
            after_take = True
    return pipe, kind


def modeled(pipe):
    for op in pipe:
        if op['op'] in UNMODELED:
            return False
        if op['op'] == 'tee' and not all(modeled(b) for b in op['branches']):
            return False
    return True


# ---------------------------------------------------------------- running both modes

def plain_group(pipe, items, complete=True, share=False, feedback=False):
    # one plain run out of three is made behind a store section (a function of the case, so
    # that a replay makes the same choice)
    import zlib
    behind = not feedback and zlib.crc32(json.dumps([pipe, items], sort_keys=True).encode()) % 3 == 0
    r = M.run_plain(pipe, items, complete=complete, share_ops=share, feedback=feedback, behind_store=behind)
    err_at = 0
    if r['end'] == 'error':
        err_at = max(1, min(r['endstep'], len(items)))
    return r, err_at


def pair_direct(rng, pipe, groups, share=False, tr=None, feedback=False):
    """groups: list of (idx, items); several groups may use the same key index one after
    the other (a key slot served again by a later group).  mux: events pushed directly,
    keys interleaved, taps at the two ends of the pipeline only."""
    if isinstance(groups, dict):
        groups = list(groups.items())
    if tr is None:
        src = G.schedule(rng, groups)
        tr = M.run_mux(pipe, src, taps='ends', share_ops=share, feedback='end' if feedback else None)
    tail = MC.log_of(tr, [len(pipe)])
    b0 = MC.log_of(tr, [0])
    died = tr['end']['t'] == 'error'
    # lifetimes at the source, in creation order per index
    life_of_event = {}
    count = {}
    cur = {}
    pushed = {}
    dead_life = None
    for e in b0:
        k = e['k'][0]
        if e['t'] == 'c':
            count[k] = count.get(k, 0) + 1
            cur[k] = (k, count[k])
        elif e['t'] == 'n':
            pushed[cur[k]] = pushed.get(cur[k], 0) + 1
            if died and e['o'] < tr['end']['o']:
                dead_life = cur[k]
    # lifetimes at the tail
    tcount, tcur, out_of = {}, {}, {}
    for e in tail:
        k = e['k'][0]
        if e['t'] == 'c':
            tcount[k] = tcount.get(k, 0) + 1
            tcur[k] = (k, tcount[k])
        elif e['t'] == 'n' and k in tcur:
            out_of.setdefault(tcur[k], []).append(e['v'])
    out = []
    seen = {}
    for idx, items in groups:
        seen[idx] = seen.get(idx, 0) + 1
        life = (idx, seen[idx])
        mux_items = out_of.get(life, [])
        if not died:
            pr, perr = plain_group(pipe, items, share=share, feedback=feedback)
            g = {'items': items, 'mux': mux_items, 'muxerr': 0, 'plain': [o['v'] for o in pr['out']],
                 'plainend': pr['end'], 'plainerr': perr, 'errtype': pr.get('errtype')}
        else:
            got = items[:pushed.get(life, 0)]
            completed = _completed_before_death(b0, tr['end']['o'], idx, seen[idx])
            pr, perr = plain_group(pipe, got, complete=completed, share=share)
            g = {'items': got, 'mux': mux_items, 'muxerr': pushed.get(life, 0) if life == dead_life else 0,
                 'plain': [o['v'] for o in pr['out']],
                 'plainend': 'completed' if pr['end'] == 'open' else pr['end'], 'plainerr': perr,
                 'errtype': pr.get('errtype')}
        out.append(g)
    return tr, out


def _completed_before_death(b0, dead_o, idx, nth):
    n = 0
    for e in b0:
        if e['k'][0] == idx and e['t'] == 'c':
            n += 1
        if e['k'][0] == idx and e['t'] == 'd' and n == nth:
            return e['o'] < dead_o
    return False


def pair_multi(rng, pipes, groups_per_source):
    """mux: every pipeline on one source of with_store(store, sources=[...]) (one shared store
    manager and topology), the events of the sources interleaved.  Returns, per source,
    (trace, group comparisons) as pair_direct does."""
    streams = [[(si, e) for e in G.schedule(rng, groups)] for si, groups in enumerate(groups_per_source)]
    schedule, pos = [], [0] * len(streams)
    while any(pos[i] < len(streams[i]) for i in range(len(streams))):
        i = rng.choice([j for j in range(len(streams)) if pos[j] < len(streams[j])])
        schedule.append(streams[i][pos[i]])
        pos[i] += 1
    trs = M.run_multi(pipes, schedule, taps='ends')
    return [pair_direct(rng, pipes[i], groups_per_source[i], tr=trs[i]) for i in range(len(pipes))], schedule


def pair_grouped(pipe, items, c, nested=False):
    """mux: plain source -> with_memory_store([group_by(x % c, P)]); nested: the groups are
    groups of groups (group_by(x % 2, [group_by(x % 3, P)])): several group maps alive at once"""
    if nested:
        gb = [G.op_group_by('modc', 2, [G.op_group_by('modc', 3, pipe)])]
        tr = M.run_src(gb, items)
        head = MC.log_of(tr, [1, 1, 1, 1, 0])
        tail = MC.log_of(tr, [1, 1, 1, 1, len(pipe)])
    else:
        gb = [G.op_group_by('modc', c, pipe)]
        tr = M.run_src(gb, items)
        head = MC.log_of(tr, [1, 1, 0])
        tail = MC.log_of(tr, [1, 1, len(pipe)])
    groups = {}
    for e in head:
        if e['t'] == 'n':
            groups.setdefault(e['k'][0], []).append(e['v'])
    out = []
    died = tr['end']['t'] == 'error'
    for child, its in groups.items():
        mux_items = [e['v'] for e in tail if e['t'] == 'n' and e['k'][0] == child]
        # the multiplexed stream may have died (an error reached a demultiplexer) while the
        # groups were being completed one after the other: a group is compared with a
        # completed plain run exactly when its own completion came before the death
        completed = not died or any(e['t'] == 'd' and e['k'][0] == child and e['o'] < tr['end']['o']
                                    for e in head)
        pr, perr = plain_group(pipe, its, complete=completed)
        errtype = pr.get('errtype')
        if died and not completed:
            # would the plain operator raise by design on this group (first/last/mean(reduce) of
            # an empty sequence)?  Then the case is outside C01, whatever killed the stream.
            errtype = errtype or plain_group(pipe, its, complete=True)[0].get('errtype')
        out.append({'items': its, 'mux': mux_items, 'muxerr': 0, 'plain': [o['v'] for o in pr['out']],
                    'plainend': 'completed' if (died and pr['end'] == 'open') else pr['end'],
                    'plainerr': perr, 'errtype': errtype})
    return tr, out, died


def main(tier, replay):
    C.use_repo()
    if replay:
        w = json.load(open(replay))['witness']
        pipe = json.loads(w['pipe'])
        if w.get('mode') == 'multi':
            gg = w['groups']
            res, _ = pair_multi(random.Random(w.get('sched_seed', 0)), gg['pipes'],
                                [[(g[0], g[1]) for g in gp] for gp in gg['gps']])
            tr, gs = res[gg['index']]
        elif w.get('mode') == 'grouped':
            gg = w['groups']
            tr, gs, _died = pair_grouped(pipe, gg['items'], gg['c'], nested=gg['nested'])
        else:
            groups = [(g[0], g[1]) for g in w['groups']]
            tr, gs = pair_direct(random.Random(w.get('sched_seed', 0)), pipe, groups, share=w.get('share_ops', False),
                                    feedback=w.get('feedback', False))
        if any(g.get('errtype') in PRECOND_ERRORS for g in gs) or tr['end'].get('etype') in PRECOND_ERRORS:
            print('outside C01: first/last/mean(reduce) met an empty group (the plain operator raises by design)')
            return 0
        v, _ = C.validate_traces('PlainTrace', [{'pipe': pipe, 'modeled': modeled(pipe) and not M._has_fl(w['groups']) and 'np' not in json.dumps(w['groups']), 'oracle': 'pair',
                                                 'groups': [{k: g[k] for k in g if k != 'errtype'}
                                                            for g in gs]}])
        print('pipeline:', ' '.join(MC.op_names(pipe)))
        for g in gs:
            print(' group items', g['items'], '\n   mux  ', g['mux'], 'err@', g['muxerr'],
                  '\n   plain', g['plain'], g['plainend'], 'err@', g['plainerr'])
        print('verdict:', v[0])
        if v[0][0] == 'REJECT':
            print('VIOLATION property=%s replay=%s clause=%s' % (PROP, replay, v[0][2]))
            return 1
        return 0
    V = C.Verdict(PROP, tier)
    thorough = tier == 'thorough'
    rng = random.Random(C.seed() * 1000003 + 1)

    # 1. design level -----------------------------------------------------------------
    cfgs = [dict(MaxLen=3, Depth=1, BranchLen=1)]
    if thorough:
        cfgs += [dict(MaxLen=3, Depth=1, BranchLen=2), dict(MaxLen=3, Depth=2, BranchLen=1)]

    def mc(c):
        return C.run_tlc('PlainCheck', C.cfg(constants=c, invariants=['MuxEqualsPlain', 'FlatAgrees']),
                         workers=8 if thorough else 4)

    def mc_needs_pre():
        return C.run_tlc('PlainCheck', C.cfg(constants=dict(MaxLen=3, Depth=1, BranchLen=2),
                                             invariants=['NeedsPre']), workers=4)
    rs_ = C.par([lambda c=c: mc(c) for c in cfgs] + [mc_needs_pre])
    mc_runs = []
    for c, r in zip(cfgs, rs_[:-1]):
        if r.violated:
            raise C.MachineryError('PlainCheck violates %s:\n%s' % (r.violated, r.error_trace))
        mc_runs.append({'module': 'PlainCheck', 'constants': c, **r.summary()})
    if rs_[-1].violated != 'NeedsPre':
        raise C.MachineryError('PlainCheck: the precondition is vacuous (NeedsPre not violated)')
    mc_runs.append({'module': 'PlainCheck', 'constants': 'NeedsPre (expected violation found)',
                    **rs_[-1].summary()})
    V.phase('model checking')

    # 2. both modes on the real code -----------------------------------------------------
    traces, mux_traces, skipped = [], [], 0
    n_cases = 2400 if thorough else 420
    meta = []
    for ci in range(n_cases):
        depth = rng.choice([1, 2, 3, 3, 4])
        pipe, _k = gen_dual(rng, 'int', depth, rng.choice([0, 1, 1, 2]))
        if ci % 3 == 2:
            c = rng.choice([2, 3])
            items = G.ints([rng.randint(0, 5) for _ in range(rng.randint(1, 12))])
            tr, gs, died = pair_grouped(pipe, items, c, nested=(ci % 6 == 5))
            mode = 'grouped'
            groups = {'items': items, 'c': c, 'nested': ci % 6 == 5}
        else:
            nk = rng.choice([1, 2, 3, 4])
            groups = []
            for idx in rng.sample([0, 1, 2, 5, 8], nk):
                for _ in range(rng.choice([1, 1, 2, 3])):     # later groups on the same key slot
                    groups.append((idx, G.ints([rng.randint(-1, 5) for _ in range(rng.randint(1, 7))])))
            sched_seed = rng.randint(0, 10**9)
            tr, gs = pair_direct(random.Random(sched_seed), pipe, groups)
            mode = 'direct'
        if any(g.get('errtype') in PRECOND_ERRORS for g in gs) or tr['end'].get('etype') in PRECOND_ERRORS:
            # first/last/mean(reduce) met an empty group: outside C01.  (On the multiplexed side
            # mean(reduce) of an empty key divides by zero, which kills the stream; the plain
            # run may not show it when something downstream had already completed.)
            skipped += 1
            continue
        traces.append({'pipe': pipe, 'modeled': modeled(pipe), 'oracle': 'pair',
                       'groups': [{k: g[k] for k in g if k != 'errtype'} for g in gs]})
        mux_traces.append(tr)
        meta.append({'mode': mode, 'groups': groups, 'sched_seed': sched_seed if mode == 'direct' else 0})
    # dedicated: failing assertions (fatal for the whole multiplexed stream)
    for _ in range(60 if thorough else 16):
        a = rng.choice([G.op_simple('assert', p=fn('ltc', 4)), G.op_simple('assert1', p=fn('le'))])
        pre = rng.choice([[], [G.op_map('addc', 1)], [G.op_filter('gec', 1)]])
        post = rng.choice([[], [G.op_scan('add', I(0))], [{'op': 'count', 'reduce': False}]])
        pipe = pre + [a] + post
        groups = [(idx, G.ints([rng.randint(0, 4) for _ in range(rng.randint(1, 6))]))
                  for idx in rng.sample([0, 1, 3], rng.choice([1, 2, 3]))]
        sched_seed = rng.randint(0, 10**9)
        tr, gs = pair_direct(random.Random(sched_seed), pipe, groups)
        traces.append({'pipe': pipe, 'modeled': True, 'oracle': 'pair',
                       'groups': [{k: g[k] for k in g if k != 'errtype'} for g in gs]})
        mux_traces.append(tr)
        meta.append({'mode': 'direct', 'groups': groups, 'sched_seed': sched_seed})
    # dedicated: re-entrant delivery (the subscriber pushes the next item from inside on_next),
    # in both modes; operators that give at most one output per item, as their last action.
    # (Not `first`: the plain RxPY operator emits and only then completes, so under re-entrant
    # delivery it is the plain side that lets every nested item through.)
    fb_ops = [G.op_scan('add', I(0)), {'op': 'count', 'reduce': False}, G.op_agg('sum', False), G.op_agg('max', False),
              G.op_simple('duc', f=fn('id')), G.op_simple('take', n=2), G.op_map('addc', 1),
              G.op_filter('even'), G.op_simple('last'), G.op_simple('to_list'), G.op_agg('mean', False)]
    for _ in range(100 if thorough else 30):
        pipe = [rng.choice(fb_ops) for _ in range(rng.choice([1, 1, 2, 3]))]
        if any(completion_triggered(o) or o['op'] in ('mean', 'sum') for o in pipe[:-1]) or \
                pipe[-1]['op'] in ('last', 'to_list') and len(pipe) > 1:
            # sum / mean give floats: behind them an integer-seeded scan would leave the seed's type
            # (precondition of C01), and the integer aggregates of the model do not take rationals
            pipe = pipe[-1:]
        groups = [(idx, G.ints([rng.randint(0, 4) for _ in range(rng.randint(1, 6))]))
                  for idx in rng.sample([0, 1, 3], rng.choice([1, 2]))]
        sched_seed = rng.randint(0, 10**9)
        tr, gs = pair_direct(random.Random(sched_seed), pipe, groups, feedback=True)
        if any(g.get('errtype') in PRECOND_ERRORS for g in gs):
            skipped += 1
            continue
        traces.append({'pipe': pipe, 'modeled': modeled(pipe), 'oracle': 'pair',
                       'groups': [{k: g[k] for k in g if k != 'errtype'} for g in gs]})
        mux_traces.append(tr)
        meta.append({'mode': 'direct', 'groups': groups, 'sched_seed': sched_seed, 'feedback': True})
    # dedicated: the multi-source form of with_store (several pipelines on one shared store)
    for _ in range(60 if thorough else 16):
        k = rng.choice([2, 2, 3])
        pipes = [gen_dual(rng, 'int', rng.choice([1, 2]), rng.choice([0, 1]))[0] for _ in range(k)]
        gps = [[(idx, G.ints([rng.randint(-1, 4) for _ in range(rng.randint(1, 6))]))
                for idx in rng.sample([0, 1, 3], rng.choice([1, 2]))] for _ in range(k)]
        sched_seed = rng.randint(0, 10**9)
        res, _sched = pair_multi(random.Random(sched_seed), pipes, gps)
        for si, (tr, gs) in enumerate(res):
            if any(g.get('errtype') in PRECOND_ERRORS for g in gs) or tr['end'].get('etype') in PRECOND_ERRORS \
                    or tr['end'].get('raised'):
                skipped += 1
                continue
            traces.append({'pipe': pipes[si], 'modeled': modeled(pipes[si]), 'oracle': 'pair',
                           'groups': [{k_: g[k_] for k_ in g if k_ != 'errtype'} for g in gs]})
            mux_traces.append(tr)
            meta.append({'mode': 'multi', 'groups': {'pipes': pipes, 'gps': gps, 'index': si}, 'sched_seed': sched_seed})
    # dedicated: None as an item (a legitimate value that state slots must be able to hold)
    for _ in range(200 if thorough else 60):
        tailop = rng.choice([G.op_simple('duc', f=fn('id')), G.op_simple('last'), G.op_simple('last'),
                             G.op_simple('last'), G.op_simple('first'),
                             G.op_simple('take', n=2), G.op_simple('to_list'), {'op': 'count', 'reduce': True},
                             G.op_simple('batch', n=2), G.op_scan('last', NONE, seedfactory=True)])
        pipe = [G.op_map('noneIf', rng.choice([0, 1, 2]))] + \
            ([G.op_simple('duc', f=fn('id'))] if rng.random() < 0.4 else []) + [tailop]
        groups = [(idx, G.ints([rng.randint(0, 2) for _ in range(rng.randint(1, 4))]))
                  for idx in rng.sample([0, 1, 3], rng.choice([2, 3]))]
        sched_seed = rng.randint(0, 10**9)
        tr, gs = pair_direct(random.Random(sched_seed), pipe, groups)
        traces.append({'pipe': pipe, 'modeled': modeled(pipe), 'oracle': 'pair',
                       'groups': [{k: g[k] for k in g if k != 'errtype'} for g in gs]})
        mux_traces.append(tr)
        meta.append({'mode': 'direct', 'groups': groups, 'sched_seed': sched_seed})
    # dedicated: items that the value-agnostic operators must carry without looking at them:
    # falsy values, None, array-like objects whose == / != has no truth value
    agn = [G.op_simple('last'), G.op_simple('first'), G.op_simple('take', n=2), G.op_simple('to_list'),
           {'op': 'count', 'reduce': False}, G.op_simple('batch', n=2), {'op': 'identity'}, {'op': 'do_action'},
           G.op_tee('merge', [[], [G.op_simple('last')]]), G.op_tee('zip', [[], [{'op': 'count', 'reduce': False}]])]
    pool = [I(0), I(1), NONE, ['s', ''], ['l', []], ['o', 1], ['o', 2]]
    for _ in range(120 if thorough else 40):
        pipe = [rng.choice(agn)] + ([rng.choice(agn[:8])] if rng.random() < 0.4 else [])
        if pipe[0]['op'] in ('last', 'to_list', 'take', 'first') and len(pipe) > 1 and completion_triggered(pipe[1]):
            pipe = pipe[:1]
        groups = [(idx, [rng.choice(pool) for _ in range(rng.randint(1, 5))])
                  for idx in rng.sample([0, 1, 3], rng.choice([1, 2, 3]))]
        sched_seed = rng.randint(0, 10**9)
        tr, gs = pair_direct(random.Random(sched_seed), pipe, groups)
        if any(g.get('errtype') in PRECOND_ERRORS for g in gs):
            skipped += 1
            continue
        traces.append({'pipe': pipe, 'modeled': modeled(pipe), 'oracle': 'pair',
                       'groups': [{k: g[k] for k in g if k != 'errtype'} for g in gs]})
        mux_traces.append(tr)
        meta.append({'mode': 'direct', 'groups': groups, 'sched_seed': sched_seed})
    # dedicated: numpy scalars as items (samples taken from an array): comparisons between them
    # return numpy.bool_, truthy / falsy but not the objects True / False
    npool = [['np', 'float64', ['q', 1, 4]], ['np', 'float64', I(0)], ['np', 'float64', ['q', 1, 2]],
             ['np', 'int64', I(1)], ['np', 'int64', I(2)], ['np', 'int64', I(0)]]
    nops = [[G.op_simple('duc', f=fn('id'))], [G.op_simple('duc', f=fn('id')), {'op': 'count', 'reduce': False}],
            [G.op_simple('last')], [G.op_agg('max', True)],
            [G.op_simple('take', n=2)], [G.op_filter('true'), G.op_simple('duc', f=fn('id'))]]
    for _ in range(80 if thorough else 30):
        pipe = rng.choice(nops)
        kind = rng.choice(['float64', 'int64'])
        pool = [v for v in npool if v[1] == kind]
        groups = [(idx, [rng.choice(pool) for _ in range(rng.randint(1, 7))])
                  for idx in rng.sample([0, 1, 4], rng.choice([1, 2, 3]))]
        sched_seed = rng.randint(0, 10**9)
        tr, gs = pair_direct(random.Random(sched_seed), pipe, groups)
        if any(g.get('errtype') in PRECOND_ERRORS for g in gs):
            skipped += 1
            continue
        traces.append({'pipe': pipe, 'modeled': False, 'oracle': 'pair',
                       'groups': [{k: g[k] for k in g if k != 'errtype'} for g in gs]})
        mux_traces.append(tr)
        meta.append({'mode': 'direct', 'groups': groups, 'sched_seed': sched_seed})
    # dedicated: floats whose sums are not representable, of differing magnitude, on interleaved
    # keys: the two modes fold the same items in the same order - equal to the last bit
    FL = [0.1, 0.2, 4.7, 1e8 + 0.3, 123456.789, -0.07, 3.3, 1e-3, 2.5e7 + 0.11, 0.30000000000000004, 7.0]
    faggs = [[G.op_agg('sum', False)], [G.op_agg('sum', True)], [G.op_agg('mean', False)],
             [G.op_scan('add', ['fl', (0.5).hex()])],       # (a float seed: scan types its state after the seed)
             [G.op_agg('max', True)], [G.op_tee('zip', [[G.op_agg('sum', False)], [{'op': 'count', 'reduce': False}]])],
             [G.op_agg('sum', False), G.op_agg('sum', False)]]
    for _ in range(120 if thorough else 40):
        pipe = rng.choice(faggs)
        groups = []
        for idx in rng.sample([0, 1, 4], rng.choice([2, 3])):
            for _g in range(rng.choice([1, 2])):
                groups.append((idx, [['fl', rng.choice(FL).hex()] for _ in range(rng.randint(1, 8))]))
        sched_seed = rng.randint(0, 10**9)
        tr, gs = pair_direct(random.Random(sched_seed), pipe, groups)
        traces.append({'pipe': pipe, 'modeled': False, 'oracle': 'pair',
                       'groups': [{k: g[k] for k in g if k != 'errtype'} for g in gs]})
        mux_traces.append(tr)
        meta.append({'mode': 'direct', 'groups': groups, 'sched_seed': sched_seed})
    # dedicated: one python operator object used at several positions of the pipeline
    # (operators are factories; composition must not care)
    streaming = [(d, k) for (d, k) in dual_choices('int') if k == 'int' and not completion_triggered(d)]
    for _ in range(160 if thorough else 40):
        d = rng.choice(streaming)[0]
        shape = rng.random()
        join = rng.choice(['merge', 'zip', 'combine_latest'])
        if shape < 0.3:
            pipe = [d, rng.choice(streaming)[0], d] if rng.random() < 0.5 else [d, d]
        elif shape < 0.6:
            br = [d] + ([rng.choice(streaming)[0]] if rng.random() < 0.5 else [])
            pipe = [G.op_tee(join, [br, list(br)] + ([list(br)] if rng.random() < 0.3 else []))]
        else:
            pipe = [G.op_tee('merge', [[rng.choice(streaming)[0], d], [d]]), d]
        groups = []
        for idx in rng.sample([0, 1, 4], rng.choice([1, 2, 3])):
            for _g in range(rng.choice([1, 2])):
                groups.append((idx, G.ints([rng.randint(-1, 5) for _ in range(rng.randint(1, 8))])))
        sched_seed = rng.randint(0, 10**9)
        tr, gs = pair_direct(random.Random(sched_seed), pipe, groups, share=True)
        if any(g.get('errtype') in PRECOND_ERRORS for g in gs):
            skipped += 1
            continue
        traces.append({'pipe': pipe, 'modeled': modeled(pipe), 'oracle': 'pair',
                       'groups': [{k: g[k] for k in g if k != 'errtype'} for g in gs]})
        mux_traces.append(tr)
        meta.append({'mode': 'direct', 'groups': groups, 'sched_seed': sched_seed, 'share_ops': True})
    V.phase('real executions (both modes)')

    verdicts, st = C.validate_traces('PlainTrace', traces)
    out_of_sync = 0
    oos_samples = []
    for tr, mt, v in zip(traces, meta, verdicts):
        if v[0] == 'ACCEPT':
            if v[2] is not True:
                out_of_sync += 1
                oos_samples.append({'ops': ' '.join(MC.op_names(tr['pipe'])), 'mode': mt['mode'],
                                    'feedback': mt.get('feedback', False), 'groups': tr['groups'][:2]})
        else:
            g = tr['groups'][v[1] - 1]
            V.violation({'ops': ' '.join(MC.op_names(tr['pipe'])), 'pipe': json.dumps(tr['pipe'], sort_keys=True),
                         'mode': mt['mode'], 'groups': mt['groups'], 'sched_seed': mt['sched_seed'],
                         'share_ops': mt.get('share_ops', False), 'feedback': mt.get('feedback', False),
                         'group': g}, v[2], detail='group %d' % v[1])
    # localisation only: the multiplexed side against the layer-A contracts
    st2 = {}

    class _Quiet:
        def violation(self, *a, **k):
            pass
    MC.judge(_Quiet(), [{'pipe': t['pipe'], 'mode': t['mode'], 'src': t['src']} for t in mux_traces[:0]],
             lambda n: False, st2)
    V.phase('trace validation')
    if out_of_sync:
        V.note('impl_model_in_sync=false: %d accepted pairs differ from PlainSem in one of the modes '
               '(both modes agree with each other, which is what C01 states)' % out_of_sync
               + ' e.g. ' + json.dumps(oos_samples[:1])[:600])
    nontrivial = {json.dumps([t['pipe'], [g['items'] for g in t['groups']]], sort_keys=True)
                  for t in traces if len(t['groups']) >= 2 and len(t['pipe']) >= 2}
    sample = next((t for t in traces if len(t['groups']) >= 2 and len(t['pipe']) >= 3), traces[0])
    coverage = {
        'states': sum(m['states'] for m in mc_runs) + st['states'],
        'transitions': sum(m['transitions'] for m in mc_runs) + st['transitions'],
        'traces_validated_against_impl': len(traces),
        'samples': [{'pipeline': ' '.join(MC.op_names(sample['pipe'])), 'groups': sample['groups'][:3]}],
        'exhaustive': False,
        'distinct_nontrivial': len(nontrivial),
        'rule': 'a pair is non-trivial when the pipeline has >= 2 operators and >= 2 groups are '
                'interleaved; distinct by (pipeline, group items)',
        'model_checking_runs': mc_runs,
        'trace_validation': st,
        'pipelines_depth_ge_3': sum(1 for t in traces if len(t['pipe']) >= 3),
        'pipelines_with_tee': sum(1 for t in traces if any(o['op'] == 'tee' for o in t['pipe'])),
        'cases_outside_precondition_skipped': skipped,
        'group_executions_compared': sum(len(t['groups']) for t in traces),
        'impl_model_in_sync': out_of_sync == 0,
    }
    return V.finish('model_checking', coverage, assumptions=[
        'preconditions of C01 are enforced by the pipeline grammar (typed seeds; no completion-'
        'triggered operator after take/first inside a tee branch) or detected dynamically '
        '(first/last/mean(reduce) on a group emptied by a filter: the plain operator raises by '
        'design, the case is skipped and counted)',
        'user functions come from the finite library FnLib; floats produced by variance/stddev are '
        'compared by repr between the two modes (no specification value)',
        'TLC, the Json module and rx Subjects are trusted'])


if __name__ == '__main__':
    C.main_wrapper(main)
