"""C14  Memory state store behaves as an isolated per-index typed map.

 1. TLC model-checks Store.tla - the transcription of MemoryStore (arrays, growth loop,
    markers, typed cells, default, mapper dicts and allocator) running in lock-step with
    a dictionary model - one configuration per data type x default/no default, indices
    0..3, 2 values, every call history up to the bound (quick: <= 6 calls; thorough: <= 7
    calls with two key tails, <= 8 with one, and the complete reachable state space of
    the value stores without history bound): RetEqualsModel, Isolation, ReAddFresh,
    Refines, AllocatorFresh, DeclaredType, GrowthCleared.
 2. TLC generates call histories (exhaustive at tiny bounds, simulation beyond); each is
    replayed on a real rxsci.state.MemoryStore and through StoreManager + StateTopology
    with the recording store of harness/c14_recstore.py.
 3. The harness adds random in-contract call sequences (indices up to 2000: sparse,
    descending, repeated; all data types; with/without default) and the store calls
    recorded under real pipelines (roll, group_by, nested group_by, scan, lag ...).
 4. Every recorded call sequence is validated by TLC against StoreTrace.tla: the
    observed return value of every call must agree with the dictionary model (REJECT
    clause = the name of the call).  Array contents are never compared.
"""
import os
import random
import sys

sys.path.insert(0, os.path.dirname(os.path.dirname(os.path.dirname(os.path.abspath(__file__)))))
from harness import common as C  # noqa: E402
from harness import c14_recstore as RS  # noqa: E402

PROP = 'C14'
DTS = ['int', 'uint', 'float', 'bool', 'obj', 'mapper']
TRACE_CFG = dict(Indices=set(), Tails=set(), MapKeys=set(), IntVals=set(), DataTypes=set(),
                 Defaults=set(), MaxSteps=0, CountSteps=False, KeepHist=False)
INVARIANTS = ['TypeOK', 'RetEqualsModel', 'ReAddFresh', 'Refines', 'AllocatorFresh',
              'DeclaredType', 'GrowLoopIsExtend']
PROPERTIES = ['Isolation', 'GrowthCleared']
COMMON_ACTIONS = ['AddKey', 'DelKey', 'Clear', 'IsCleared', 'IsSet', 'Iterate']
VALUE_ACTIONS = ['Get', 'Set']
MAP_ACTIONS = ['AddMap', 'GetMap', 'DelMap', 'IterateMap']
JVM = ('-Xss64m',)       # the growth loop is a recursive operator (indices up to 2000)
READS = ('get', 'iterate', 'get_map', 'iterate_map', 'is_set', 'is_cleared', 'del_map')


_TOK = None


def extract_spans(stdout, tag):
    """The text of every value printed with PrintT(<<tag, ...>>).  (C.extract_printed does not
    find values that TLC pretty-prints over several lines: `<< "BEH",` has a blank after the
    bracket.)  Parsing is left to the caller: only a sample is replayed."""
    import re
    global _TOK
    _TOK = _TOK or re.compile(r'"(?:[^"\\]|\\.)*"|<<|>>')
    out = []
    for m in re.finditer(r'<<\s*"%s"' % tag, stdout):
        depth = 0
        for t in _TOK.finditer(stdout, m.start()):
            if t.group(0) == '<<':
                depth += 1
            elif t.group(0) == '>>':
                depth -= 1
                if depth == 0:
                    out.append(stdout[m.start():t.end()])
                    break
    return out


# ---------------------------------------------------------------- python-level calls
# a call is a dict(op=..., key=<tuple>|None, value=..., mk=...)

class _Flag(int):
    """a strict subclass of int: still an object state (only int itself is a typed array)"""


class _Celsius(float):
    pass


def data_type_of(dtn, variant=0):
    import builtins
    if dtn == 'obj':
        import enum
        perm = enum.IntFlag('Perm', 'R W X')
        return ['obj', list, str, dict, type(None), object, 'anything', _Flag, _Celsius, perm][variant % 10]
    return {'int': int, 'uint': 'uint', 'float': float, 'bool': bool, 'mapper': 'mapper'}[dtn]


def drive(api, calls, enc, notset):
    """Apply python-level calls to `api` (the 12 MemoryStore methods); return the encoded
    call records (trace format of StoreTrace)."""
    out = []
    for c in calls:
        op = c['op']
        if op in ('iterate', 'clear'):
            e = RS.new_call(op)
        else:
            i, k = enc.key(c['key'])
            e = RS.new_call(op, i, k)
        if op == 'set':
            e['a'] = enc.value(c['value'])
        if op in ('add_map', 'get_map', 'del_map'):
            e['mk'] = enc.mapkey(c['mk'])
        try:
            if op == 'iterate':
                e['rl'] = [enc.iter_entry(x) for x in api.iterate()]
                e['r'] = {'t': RS.LIST, 'v': len(e['rl'])}
            elif op == 'iterate_map':
                e['rl'] = [enc.mapkey(x) for x in api.iterate_map(c['key'])]
                e['r'] = {'t': RS.LIST, 'v': len(e['rl'])}
            elif op == 'clear':
                e['r'] = enc.result(api.clear(), notset)
            elif op == 'set':
                e['r'] = enc.result(api.set(c['key'], c['value']), notset)
            elif op in ('add_map', 'get_map', 'del_map'):
                e['r'] = enc.result(getattr(api, op)(c['key'], c['mk']), notset, 'index')
            elif op in ('get', 'is_set', 'is_cleared'):
                e['r'] = enc.result(getattr(api, op)(c['key']), notset, 'value')
            else:
                e['r'] = enc.result(getattr(api, op)(c['key']), notset)
        except Exception as ex:     # an exception is an observable result of the call
            e['r'] = {'t': 'raised:%s' % type(ex).__name__, 'v': 0}
            e['rl'] = []
        out.append(e)
    return out


class ManagerApi(object):
    """the same 12 methods, through StoreManager (state id) where it exposes them"""

    def __init__(self, mgr, sid):
        self.mgr, self.sid = mgr, sid

    def _raw(self):
        return self.mgr.get_store().states[self.sid]

    def add_key(self, key): return self.mgr.add_key(self.sid, key)
    def del_key(self, key): return self.mgr.del_key(self.sid, key)
    def set(self, key, value): return self.mgr.set_state(self.sid, key, value)
    def get(self, key): return self.mgr.get_state(self.sid, key)
    def iterate(self): return self.mgr.iterate_state(self.sid)
    def add_map(self, key, mk): return self.mgr.add_map(self.sid, key, mk)
    def get_map(self, key, mk): return self.mgr.get_map(self.sid, key, mk)
    def del_map(self, key, mk): return self.mgr.del_map(self.sid, key, mk)
    def iterate_map(self, key): return self.mgr.iterate_map(self.sid, key)
    def is_set(self, key): return self._raw().is_set(key)
    def is_cleared(self, key): return self._raw().is_cleared(key)
    def clear(self): return self._raw().clear()


def run_direct(dtn, data_type, default, calls):
    """the call sequence on a plain rxsci.state.MemoryStore"""
    import rxsci.state as st
    enc = RS.Encoder(mapper=dtn == 'mapper')
    dflt = dict(RS.NONE) if default is None else enc.value(default)
    store = st.MemoryStore(name='direct', data_type=data_type, default_value=default)
    return {'dt': dtn, 'dflt': dflt, 'calls': drive(store, calls, enc, st.markers.STATE_NOTSET)}


WRAPPER_DIFFERS = [0]


def run_manager(dtn, data_type, default, calls):
    """the call sequence through StoreManager + StateTopology with the recording store;
    the recorder's log must be identical to what the driver saw"""
    import rxsci.state as st
    from rxsci.state.state_topology import StateTopology
    log = RS.StoreLog()
    mgr = st.StoreManager(store_factory=RS.RecordingStore.factory(log))
    enc = RS.Encoder(mapper=dtn == 'mapper')
    dflt = dict(RS.NONE) if default is None else enc.value(default)
    try:
        topo = StateTopology()
        topo.create_mapper('decoy')
        if dtn == 'mapper':
            sid = topo.create_mapper('target')
            if default is not None:     # create_mapper cannot pass a default: use create_state
                topo.states.pop()
                topo.ids['target'] -= 1
                sid = topo.create_state('target', 'mapper', default)
        else:
            sid = topo.create_state('target', data_type, default)     # the default given positionally
        topo.create_state('target', data_type if dtn != 'mapper' else int, default)
        mgr.set_topology(topo)
    except Exception as ex:
        # declaring the states failed: every call of the sequence is recorded as raising, so
        # that the specification rejects the sequence at its first call
        class _Broken(object):
            def __getattr__(self, name):
                def f(*a, **k):
                    raise ex
                return f
        return {'dt': dtn, 'dflt': dflt, 'calls': drive(_Broken(), calls, enc, st.markers.STATE_NOTSET)}
    seen = drive(ManagerApi(mgr, sid), calls, enc, st.markers.STATE_NOTSET)
    traces = RS.to_traces(log)
    if calls:
        rec = traces[sid]
        # The recorder sits below the Store wrapper: its log normally equals what the driver
        # saw.  A wrapper is free to make further calls of its own (a read before a write,
        # a cache ...), so a difference is recorded, not judged: the calls the *user* made and
        # their results (`seen`) are what the specification is checked against.
        if rec['calls'] != seen or rec['dt'] != dtn or rec['dflt'] != dflt:
            WRAPPER_DIFFERS[0] += 1
        if any(t['calls'] for j, t in enumerate(traces) if j != sid):
            WRAPPER_DIFFERS[0] += 1      # judged through what the user's calls returned
    return {'dt': dtn, 'dflt': dflt, 'calls': seen}


# ---------------------------------------------------------------- TLC behaviours -> calls

def py_value(tv):
    t, v = tv['t'], tv['v']
    if t == 'none':
        return None
    if t == 'bool':
        return bool(v)
    if t == 'str':
        return 's%d' % v
    return int(v)


def beh_calls(hist):
    calls = []
    for h in hist:
        c = {'op': h['op'], 'key': None, 'value': None, 'mk': None}
        if h['op'] not in ('iterate', 'clear'):
            c['key'] = (h['i'], (h['k'],))
        if h['op'] == 'set':
            c['value'] = py_value(h['a'])
        if h['mk'] >= 0:
            c['mk'] = 'mk%d' % h['mk']
        calls.append(c)
    return calls


# ---------------------------------------------------------------- random call sequences

def gen_random(rng, big):
    """an in-contract call sequence far beyond the model bounds"""
    dtn = rng.choice(DTS)
    data_type = data_type_of(dtn, rng.randrange(10))
    defaults = {'int': [0, -1, 7], 'uint': [0, 5], 'float': [0.0, -1.0, 2], 'bool': [False, True],
                'obj': [0, '', [], 'seed', (0,), dict, len, _Celsius], 'mapper': [5, 'ignored']}[dtn]   # (callables are values too)
    default = rng.choice(defaults) if rng.random() < 0.5 else None
    style = rng.choice(['small', 'sparse', 'descending', 'mixed'])
    top = 2000 if big else 60
    if style == 'small':
        pool = list(range(rng.randint(1, 5)))
    else:
        pool = sorted(rng.sample(range(top + 1), rng.randint(2, 7)), reverse=True)
        if style == 'mixed':
            pool += [0, 1]
            rng.shuffle(pool)
    shared = [[1], {'x': 1}, object()]

    def value():
        if dtn == 'int':
            return rng.choice([0, 1, -1, 2, rng.randint(-2 ** 62, 2 ** 62), 2 ** 63 - 1, -2 ** 63])
        if dtn == 'uint':
            return rng.choice([0, 1, 2, rng.randint(0, 2 ** 63), 2 ** 64 - 1])
        if dtn == 'float':
            return rng.choice([0.0, 1.0, -1.5, rng.random() * 1e6, float('inf'), float('nan'),
                               3, -0.0, 1e308, rng.randint(-2 ** 50, 2 ** 50)])
        if dtn == 'bool':
            return rng.choice([True, False])
        if isinstance(data_type, type) and issubclass(data_type, (int, float)) and rng.random() < 0.8:
            # the declared type is a subclass of a numeric type: values of that very type
            return data_type(rng.choice([1, 2, 3, 4, 6, 7]))
        return rng.choice([None, 0, 1, 'a', '', (1, 2), 2.5, True, False, -7, b'x']
                          + shared + [[rng.randint(0, 3)]])

    def key(i):
        return rng.choice([(i, (0,)), (i, (1, (0,))), (i, (i, (0,))), (i,)])

    def mapkey():
        return rng.choice([0, 1, 2, 'a', 'b', (1, 'a'), 1.0, True, None, -5, 'k%d' % rng.randint(0, 4)])

    live, hi, calls = set(), 0, []
    if style == 'descending':
        for i in pool:
            calls.append({'op': 'add_key', 'key': key(i)})
            live.add(i)
            hi = max(hi, i + 1)
    nsteps = rng.randint(15, 50)
    for _ in range(nsteps):
        ops = ['add_key'] * 3 + ['iterate', 'is_set', 'is_cleared', 'del_key']
        if dtn == 'mapper':
            ops += ['add_map'] * 3 + ['get_map'] * 3 + ['iterate_map'] * 2 + ['del_map']
        else:
            ops += ['set'] * 4 + ['get'] * 4
        if rng.random() < 0.02:
            ops = ['clear']
        op = rng.choice(ops)
        if op in ('set', 'get', 'del_key', 'add_map', 'get_map', 'del_map', 'iterate_map') and not live:
            op = 'add_key'
        if op in ('is_set', 'is_cleared') and hi == 0:
            op = 'add_key'
        c = {'op': op}
        if op == 'add_key':
            i = rng.choice(pool)
            live.add(i)
            hi = max(hi, i + 1)
            c['key'] = key(i)
        elif op == 'clear':
            live, hi = set(), 0
        elif op in ('is_set', 'is_cleared'):
            i = rng.choice([rng.choice(pool), rng.randrange(hi), hi - 1])
            if i >= hi:
                i = rng.randrange(hi)
            c['key'] = key(i)
        elif op != 'iterate':
            i = rng.choice(sorted(live))
            c['key'] = key(i)
            if op == 'del_key':
                live.discard(i)
            if op == 'set':
                c['value'] = value()
            if op in ('add_map', 'get_map', 'del_map'):
                c['mk'] = mapkey()
        calls.append(c)
        if op == 'set' and dtn == 'obj' and type(c['value']) in (int, bool, float) and rng.random() < 0.5:
            # overwrite with an equal value of another type (1 == True == 1.0), read it back
            v = c['value']
            alt = [t(v) for t in (int, bool, float) if t is not type(v) and t(v) == v]
            if alt:
                calls.append({'op': 'set', 'key': c['key'], 'value': rng.choice(alt)})
                calls.append({'op': 'get', 'key': c['key']})
    return dtn, data_type, default, calls


def random_case(seed_n, big):
    return gen_random(random.Random(C.seed() * 104729 + seed_n), big)


def gen_churn(rng):
    """a long history, as windows under a group_by produce it: many indices are created,
    a long run of low indices is deleted while higher ones stay live, then low indices
    come back; what the live ones hold must not move"""
    dtn = rng.choice(DTS)
    data_type = data_type_of(dtn)
    default = {'int': 0, 'uint': 0, 'float': 0.0, 'bool': False, 'obj': None, 'mapper': None}[dtn] \
        if rng.random() < 0.5 else None
    n = rng.randint(70, 150) if rng.random() < 0.6 else rng.randint(258, 420)     # (dense growth past 256 slots)

    def key(i):
        return (i, (0,))

    def write(i, gen):
        if dtn == 'mapper':
            return {'op': 'add_map', 'key': key(i), 'mk': 'k%d' % ((i + gen) % 5)}
        v = {'int': i * 3 + gen, 'uint': i * 3 + gen, 'float': i + gen / 4, 'bool': (i + gen) % 2 == 0,
             'obj': ('v', i, gen)}[dtn]
        return {'op': 'set', 'key': key(i), 'value': v}

    def read(i):
        if dtn == 'mapper':
            return [{'op': 'iterate_map', 'key': key(i)}, {'op': 'get_map', 'key': key(i), 'mk': 'k%d' % (i % 5)}]
        return [{'op': 'get', 'key': key(i)}, {'op': 'is_set', 'key': key(i)}]
    calls = []
    order = list(range(n))
    if rng.random() < 0.3:
        order.reverse()
    for i in order:
        calls.append({'op': 'add_key', 'key': key(i)})
        if rng.random() < 0.8:
            calls.append(write(i, 0))
    m = rng.randint(64, n - 2)
    dead = list(range(m))
    if rng.random() < 0.5:
        rng.shuffle(dead)
    for i in dead:
        calls.append({'op': 'del_key', 'key': key(i)})
    live = list(range(m, n))
    for i in rng.sample(live, min(len(live), 4)):
        calls += read(i)
    for g in range(1, rng.randint(2, 6)):
        j = rng.choice([0, 1, rng.randrange(m), m - 1])
        calls.append({'op': 'add_key', 'key': key(j)})
        calls += read(j)
        calls.append(write(j, g))
        calls += read(j)
        for i in rng.sample(live, min(len(live), 3)) + [live[0], live[-1]]:
            calls += read(i)
        calls.append({'op': 'iterate'})
        if rng.random() < 0.5:
            calls.append({'op': 'is_cleared', 'key': key(rng.randrange(n))})
        if rng.random() < 0.5:
            calls.append({'op': 'del_key', 'key': key(j)})
    return dtn, data_type, default, calls


def churn_case(seed_n):
    return gen_churn(random.Random(C.seed() * 7919 + seed_n))


# ---------------------------------------------------------------- real pipelines

def pipelines():
    import rx
    import rxsci as rs

    def p_roll(store):
        return rx.from_(range(10)).pipe(rs.state.with_store(store, [
            rs.data.roll(3, 2, [rs.ops.count(reduce=True)])]))

    def p_group(store):
        return rx.from_(range(12)).pipe(rs.state.with_store(store, [
            rs.ops.group_by(lambda i: i % 3, [rs.math.sum(reduce=True)])]))

    def p_group_roll(store):
        return rx.from_(range(14)).pipe(rs.state.with_store(store, [
            rs.ops.group_by(lambda i: i % 2, [
                rs.data.roll(2, 2, [rs.math.mean(reduce=True)])])]))

    def p_group_group(store):
        return rx.from_(['ab', 'ac', 'ba', 'ab', 'bb', 'ca', 'ab']).pipe(rs.state.with_store(store, [
            rs.ops.group_by(lambda s: s[0], [
                rs.ops.group_by(lambda s: s[1], [rs.ops.count(reduce=True)])])]))

    def p_distinct_lag(store):
        return rx.from_([1, 1, 2, 2, 3, 1, 1, 4]).pipe(rs.state.with_store(store, [
            rs.ops.distinct_until_changed(),
            rs.data.lag(1),
            rs.ops.scan(lambda acc, i: acc + [i], seed=list)]))

    fixed = [('roll(3,2,count)', p_roll), ('group_by(i%3,sum)', p_group),
             ('group_by(i%2,roll(2,2,mean))', p_group_roll),
             ('group_by(group_by(count))', p_group_group),
             ('distinct_until_changed|lag|scan', p_distinct_lag)]
    # random well-typed nested pipelines from the multiplexed-stream checks' grammar: the
    # store traffic of every stateful operator under key re-use (windows, segments, groups)
    import random
    from harness import mux as M
    from harness import muxgen as G
    from harness import muxcheck as MC
    rng = random.Random(C.seed() * 31 + 14)
    rnd = []
    for j in range(int(os.environ.get('C14_RANDOM_PIPES', '24'))):
        desc = G.gen_pipe(rng, 'int', rng.choice([1, 2, 3]), rng.choice([1, 2]))[0]
        items = [rng.randint(-2, 4) for _ in range(rng.randint(0, 14))]

        def build(store, desc=desc, items=items):
            ops = M.build(desc, None, [], {'routers': []})
            return rx.from_(items).pipe(rs.state.with_store(store, ops))
        rnd.append(('random#%d %s' % (j, ' '.join(MC.op_names(desc))), build))
    return fixed + rnd


def record_pipeline(name, build):
    import rxsci as rs
    log = RS.StoreLog()
    store = rs.state.StoreManager(store_factory=RS.RecordingStore.factory(log))
    out, err = [], []
    with C.quiet_stdout():
        try:
            build(store).subscribe(on_next=out.append, on_error=err.append)
        except Exception as e:      # the calls recorded up to here are judged all the same
            err.append('raised: %r' % e)
    traces = RS.to_traces(log)
    for t in traces:
        t['pipeline'] = name
    return traces, out, [repr(e) for e in err]


# ---------------------------------------------------------------- judging

def for_tlc(tr):
    return {'dt': tr['dt'], 'dflt': tr['dflt'], 'calls': tr['calls']}


def nontrivial(tr):
    """some read returns a stored value / mapping, or an index is added a second time"""
    added = set()
    for c in tr['calls']:
        if c['op'] == 'add_key':
            if c['i'] in added:
                return True
            added.add(c['i'])
        if c['op'] in ('get', 'get_map') and c['r']['t'] not in ('NOTSET', 'none'):
            return True
        if c['op'] in ('iterate', 'iterate_map') and c['rl']:
            return True
    return False


def validate(traces):
    """TLC judges every distinct recorded call sequence once"""
    uniq, order = {}, []
    for t in traces:
        key = C.json.dumps(for_tlc(t), sort_keys=True)
        if key not in uniq:
            uniq[key] = len(order)
            order.append(for_tlc(t))
        t['_u'] = uniq[key]
    order_ix = sorted(range(len(order)), key=lambda j: -len(order[j]['calls']))   # balance chunks
    nchunks = max(1, min(C.NCPU // 2, len(order) // 40))
    sched = [j for c in range(nchunks) for j in order_ix[c::nchunks]]
    verdicts, stats = C.validate_traces(
        'StoreTrace', [order[j] for j in sched], jvm=JVM, chunk=-(-len(sched) // nchunks),
        cfg_text=C.cfg(spec='TraceSpec', constants=TRACE_CFG, invariants=['TraceInvariants']))
    by_u = {j: v for j, v in zip(sched, verdicts)}
    stats['distinct_traces'] = len(order)
    return [by_u[t.pop('_u')] for t in traces], stats


def make_trace(gen):
    """re-create a recorded execution from its generator description (also for --replay)"""
    kind = gen['kind']
    if kind == 'beh':
        dtn = gen['dt']
        default = py_value(gen['dflt'])
        calls = beh_calls(gen['hist'])
        run = run_direct if gen['via'] == 'direct' else run_manager
        tr = run(dtn, data_type_of(dtn), default, calls)
    elif kind == 'random':
        dtn, data_type, default, calls = random_case(gen['n'], gen['big'])
        run = run_direct if gen['via'] == 'direct' else run_manager
        tr = run(dtn, data_type, default, calls)
        tr['py_calls'] = [repr(c) for c in calls]
        tr['data_type'] = repr(data_type)
        tr['default'] = repr(default)
    elif kind == 'churn':
        dtn, data_type, default, calls = churn_case(gen['n'])
        run = run_direct if gen['via'] == 'direct' else run_manager
        tr = run(dtn, data_type, default, calls)
        tr['py_calls'] = [repr(c) for c in calls]
        tr['data_type'] = repr(data_type)
        tr['default'] = repr(default)
    elif kind == 'pipeline':
        build = dict(pipelines())[gen['name']]
        traces, _, _ = record_pipeline(gen['name'], build)
        tr = traces[gen['sid']]
    else:
        raise C.MachineryError('unknown trace kind %r' % kind)
    tr['gen'] = gen
    return tr


def first_diff(tr, step):
    c = tr['calls'][step - 1] if 0 < step <= len(tr['calls']) else None
    return c


def do_replay(path):
    C.use_repo()
    w = C.json.load(open(path))['witness']
    tr = make_trace(w['gen'])
    (v,), _ = validate([tr])
    print('replay verdict:', v)
    print('store: data_type=%s default=%s (%s)' % (
        tr.get('data_type', tr['dt']), tr.get('default', tr['dflt']),
        {k: v for k, v in w['gen'].items() if k != 'hist'}))
    upto = v[1] if v[0] == 'REJECT' else len(tr['calls'])
    for j, c in enumerate(tr['calls'][:upto]):
        print('  %3d %-11s i=%-5s k=%s a=%s mk=%s -> %s %s' % (
            j + 1, c['op'], c['i'], c['k'], c['a'], c['mk'], c['r'], c['rl'] if c['rl'] else ''))
        if 'py_calls' in tr:
            print('        %s' % tr['py_calls'][j])
    if v[0] == 'REJECT':
        print('VIOLATION property=%s replay=%s clause=%s' % (PROP, path, v[2]))
        return 1
    return 0


# ---------------------------------------------------------------- the check

def main(tier, replay):
    if replay:
        return do_replay(replay)
    C.use_repo()
    V = C.Verdict(PROP, tier)
    thorough = tier == 'thorough'

    # 1. exhaustive model checking: one configuration per data type x default/no default
    jobs = []

    def job(dtn, defaults, steps, tails, indices={0, 1, 2, 3}, count=True, cov=True):
        jobs.append((dict(Indices=indices, Tails=tails, MapKeys={0, 1}, IntVals={1, 2},
                          DataTypes={dtn}, Defaults=defaults, MaxSteps=steps, CountSteps=count,
                          KeepHist=False), cov))
    for dtn in reversed(DTS):      # (the most expensive configurations first)
        with_default = {0, 1} if thorough and dtn not in ('obj', 'mapper') else {0}
        for defaults in ({99}, with_default):
            if not thorough:       # histories of <= 6 calls
                job(dtn, defaults, 6, {0}, {0, 1, 3} if dtn == 'mapper' else {0, 1, 2, 3})
            elif dtn != 'mapper':  # <= 7 calls with two key tails, <= 8 calls with one
                job(dtn, defaults, 7, {0, 1}, cov=False)   # (-coverage doubles the cost)
                job(dtn, defaults, 8, {0})
            else:                  # (the allocator makes the mapper state space much larger)
                job(dtn, defaults, 7, {0, 1}, {0, 1, 3}, cov=False)
                job(dtn, defaults, 8, {0}, cov=False)
                job(dtn, defaults, 6, {0})
    if thorough:     # the complete reachable state space of the value stores (no history bound)
        for dtn in DTS[:-1]:
            job(dtn, {99, 0}, 0, {0}, count=False, cov=False)

    def mc(j):
        const, cov = j
        return C.run_tlc('Store', C.cfg(constants=const, invariants=INVARIANTS,
                                        properties=PROPERTIES,
                                        constraints=['StepBound'] if const['CountSteps'] else []),
                         coverage=cov, workers=4 if thorough else 2)

    # 2. behaviour generation (runs concurrently with model checking)
    tiny = dict(Indices={0, 2}, Tails={0}, MapKeys={0}, IntVals={1}, MaxSteps=4 if thorough else 3,
                CountSteps=True, KeepHist=True)
    gens = [(dict(tiny, DataTypes=set(DTS), Defaults={99, 0, 1}), None)]
    if thorough:
        gens.append((dict(tiny, Indices={0, 1, 3}, MapKeys={0, 1}, MaxSteps=4, DataTypes={'mapper'},
                          Defaults={99}), None))
    nsim = 800 if thorough else 60
    simc = dict(Indices={0, 1, 2, 3}, Tails={0, 1}, MapKeys={0, 1}, IntVals={1, 2},
                DataTypes=set(DTS), Defaults={99, 0, 1, 2}, MaxSteps=14, CountSteps=True,
                KeepHist=True)
    gens.append((simc, nsim))
    gens.append((dict(simc, DataTypes={'mapper', 'bool'}, MaxSteps=20), nsim // 2))

    def gen(job):
        const, sim = job
        text = C.cfg(constants=const, invariants=['EmitBehaviour'], constraints=['StepBound'])
        if sim is None:
            r = C.run_tlc('Store', text, workers=2)
        else:
            r = C.run_tlc('Store', text, workers=1, simulate='num=%d' % sim,
                          depth=const['MaxSteps'] + 1, tlc_seed=C.seed() + 14)
        return extract_spans(r.stdout, 'BEH'), sim is None, const

    results = C.par([lambda c=c: mc(c) for c in jobs] + [lambda j=j: gen(j) for j in gens],
                    max_workers=8)
    mc_stats = [(const, r) for (const, _), r in zip(jobs, results[:len(jobs)])]
    never = {}
    for (const, cov), r in zip(jobs, results[:len(jobs)]):
        if r.violated:
            raise C.MachineryError('Store model violates %s with %s:\n%s'
                                   % (r.violated, const, r.error_trace))
        (dtn,) = const['DataTypes']
        for a in [] if not cov else COMMON_ACTIONS + (MAP_ACTIONS if dtn == 'mapper' else VALUE_ACTIONS):
            if a not in r.coverage:
                raise C.MachineryError('no coverage information for action %s' % a)
            if r.coverage[a][1] == 0:
                never.setdefault(a, []).append(dtn)
    V.phase('model checking + behaviour generation')

    rng_gen = random.Random(C.seed() + 1414)
    cap = 12000 if thorough else 900
    cap_sim = 4000 if thorough else 350
    behaviours = []
    gen_counts = []
    for (b, exhaustive, const) in results[len(jobs):]:
        n_all = len(b)
        # (the simulator also evaluates EmitBehaviour on every candidate successor of the
        #  last state: ~25 histories per simulated trace that differ in the last call)
        if len(b) > (cap if exhaustive else cap_sim):
            b = rng_gen.sample(b, cap if exhaustive else cap_sim)
        gen_counts.append({'data_types': sorted(const['DataTypes']), 'exhaustive': exhaustive,
                           'max_steps': const['MaxSteps'], 'generated': n_all, 'replayed': len(b)})
        behaviours += [C.parse_tla(x) for x in b]
        if n_all == 0:
            raise C.MachineryError('no behaviour generated for %s' % const)

    # 3. replay on the real store, random sequences, pipelines --------------------
    traces = []
    for b in behaviours:
        _, dtn, dflt, hist = b
        for via in ('direct', 'manager'):
            traces.append(make_trace({'kind': 'beh', 'via': via, 'dt': dtn, 'dflt': dflt,
                                      'hist': hist}))
    n_replayed = len(traces)
    nrand = 1200 if thorough else 220
    for n_r in range(nrand):
        traces.append(make_trace({'kind': 'random', 'via': 'direct' if n_r % 2 else 'manager',
                                  'n': n_r, 'big': n_r % 3 != 0}))
    for n_c in range(60 if thorough else 12):
        traces.append(make_trace({'kind': 'churn', 'via': 'direct' if n_c % 2 else 'manager', 'n': n_c}))
        nrand += 1
    n_random = nrand
    pipe_info = []
    for name, build in pipelines():
        ptraces, out, err = record_pipeline(name, build)
        pipe_info.append({'pipeline': name, 'states': [(t['name'], t['dt'], len(t['calls']))
                                                       for t in ptraces],
                          'items_out': len(out), 'errors': err})
        for t in ptraces:
            t['gen'] = {'kind': 'pipeline', 'name': name, 'sid': t['sid']}
            traces.append(t)
    n_pipeline = len(traces) - n_replayed - n_random
    V.phase('replay, random sequences, pipelines')

    # 4. validation by TLC --------------------------------------------------------
    verdicts, tstats = validate(traces)
    out_of_sync = 0
    interesting = set()
    ooc_notes = {}
    for tr, v in zip(traces, verdicts):
        kind = tr['gen']['kind']
        if v[0] == 'ACCEPT':
            _, nsteps, insync, ooc = v
            if nsteps != len(tr['calls']):
                raise C.MachineryError('trace accepted after %s of %d calls' % (nsteps, len(tr['calls'])))
            if insync is not True:
                out_of_sync += 1
            if ooc:
                if kind != 'pipeline':
                    raise C.MachineryError('harness generated an out-of-contract call: %r in %r'
                                           % (ooc, tr['gen']))
                ooc_notes.setdefault((tr['pipeline'], tr['name']), []).extend(
                    'call %d: %s(index %d)' % (o, tr['calls'][o - 1]['op'], tr['calls'][o - 1]['i'])
                    for o in ooc)
            if nontrivial(tr):
                interesting.add(C.json.dumps(for_tlc(tr), sort_keys=True))
        else:
            _, step, clause = v
            if clause.startswith('model-'):
                raise C.MachineryError('trace spec/harness problem: %s on %r' % (v, tr['gen']))
            c = tr['calls'][step - 1]
            V.violation({'op': clause, 'data_type': tr['dt'], 'default': tr['dflt'],
                         'source': kind, 'step': step, 'call': c, 'gen': tr['gen'],
                         'calls_before': tr['calls'][max(0, step - 12):step]},
                        clause, detail='call %d %s(i=%s) returned %s %s' % (
                            step, c['op'], c['i'], c['r'], c['rl'] if c['rl'] else ''))
    V.phase('trace validation')
    for (pname, sname), ooc in sorted(ooc_notes.items()):
        V.note('out-of-contract store calls made by rxsci operators in pipeline %s, state %s '
               '(not judged): %s' % (pname, sname, ooc))
    if WRAPPER_DIFFERS[0]:
        V.note('the Store wrapper made calls of its own on the backend in %d call sequences '
               '(recorded below the wrapper; not judged)' % WRAPPER_DIFFERS[0])
    if out_of_sync:
        V.note('impl_model_in_sync=false: %d accepted traces returned values that differ from the '
               'model of the code in details C14 does not constrain (enumeration order, value of '
               'an unset slot, which free index is handed out)' % out_of_sync)

    def sample(kind):
        for t in traces:
            if t['gen']['kind'] == kind and nontrivial(t):
                return {'gen': {k: v for k, v in t['gen'].items() if k != 'hist'},
                        'trace': for_tlc(t)}
    coverage = {
        'states': sum(r.distinct for _, r in mc_stats) + tstats['states'],
        'transitions': sum(r.generated for _, r in mc_stats) + tstats['transitions'],
        'traces_validated_against_impl': len(traces),
        'samples': [s for s in (sample('beh'), sample('random'), sample('pipeline')) if s],
        'exhaustive': True,
        'model_checking_runs': [{'module': 'Store',
                                 'constants': {k: str(v) for k, v in c.items()},
                                 'actions': {a: r.coverage[a][1] for a in r.coverage
                                             if a in COMMON_ACTIONS + VALUE_ACTIONS + MAP_ACTIONS},
                                 **r.summary()} for c, r in mc_stats],
        'invariants': INVARIANTS + PROPERTIES,
        'tlc_behaviours_replayed': len(behaviours),
        'replays_of_tlc_behaviours': n_replayed,
        'behaviour_generation': gen_counts,
        'random_executions': n_random,
        'pipeline_store_traces': n_pipeline,
        'pipelines': pipe_info,
        'distinct_nontrivial': len(interesting),
        'rule': 'a trace is non-trivial when some get/get_map returns a stored value, some '
                'iterate/iterate_map enumerates something, or an index is added a second time; '
                'distinct by the whole recorded call sequence',
        'trace_validation': tstats,
        'impl_model_in_sync': out_of_sync == 0,
        'actions_never_taken': sorted('%s(%s)' % (a, ','.join(d)) for a, d in never.items()),
    }
    return V.finish('model_checking', coverage, assumptions=[
        'calls respect the contract: set/get/del_key only on a slot that was added and not deleted, '
        '*_map only on a live mapper slot, is_set/is_cleared only up to the largest index ever added; '
        'values are of the declared type and fit the array item (no overflow, ints exact in a double)',
        'python values are abstracted to (type name, == class); enumerations are compared as sets; '
        'iterate() values are compared by == only (a bool state is enumerated as 0/1) and the value '
        'of an unset slot is not looked at',
        'del_map() is a lookup that keeps the mapping, del_index() is never called: a group index is '
        'never re-used; the dictionary model mirrors that',
        'single partition, single thread; iterate()/iterate_map() generators are consumed at once',
        'model: indices 0..3, 2 values, 2 key tails, 2 map keys; larger only through random traces'])


if __name__ == '__main__':
    C.main_wrapper(main)
