"""C17  Incremental text encode/decode is chunk-boundary independent.

 1. TLC model-checks TextCodec.tla exhaustively for utf-8, utf-16, utf-32, latin-1
    (every list of <=3 strings of <=2 characters from a palette with one character of
    every byte width incl. a combining mark and an astral character, every byte-level
    re-chunking incl. cuts inside a character and inside the BOM, every truncation inside
    a unit): Confluence, RoundTrip, OneBOM, PrefixOK, NoEarlyOutput.  The same model with
    encode(incremental=False) must violate OneBOM/RoundTrip (the model can tell the
    documented "independent data" mode from the incremental one).
 2. TLC generates behaviours (string list + cut vector + truncation), exhaustively at
    tiny bounds and by simulation at larger ones; the palette code points are real
    characters of exactly the modelled widths, so each behaviour is replayed through the
    real rxsci.data.encode()/decode() with the model's cut positions as byte offsets.
 3. The harness adds random executions over the full Unicode range (no lone surrogates),
    long strings, empty strings, 1-byte and empty chunks, BOM-less utf-16/32 variants.
 4. Every recorded execution is validated by TLC against TextCodecTrace.tla.
"""
import codecs
import os
import random
import sys

sys.path.insert(0, os.path.dirname(os.path.dirname(os.path.dirname(os.path.abspath(__file__)))))
from harness import common as C  # noqa: E402

PROP = 'C17'

LE = sys.byteorder == 'little'
# name given to rxsci -> (model family, BOM bytes written by the codec, BOM-less reference codec)
ENCODINGS = {
    'utf-8': ('utf-8', b'', 'utf-8'),
    'utf-16': ('utf-16', codecs.BOM_UTF16, 'utf-16-le' if LE else 'utf-16-be'),
    'utf-32': ('utf-32', codecs.BOM_UTF32, 'utf-32-le' if LE else 'utf-32-be'),
    'latin-1': ('latin-1', b'', 'latin-1'),
    # BOM-less variants: not named by the property, same contract with BomLen = 0
    'utf-16-le': ('utf-16', b'', 'utf-16-le'),
    'utf-16-be': ('utf-16', b'', 'utf-16-be'),
    'utf-32-le': ('utf-32', b'', 'utf-32-le'),
    'utf-32-be': ('utf-32', b'', 'utf-32-be'),
}
# other legal spellings of the same codecs (python normalises codec names)
for _alias, _name in (('utf16', 'utf-16'), ('UTF_16', 'utf-16'), ('U16', 'utf-16'), ('UTF-16', 'utf-16'),
                      ('utf32', 'utf-32'), ('utf_32', 'utf-32'), ('U32', 'utf-32'), ('utf8', 'utf-8'),
                      ('UTF8', 'utf-8'), ('latin1', 'latin-1'), ('iso-8859-1', 'latin-1'), ('L1', 'latin-1')):
    ENCODINGS[_alias] = ENCODINGS[_name]
MAIN = ['utf-8', 'utf-16', 'utf-32', 'latin-1']
# the model palette: 'a', 'e acute', euro sign, grinning face (astral), combining acute
PALETTE = [0x61, 0xE9, 0x20AC, 0x1F600, 0x301]
PALETTE_WIDTHS = {'utf-8': [1, 2, 3, 4, 2], 'utf-16': [2, 2, 2, 4, 2], 'utf-32': [4, 4, 4, 4, 4]}


def palette(enc):
    return PALETTE[:2] if ENCODINGS[enc][0] == 'latin-1' else PALETTE


def consts(enc, **kw):
    fam, bom, _ = ENCODINGS[enc]
    c = dict(Enc=fam, BomLen=len(bom), Palette=set(), MaxStrings=0, MaxLen=0, MaxChunk=0,
             IncModes={True}, AllowTrunc=True, MaxZeros=2, KeepHist=False)
    c.update(kw)
    return c


# ---------------------------------------------------------------- real code drivers

_OPS = {}
_USE = [0]


def _op(kind, enc, inc, make):
    """Rx operators are factories: subscribing the same operator object again must start
    from a fresh codec.  Two executions out of three reuse an operator object that already
    served earlier (possibly truncated) streams."""
    _USE[0] += 1
    if _USE[0] % 3 == 0:
        return make()
    key = (kind, enc, inc)
    if key not in _OPS:
        _OPS[key] = make()
    return _OPS[key]


def run_encode(enc, strings, inc):
    """Push the strings through the real encode(); return emitted items and how it ended."""
    import rx
    import rxsci.data.codec as codec
    op = _op('enc', enc, inc, lambda: codec.encode(enc) if inc is None else codec.encode(enc, incremental=inc))
    out = []
    state = {'ended': 'open'}

    def on_error(e):
        state['ended'] = 'error:%s' % type(e).__name__

    def on_completed():
        state['ended'] = 'completed'
    try:
        rx.from_(strings).pipe(op).subscribe(on_next=out.append, on_error=on_error,
                                             on_completed=on_completed)
    except Exception as e:
        state['ended'] = 'raised:%s' % type(e).__name__
    return out, state['ended']


def run_decode(enc, chunks, inc):
    """Push `chunks` one at a time through the real decode(); return per-chunk emissions,
    emissions at completion and how the stream ended."""
    from rx.subject import Subject
    import rxsci.data.codec as codec
    op = _op('dec', enc, inc, lambda: codec.decode(enc) if inc is None else codec.decode(enc, incremental=inc))
    subj = Subject()
    cur = []
    state = {'ended': 'open'}

    def on_error(e):
        state['ended'] = 'error:%s' % type(e).__name__

    def on_completed():
        state['ended'] = 'completed'
    subj.pipe(op).subscribe(on_next=cur.append, on_error=on_error, on_completed=on_completed)
    outs = []
    for c in chunks:
        try:
            subj.on_next(c)
        except Exception as e:   # an exception escaping on_next is an error of the stream
            state['ended'] = 'raised:%s' % type(e).__name__
            outs.append(list(cur))
            cur.clear()
            break
        outs.append(list(cur))
        cur.clear()
        if state['ended'] != 'open':
            break
    else:
        try:
            subj.on_completed()
        except Exception as e:
            state['ended'] = 'raised:%s' % type(e).__name__
    while len(outs) < len(chunks):
        outs.append([])
    return outs, list(cur), state['ended']


def text_cps(items):
    """code points of the concatenation of the emitted items (must be str)"""
    cps = []
    for x in items:
        if not isinstance(x, str):
            return None
        cps += [ord(ch) for ch in x]
    return cps


def record(enc, strings, sizes, inc=None, dec_inc=None, trunc=False):
    """One execution of the real code: strings -> encode() -> wire cut by `sizes`
    (clipped to the real wire; whatever is left is appended as a last chunk unless the
    caller asked for a truncated stream) -> decode()."""
    fam, bom, ref = ENCODINGS[enc]
    items, encended = run_encode(enc, strings, inc)
    if all(isinstance(x, (bytes, bytearray)) for x in items):
        wire = b''.join(bytes(x) for x in items)
    else:
        wire, encended = b'', 'error:not-bytes'
    widths = [[len(ch.encode(ref)) for ch in s] for s in strings]
    try:
        wirecps = [ord(ch) for ch in wire.decode(ref)]
    except UnicodeDecodeError:
        wirecps = [-1]
    chunks = []
    q = 0
    for n in sizes:
        n = min(n, len(wire) - q)
        chunks.append(wire[q:q + n])
        q += n
    if q < len(wire) and not trunc:
        chunks.append(wire[q:])
    outs, final, ended = run_decode(enc, chunks, dec_inc)
    feeds = []
    for c, o in zip(chunks, outs):
        rel = text_cps(o)
        if rel is None:
            rel, ended = [], 'error:not-str'
        feeds.append({'n': len(c), 'rel': rel})
    fin = text_cps(final)
    if fin is None:
        fin, ended = [], 'error:not-str'
    return {'enc': enc, 'inc': inc is not False, 'strings': [[ord(ch) for ch in s] for s in strings],
            'widths': widths, 'wirelen': len(wire),
            'bomlen': len(bom) if bom and wire.startswith(bom) else 0,
            'wirecps': wirecps, 'encended': encended, 'feeds': feeds, 'final': fin,
            'ended': ended}


def cps_to_strings(strings):
    return [''.join(map(chr, s)) for s in strings]


def random_sizes(rng, n, maxchunk):
    sizes = []
    left = n
    style = rng.random()
    while left > 0:
        if style < 0.15:
            k = 1                               # all 1-byte chunks
        else:
            k = rng.choice([0, 1, 1, 2, 3, rng.randint(0, maxchunk)])
        k = min(k, left)
        sizes.append(k)
        left -= k
    if rng.random() < 0.3:
        sizes.append(0)
    return sizes


SPECIALS = [0, 0x0A, 0x0D, 0x7F, 0x80, 0xFF, 0x100, 0x7FF, 0x800, 0x301, 0x20AC, 0xD7FF, 0xE000,
            0xFEFF, 0xFFFE, 0xFFFF, 0x10000, 0x1F600, 0x10FFFF]


def random_cp(rng, enc):
    if ENCODINGS[enc][0] == 'latin-1':
        return rng.choice([rng.randint(0, 255), rng.randint(0x80, 0xFF), 0x61, 0xE9, 0, 0xFF])
    k = rng.randrange(8)
    if k == 0:
        return rng.randint(0, 0x7F)
    if k == 1:
        return rng.randint(0x80, 0x7FF)
    if k == 2:
        return rng.choice([rng.randint(0x800, 0xD7FF), rng.randint(0xE000, 0xFFFF)])
    if k == 3:
        return rng.randint(0x10000, 0x10FFFF)
    if k == 4:
        return rng.choice(SPECIALS)
    if k == 5:
        return rng.choice(PALETTE)
    return rng.choice([rng.randint(0, 0xD7FF), rng.randint(0xE000, 0x10FFFF)])


def random_strings(rng, enc, long_ok):
    out = []
    for _ in range(rng.choice([0, 1, 1, 2, 3, 3, 5, 8])):
        n = rng.choice([0, 0, 1, 2, 3, rng.randint(0, 12),
                        rng.randint(50, 300) if long_ok and rng.random() < 0.3 else 4])
        out.append(''.join(chr(random_cp(rng, enc)) for _ in range(n)))
    if out and ENCODINGS[enc][0] != 'latin-1' and rng.random() < 0.15:
        # the text itself begins with U+FEFF (a character like any other, not a signature)
        out[0] = rng.choice(['\ufeff', '\ufeff\ufeff']) + out[0]
    return out


def unit_bounds(tr):
    fam, bom, _ = ENCODINGS[tr['enc']]
    b = {0, len(bom)}
    p = len(bom)
    for ws in tr['widths']:
        for w in ws:
            p += w
            b.add(p)
    return b, p


def nontrivial_cut(tr):
    """some chunk boundary falls strictly inside a multi-byte character or inside the BOM"""
    b, total = unit_bounds(tr)
    pos = 0
    for f in tr['feeds']:
        pos += f['n']
        if pos not in b and pos < total:
            return True
    return False


def truncated(tr):
    return sum(f['n'] for f in tr['feeds']) < tr['wirelen']


def validate(enc, traces, invariants=('TraceConfluence', 'TraceEnded')):
    return C.validate_traces('TextCodecTrace', traces, cfg_text=C.cfg(
        spec='TraceSpec', constants=consts(enc), invariants=list(invariants)),
        jvm=('-Xss16m',))


# ---------------------------------------------------------------- the check

def do_replay(path):
    """Re-run one recorded case against the real code and let TLC judge it again."""
    C.use_repo()
    w = C.json.load(open(path))['witness']
    tr = w['trace']
    new = record(w['encoding'], cps_to_strings(tr['strings']), w['cuts'],
                 inc=None if tr['inc'] else False, trunc=w.get('trunc', False))
    v, _ = validate(w['encoding'], [new])
    print('replay verdict:', v[0])
    print('encoding:', w['encoding'], 'strings:', tr['strings'], 'cuts:', w['cuts'])
    print('wire: %d bytes, BOM prefix %d bytes, characters on the wire: %s'
          % (new['wirelen'], new['bomlen'], new['wirecps']))
    print('real decode() per chunk:', [(f['n'], f['rel']) for f in new['feeds']],
          'at completion:', new['final'], new['ended'])
    if v[0][0] == 'REJECT':
        print('VIOLATION property=%s replay=%s clause=%s' % (PROP, path, v[0][2]))
        return 1
    return 0


INVARIANTS = ['TypeOK', 'OneBOM', 'Confluence', 'NoEarlyOutput', 'PrefixOK', 'FlushEmpty',
              'RoundTrip', 'IndependentMode']


def main(tier, replay):
    if replay:
        return do_replay(replay)
    C.use_repo()
    V = C.Verdict(PROP, tier)
    rng = random.Random(C.seed() * 7919 + 17)
    thorough = tier == 'thorough'

    # the model palette must consist of real characters of exactly the modelled widths
    for enc in MAIN:
        fam, bom, ref = ENCODINGS[enc]
        real = [len(chr(cp).encode(ref)) for cp in palette(enc)]
        want = PALETTE_WIDTHS.get(fam, [1, 1])[:len(real)]
        if real != want:
            raise C.MachineryError('palette widths for %s are %s, expected %s' % (enc, real, want))

    # 1. exhaustive model checking -------------------------------------------------
    jobs = []
    for enc in MAIN:
        if thorough:
            pal = palette(enc) if enc != 'utf-32' else [0x61, 0x1F600, 0x301]
            jobs.append((enc, consts(enc, Palette=set(pal), MaxStrings=3, MaxLen=2, MaxChunk=6)))
            jobs.append((enc, consts(enc, Palette=set(palette(enc)), MaxStrings=2, MaxLen=2,
                                     MaxChunk=9, IncModes={True, False})))
        elif enc == 'latin-1':
            jobs.append((enc, consts(enc, Palette=set(palette(enc)), MaxStrings=3, MaxLen=2,
                                     MaxChunk=3, IncModes={True, False})))
        else:
            pal = palette(enc) if enc != 'utf-32' else [0x61, 0x1F600, 0x301]
            jobs.append((enc, consts(enc, Palette=set(pal), MaxStrings=2, MaxLen=2, MaxChunk=6,
                                     IncModes={True} if enc == 'utf-8' else {True, False})))
            jobs.append((enc, consts(enc, Palette=set(pal), MaxStrings=3, MaxLen=1, MaxChunk=9)))
    # model-level mutants: the independent mode must be distinguishable in the model
    mm = [('utf-16', 'OneBOMAlways'), ('utf-16', 'RoundTripAlways'), ('utf-32', 'ConfluenceAlways')]
    nw = 4
    rs = C.par([lambda c=c: C.run_tlc('TextCodec', C.cfg(constants=c, invariants=INVARIANTS),
                                       coverage=True, workers=nw) for (_, c) in jobs] +
               [lambda e=e, i=i: C.run_tlc('TextCodec', C.cfg(
                   constants=consts(e, Palette={0x61, 0x1F600}, MaxStrings=2, MaxLen=1, MaxChunk=4,
                                    IncModes={False}), invariants=[i]), workers=1)
                for (e, i) in mm], max_workers=6)
    mc_stats = []
    for (enc, c), r in zip(jobs, rs):
        if r.violated:
            raise C.MachineryError('TextCodec model (%s) violates %s:\n%s'
                                   % (enc, r.violated, r.error_trace))
        mc_stats.append((enc, c, r))
    model_mutants = []
    for (e, i), r in zip(mm, rs[len(jobs):]):
        if r.violated != i:
            raise C.MachineryError('the model with encode(incremental=False) for %s does not '
                                   'violate %s: the invariant is vacuous' % (e, i))
        model_mutants.append({'encoding': e, 'mode': 'incremental=False', 'violates': i})
    V.phase('model checking')

    # 2. behaviours generated by TLC ----------------------------------------------
    nsim = 2500 if thorough else 300
    cap = None if thorough else 250      # exhaustive behaviours replayed per configuration
    tiny = {'utf-8': dict(Palette={0x61, 0x20AC, 0x1F600}, MaxStrings=2, MaxLen=1, MaxChunk=3,
                          MaxZeros=1),
            'utf-16': dict(Palette={0x61, 0x1F600}, MaxStrings=2, MaxLen=1, MaxChunk=3, MaxZeros=0),
            'utf-32': dict(Palette={0x1F600}, MaxStrings=1, MaxLen=1, MaxChunk=4, MaxZeros=1),
            'latin-1': dict(Palette={0x61, 0xE9}, MaxStrings=2, MaxLen=2, MaxChunk=2, MaxZeros=1)}
    gens = []
    for enc in MAIN:
        gens.append((enc, consts(enc, KeepHist=True, **tiny[enc]), None))
        # simulation: complete streams only (truncations come from the exhaustive runs and
        # from the random executions), so that the walks reach the end of the wire
        big = dict(Palette=set(palette(enc)), MaxStrings=3, MaxLen=2, MaxChunk=5, MaxZeros=4,
                   AllowTrunc=False, KeepHist=True)
        gens.append((enc, consts(enc, **big), nsim))
        if ENCODINGS[enc][1]:    # the independent mode differs only for BOM encodings
            gens.append((enc, consts(enc, **dict(big, IncModes={False})), nsim // 10))

    rng_gen = random.Random(C.seed() + 1717)

    def gen(job):
        enc, const, sim = job
        text = C.cfg(constants=const, invariants=['EmitBehaviour'], constraints=['HistBound'])
        if sim is None:
            r = C.run_tlc('TextCodec', text, workers=2)
        else:
            r = C.run_tlc('TextCodec', text, workers=1, simulate='num=%d' % sim, depth=60,
                          tlc_seed=C.seed() + 1)
        # long tuples are pretty-printed by TLC as `<< "BEH",` over several lines
        b = C.extract_printed(r.stdout.replace('<< "BEH"', '<<"BEH"'), 'BEH')
        return enc, b, sim is None
    behaviours = {}
    gen_counts = []
    for enc, b, exhaustive in C.par([lambda j=j: gen(j) for j in gens]):
        n_all = len(b)
        if exhaustive and cap is not None and len(b) > cap:
            b = rng_gen.sample(b, cap)
        gen_counts.append({'encoding': enc, 'exhaustive': exhaustive, 'generated': n_all,
                           'replayed': len(b)})
        behaviours.setdefault(enc, []).extend(b)
    V.phase('behaviour generation')

    # 3. replay into the real code + random executions -----------------------------
    traces = {}       # encoding -> list of (trace, cuts)
    n_replayed = 0
    for enc, bs in behaviours.items():
        lst = traces.setdefault(enc, [])
        for (_, strings, encinc, hist, trunc) in bs:
            tr = record(enc, cps_to_strings(strings), hist, inc=None if encinc else False,
                        trunc=trunc)
            lst.append((tr, hist, trunc))
            n_replayed += 1
            if encinc and tr['wirelen'] == unit_bounds(tr)[1] and trunc != truncated(tr):
                raise C.MachineryError('replayed behaviour lost its truncation: %r' % (tr,))

    nrand = 1600 if thorough else 320
    n_random = 0
    for k in range(nrand):
        enc = MAIN[k % 4] if rng.random() < 0.7 else rng.choice(sorted(ENCODINGS))
        fam, bom, ref = ENCODINGS[enc]
        strings = random_strings(rng, enc, long_ok=(k % 5 == 0))
        total = len(bom) + sum(len(s.encode(ref)) for s in strings)
        mode = rng.random()
        inc = None if mode < 0.7 else (True if mode < 0.92 else False)
        trunc = False
        if inc is not False and rng.random() < 0.15 and total:
            # end the stream strictly inside a unit, if there is such a position
            b = set()
            p = len(bom)
            b.update({0, p})
            for s in strings:
                for ch in s:
                    p += len(ch.encode(ref))
                    b.add(p)
            inside = [q for q in range(1, total) if q not in b]
            if inside:
                total = rng.choice(inside)
                trunc = True
        sizes = random_sizes(rng, total, rng.choice([1, 4, 9, 64]))
        tr = record(enc, strings, sizes, inc=inc, dec_inc=True if inc is True else None,
                    trunc=trunc)
        traces.setdefault(enc, []).append((tr, sizes, trunc))
        n_random += 1
    V.phase('replay and random executions')

    # 4. validation by TLC --------------------------------------------------------
    tstats = {'states': 0, 'transitions': 0, 'tlc_runs': 0}
    out_of_sync = 0
    nontrivial = set()
    n_traces = 0
    n_trunc = 0
    n_independent = 0
    n_independent_diff = 0
    n_trunc_silent = 0
    encs = sorted(traces)
    results = C.par([lambda e=e: validate(e, [t[0] for t in traces[e]]) for e in encs],
                    max_workers=4)
    for enc, (verdicts, st) in zip(encs, results):
        for k in tstats:
            tstats[k] += st[k]
        for (tr, cuts, trunc), v in zip(traces[enc], verdicts):
            n_traces += 1
            if v[0] == 'ACCEPT':
                if not tr['inc']:
                    n_independent += 1
                    if v[2] is not True:
                        n_independent_diff += 1
                    continue
                if v[2] is not True:
                    out_of_sync += 1
                if truncated(tr):
                    n_trunc += 1
                if nontrivial_cut(tr):
                    nontrivial.add(C.json.dumps([enc, tr['strings'], [f['n'] for f in tr['feeds']]]))
            else:
                clause = v[2]
                if clause.startswith('model-'):
                    raise C.MachineryError('trace spec/harness problem: %s on %r' % (v, tr))
                if clause == 'truncation':
                    # a stream cut inside a character is not an output of encode(): C17 does
                    # not say what decode() must do with it -> reported, never a verdict
                    n_trunc_silent += 1
                    continue
                V.violation({'op': 'codec', 'encoding': enc, 'strings': tr['strings'],
                             'cuts': list(cuts), 'trunc': trunc, 'trace': tr}, clause,
                            detail='step %s' % v[1])
    V.phase('trace validation')
    if n_trunc_silent:
        V.note('%d streams ending inside a character completed silently (the current code raises '
               'UnicodeDecodeError there); outside C17, never a verdict' % n_trunc_silent)
    if out_of_sync:
        V.note('impl_model_in_sync=false: %d accepted traces released characters in a different '
               'chunk than the model, or wrote nothing for an empty text (allowed by C17)'
               % out_of_sync)
    if n_independent_diff:
        V.note('%d of %d executions with encode(incremental=False) differ from the model of the '
               'independent mode (outside C17, never a verdict)' % (n_independent_diff, n_independent))
    samples = []
    for enc in MAIN:
        cand = [t[0] for t in traces[enc] if nontrivial_cut(t[0]) and t[0]['wirelen'] <= 24]
        if cand:
            samples.append({'encoding': enc, 'trace': cand[0]})
    uncovered = sorted({a for (_, _, r) in mc_stats for a, (d, t) in r.coverage.items() if t == 0})
    coverage = {
        'states': sum(r.distinct for (_, _, r) in mc_stats) + tstats['states'],
        'transitions': sum(r.generated for (_, _, r) in mc_stats) + tstats['transitions'],
        'traces_validated_against_impl': n_traces,
        'samples': samples,
        'exhaustive': True,
        'model_checking_runs': [{'module': 'TextCodec', 'encoding': e,
                                 'constants': {k: str(v) for k, v in c.items()},
                                 **r.summary()} for (e, c, r) in mc_stats],
        'model_mutants_rejected_by_tlc': model_mutants,
        'tlc_behaviours_replayed': n_replayed,
        'behaviour_generation': gen_counts,
        'random_executions': n_random,
        'truncated_streams': n_trunc,
        'independent_mode_traces_outside_property': n_independent,
        'distinct_nontrivial': len(nontrivial),
        'rule': 'a trace is non-trivial when at least one chunk boundary falls strictly inside a '
                'multi-byte character or inside the BOM; distinct by (encoding, strings, cut vector)',
        'trace_validation': tstats,
        'impl_model_in_sync': out_of_sync == 0,
        'actions_never_taken': uncovered,
    }
    return V.finish('model_checking', coverage, assumptions=[
        'Python incremental codecs are axiomatised (byte width per character, BOM written by the '
        'first encode() call, decoder releases a character with its last byte); the axioms are '
        'checked on every recorded trace (model-width, insync)',
        'inputs contain no lone surrogates; latin-1 inputs are restricted to U+0000..U+00FF',
        'streams ending inside a character are explored too, but what decode() does with them is '
        'only reported (NOTE), never a verdict: C17 speaks about the bytes produced by encode()',
        'with no character to encode an empty wire is accepted as well as a lone BOM',
        'model palette of 5 characters, <=3 strings of <=2 characters; full Unicode and long '
        'strings only through random traces',
        'rx Subject delivers synchronously (single-threaded)'])


if __name__ == '__main__':
    C.main_wrapper(main)
