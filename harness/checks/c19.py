"""C19  JSON-lines dump/load round-trips objects, with or without compression.

 1. TLC model-checks JsonLines.tla exhaustively: the composition
    file.read(R) -> [decompress] -> decode(incremental) -> line.unframe -> load
    on a file written by dump -> encode -> [compress] -> file.write, for every
    object list over a small alphabet with 1..3 byte characters, compression
    on/off, read sizes R = 1..4 on regular files (full reads) and on file objects
    (short reads), every release schedule of the decompressor: RoundTrip,
    stage-wise Confluence, NoEarlyOutput, NoError.
 2. TLC generates behaviours (object list, compression, read-size vector),
    exhaustively at tiny bounds and by simulation beyond; each is replayed into
    the real load_from_file through a file object whose read() returns exactly
    the chosen (up-scaled) sizes, on a file really written by dump_to_file.
 3. Random executions far beyond the model bounds: nested objects, 64-bit
    ints, floats, arbitrary Unicode, none/gzip/zstd, files from 0 objects to
    several 64 KiB reads, path-based / custom open_obj / file objects.
 4. Every recorded execution is down-scaled (order of line ends, read and
    release boundaries and cut characters preserved) and validated by TLC
    against JsonLinesTrace.tla, which gives the verdict.
"""
import io
import math
import os
import random
import struct
import sys
import zlib

sys.path.insert(0, os.path.dirname(os.path.dirname(os.path.dirname(os.path.abspath(__file__)))))
from harness import common as C  # noqa: E402

PROP = 'C19'
CHUNK = 64 * 1024
NL, FILL, HDR, TRL = 1, 11, -1, -2
TRACE_CONST = dict(Syms=set(), NL=NL, MaxObjs=0, MaxLen=0, Comps=set(), Envs=set(), HdrLen=1,
                   TrlLen=1, Greedy=True, KeepHist=False)


# ---------------------------------------------------------------- real code drivers

class Reader:
    """File object handed to the real file.read(): returns reads of the planned sizes (never
    more than asked for), then full reads; remembers what was emitted before each call."""

    def __init__(self, data, plan, items):
        self.data, self.p, self.plan, self.items = data, 0, list(plan or []), items
        self.reads, self.marks, self.asked = [], [], []

    def read(self, size=-1):
        self.marks.append(len(self.items))
        self.asked.append(size)
        if size is None or size < 0:
            n = len(self.data) - self.p
        else:
            n = min(self.plan.pop(0), size) if self.plan else size
        c = self.data[self.p:self.p + n]
        self.p += len(c)
        if c:
            self.reads.append(len(c))
        return c

    def __enter__(self):
        return self

    def __exit__(self, *a):
        return False

    def close(self):
        pass


class Writer:
    def __init__(self):
        self.buf = io.BytesIO()
        self.closed = False

    def write(self, b):
        return self.buf.write(b)

    def close(self):
        self.closed = True

    def __enter__(self):
        return self

    def __exit__(self, *a):
        self.closed = True
        return False


def _kw(codec, encoding):
    kw = {}
    if codec != 'none':
        kw['compression'] = codec
    if encoding != 'utf-8':
        kw['encoding'] = encoding
    return kw


def dump_real(objs, codec, encoding, how, tmpdir):
    """objects -> file bytes through the real dump_to_file"""
    import rx
    import rxsci.container.json as rj
    state = {'ended': 'open'}
    kw = _kw(codec, encoding)
    w = None
    cwd = None
    if how in ('path', 'bare'):
        target = os.path.join(tmpdir, _name('dump'))
        with open(target, 'wb') as f:          # an earlier export is there already: it is replaced
            f.write(b'{"stale": 1}\n' * 3)
        if how == 'bare':
            # a file name without a directory part, relative to the working directory
            cwd = os.getcwd()
            os.chdir(tmpdir)
            arg = os.path.basename(target)
    elif how == 'open_obj':
        w = Writer()
        kw['open_obj'] = lambda name, mode, encoding=None: w
        target = 'mem://c19-dump'
    else:
        w = Writer()
        target = w

    def on_error(e):
        state['ended'] = 'error:dump:%s' % type(e).__name__
    try:
        with C.quiet_stdout():
            rx.from_(objs).pipe(rj.dump_to_file(arg if how == 'bare' else target, **kw)).subscribe(
                on_next=lambda i: None, on_error=on_error,
                on_completed=lambda: state.__setitem__('ended', 'completed'))
    except Exception as e:
        state['ended'] = 'raised:dump:%s' % type(e).__name__
    finally:
        if cwd is not None:
            os.chdir(cwd)
    if how in ('path', 'bare'):
        try:
            with open(target, 'rb') as f:
                data = f.read()
        except OSError:
            data = b''
            if state['ended'] == 'completed':
                state['ended'] = 'error:dump:nofile'
    else:
        data = w.buf.getvalue()
    return data, state['ended']


def dump_lines(objs):
    """the lines the real dump() produces, one per object"""
    import rx
    import rxsci.container.json as rj
    lines = []
    with C.quiet_stdout():
        rx.from_(objs).pipe(rj.dump()).subscribe(on_next=lines.append, on_error=lambda e: None)
    return lines


_PASS = [0]


_LINES = [True]
_NAMES = [0]


def _name(stem):
    """file names by turns: the extension says nothing about the content (the compression
    is what the caller passes)"""
    _NAMES[0] += 1
    return stem + ['.jsonl', '.json.gz', '.zst', '.GZ', '.json', ''][_NAMES[0] % 6]


def load_real(data, codec, encoding, how, plan, tmpdir):
    """file bytes -> (items, reader or None, ended) through the real load_from_file"""
    import rxsci.container.json as rj
    items = []
    state = {'ended': 'open'}
    kw = _kw(codec, encoding)
    reader = None
    if how == 'path':
        src = os.path.join(tmpdir, _name('load'))
        with open(src, 'wb') as f:
            f.write(data)
    elif how == 'open_obj':
        reader = Reader(data, plan, items)
        kw['open_obj'] = lambda name, mode, encoding=None: reader
        src = 'mem://c19-load'
    else:
        reader = Reader(data, plan, items)
        src = reader

    def on_error(e):
        state['ended'] = 'error:%s' % type(e).__name__
    try:
        with C.quiet_stdout():
            if not _LINES[0]:
                kw['lines'] = False        # a file that holds one document, read in one piece
            loaded = rj.load_from_file(src, **kw)
            _PASS[0] += 1
            if how == 'path' and _PASS[0] % 2 == 0:
                # the observable returned by load_from_file is subscribed a second time (a
                # second pass over the file): the second pass is the one that is judged
                loaded.subscribe(on_next=lambda i: None, on_error=lambda e: None)
            loaded.subscribe(
                on_next=items.append, on_error=on_error,
                on_completed=lambda: state.__setitem__('ended', 'completed'))
    except Exception as e:
        state['ended'] = 'raised:%s' % type(e).__name__
    return items, reader, state['ended']


def reference_release(codec, data, reads):
    """what a stand-alone decompressor of the library releases when fed the same reads:
    (plain released, cumulative released after each read) or None if the file is broken"""
    import zstandard
    try:
        if codec == 'gzip':
            d = zlib.decompressobj(wbits=zlib.MAX_WBITS | 16)
        else:
            d = zstandard.ZstdDecompressor().decompressobj()
        out, cum, p, tot = [], [], 0, 0
        for n in reads:
            o = d.decompress(data[p:p + n])
            p += n
            tot += len(o)
            out.append(o)
            cum.append(tot)
        return b''.join(out), cum
    except Exception:
        return None


# ---------------------------------------------------------------- value comparison / ids

def same(a, b):
    """equality of JSON values: python ==, but bool / None / str / containers are not
    confused with numbers or each other (1 == True in python)"""
    if isinstance(a, bool) or isinstance(b, bool) or a is None or b is None:
        return type(a) is type(b) and a == b
    if isinstance(a, (int, float)) and isinstance(b, (int, float)):
        return a == b
    if type(a) is not type(b):
        return False
    if isinstance(a, dict):
        return a.keys() == b.keys() and all(same(a[k], b[k]) for k in a)
    if isinstance(a, list):
        return len(a) == len(b) and all(same(x, y) for x, y in zip(a, b))
    return a == b


def identify(items, objs, tagged):
    """ids (1-based, 0 = not a dumped object) of the loaded items + ids with a wrong value"""
    n = len(objs)
    ids, bad = [], []
    if tagged:
        for it in items:
            i = it.get('_id') if isinstance(it, dict) else None
            if isinstance(i, int) and not isinstance(i, bool) and 1 <= i <= n:
                ids.append(i)
                if not same(it, objs[i - 1]):
                    bad.append(i)
            else:
                ids.append(0)
    else:
        used = set()
        lo = 0
        for it in items:
            hit = 0
            for j in list(range(lo, n)) + list(range(0, lo)):
                if j not in used and same(it, objs[j]):
                    hit = j + 1
                    break
            if hit:
                used.add(hit - 1)
                while lo in used:
                    lo += 1
            ids.append(hit)
    return ids, sorted(set(bad))


# ---------------------------------------------------------------- down-scaling

def downscale(lines_b, bounds):
    """Order-preserving image of (lines, boundaries) in model symbols.

    lines_b: the encoded (utf-8) lines, each ending with its only newline byte.
    bounds:  plain-byte offsets (read or release boundaries).
    Characters cut by a boundary keep their width (symbol 10*w+1), every other maximal run
    of characters between two boundaries / cut characters / line ends becomes one 1-byte
    symbol.  Returns (model lines, {real offset: model offset}, number of cut characters)."""
    total = sum(len(b) for b in lines_b)
    bset = sorted({b for b in bounds if 0 < b < total})
    mapping = {0: 0}
    model = []
    moff = 0
    start = 0
    bi = 0
    ncut = 0
    for lb in lines_b:
        end = start + len(lb)
        payload_end = end - 1
        syms = []
        p = start
        while bi < len(bset) and bset[bi] < end:
            b = bset[bi]
            bi += 1
            if b <= p:
                mapping[b] = moff - (p - b)       # inside the character kept last, or at p
                continue
            cs = b
            while cs > p and (lb[cs - start] & 0xC0) == 0x80:
                cs -= 1
            if cs > p:
                syms.append(FILL)
                moff += 1
            if cs == b:
                p = b
                mapping[b] = moff
            else:
                lead = lb[cs - start]
                w = 2 if lead < 0xE0 else 3 if lead < 0xF0 else 4
                syms.append(10 * w + 1)
                mapping[b] = moff + (b - cs)
                moff += w
                p = cs + w
                ncut += 1
        if payload_end > p:
            syms.append(FILL)
            moff += 1
        moff += 1                                  # the newline
        model.append(syms)
        start = end
    mapping[total] = moff
    return model, mapping, ncut


# ---------------------------------------------------------------- one recorded execution

def record(objs, codec, encoding, dump_how, load_how, plan_fn, tagged, tmpdir):
    """dump the objects with the real code, load them back with the real code, record the
    execution and its down-scaled image.  plan_fn(data, lines_b) -> read sizes or None."""
    data, dumped = dump_real(objs, codec, encoding, dump_how, tmpdir)
    lines = dump_lines(objs)
    enc_nobom = {'utf-16': 'utf-16-le', 'utf-32': 'utf-32-le'}.get(encoding, encoding)
    lines_b = [s.encode(enc_nobom, 'replace') for s in lines]     # (layout only; what a mutated dump() wrote may not be encodable)
    rawnl = any('\n' in s[:-1] for s in lines)
    n = len(objs)
    plan = plan_fn(data, lines_b) if (plan_fn and load_how != 'path') else None
    if dumped == 'completed':
        items, reader, ended = load_real(data, codec, encoding, load_how, plan, tmpdir)
    else:
        items, reader, ended = [], None, dumped
    ids, bad = identify(items, objs, tagged)
    timed = reader is not None
    if timed:
        realreads = list(reader.reads)
        marks = reader.marks
        k = len(realreads)
        if len(marks) > k:          # the terminating empty read was observed
            emitted = [ids[marks[j]:marks[j + 1]] for j in range(k)]
            final = ids[marks[k]:]
        else:
            # the loop ended without an empty read: what came after the last read call may
            # have been emitted at completion, so it is not attributed to that read
            emitted = [ids[marks[j]:marks[j + 1]] for j in range(k - 1)] + [[]] * min(k, 1)
            final = ids[marks[k - 1]:] if k else ids
    else:
        realreads = [min(CHUNK, len(data) - p) for p in range(0, len(data), CHUNK)]
        emitted = [[] for _ in realreads]
        final = ids
    # layout of the written file
    expected_plain = b''.join(lines_b)
    well_formed = (encoding == 'utf-8' and len(lines) == n and not rawnl
                   and all(len(s) >= 2 and s.endswith('\n') for s in lines))
    consumed = sum(realreads)
    if codec == 'none':
        full_plain = data
        realdeliv = []
        t = 0
        for r in realreads:
            t += r
            realdeliv.append(t)
    else:
        whole = reference_release(codec, data, [len(data)] if data else [])
        full_plain = whole[0] if whole else None
        part = reference_release(codec, data, realreads)
        realdeliv = part[1] if part else None
    # (the model replay of an execution costs more than quadratic time in the number of objects:
    # beyond 400 objects TLC judges the recorded ids, reads and values only)
    replayable = bool(well_formed and full_plain == expected_plain and realdeliv is not None and n <= 400)
    tr = {'nobjs': n, 'codec': codec, 'comp': 0 if codec == 'none' else 1, 'rawnl': rawnl,
          'linebytes': [len(b) for b in lines_b] if len(lines) == n else [1] * n,
          'linechars': [len(s) for s in lines] if len(lines) == n else [1] * n,
          'realreads': realreads, 'realdeliv': realdeliv if realdeliv is not None else realreads,
          'filebytes': len(data), 'replayable': replayable, 'timed': timed,
          'emitted': emitted, 'final': final, 'badvalue': bad, 'ended': ended,
          'objs': [], 'wire': [], 'reads': realreads, 'cutchars': 0, 'cutlines': 0}
    if replayable:
        model, mapping, ncut = downscale(lines_b, realdeliv)
        tr['objs'] = model
        tr['cutchars'] = ncut
        ends = set()
        t = 0
        for b in lines_b:
            t += len(b)
            ends.add(t)
        tr['cutlines'] = len({b for b in realdeliv if 0 < b < t and b not in ends})
        cum = [mapping[b] for b in realdeliv]
        if codec == 'none':
            tr['reads'] = [b - a for a, b in zip([0] + cum[:-1], cum)]
        else:
            units = [b - a for a, b in zip([0] + cum[:-1], cum)]
            total = mapping[len(expected_plain)]
            rest = total - (cum[-1] if cum else 0)
            wire = [HDR] + units
            reads = [1] * len(units)
            if reads:
                reads[0] = 2
            if consumed < len(data) or not units:
                wire.append(rest)
            else:
                reads[-1] += 1
            wire.append(TRL)
            tr['wire'] = wire
            tr['reads'] = reads
    return tr


# ---------------------------------------------------------------- cases

W = {1: 'xyz ', 2: '\u00e9\u00df\u0416', 3: '\u20ac\u4e2d\u2028', 4: '\U0001f600\U0001d11e'}


def beh_objects(msyms):
    objs = []
    for i, syms in enumerate(msyms):
        s = ''.join(W[c // 10][(i + j + c) % len(W[c // 10])] for j, c in enumerate(syms))
        objs.append({'_id': i + 1, 's': s})
    return objs


def beh_plan(desc, objs):
    """up-scale the model read vector to the real file: same position relative to line
    starts, characters (also inside a multi-byte character) and newlines; proportional
    position in a compressed file."""
    msyms, reads = desc['objs'], desc['reads']

    def plan_fn(data, lines_b):
        cum = []
        t = 0
        for r in reads:
            t += r
            cum.append(t)
        if desc['comp'] == 1:
            lf = desc['hdr'] + sum(sum(c // 10 for c in s) + 1 for s in msyms) + desc['trl']
            real = [m * len(data) // lf for m in cum]
        else:
            real = []
            for m in cum:
                ms = rs = 0
                got = None
                for syms, lb, o in zip(msyms, lines_b, objs):
                    lm = sum(c // 10 for c in syms) + 1
                    lr = len(lb)
                    if m >= ms + lm:
                        ms += lm
                        rs += lr
                        continue
                    k = m - ms
                    cb = o['s'].encode('utf-8')
                    c0 = lb.rfind(cb)
                    if k == 0:
                        got = rs
                    elif k == lm - 1:
                        got = rs + lr - 1
                    elif c0 >= 1 and len(cb) == lm - 1:
                        got = rs + c0 + k
                    else:
                        got = rs + max(1, min(lr - 2, k * lr // lm))
                    break
                real.append(rs if got is None else got)
        sizes = [b - a for a, b in zip([0] + real[:-1], real)]
        return [s for s in sizes if s > 0]
    return plan_fn


POOL_CACHE = {}


def text_pool(kind):
    if kind not in POOL_CACHE:
        r = random.Random(1234 + len(kind))
        if kind == 'mixed':
            p = (r.choices(range(0x20, 0x7f), k=900) + r.choices(range(0x80, 0x800), k=1000)
                 + r.choices(range(0x800, 0xd800), k=1200) + r.choices(range(0xe000, 0x10000), k=200)
                 + r.choices(range(0x10000, 0x110000), k=700)
                 + [0x0a, 0x0d, 0x09, 0x20, 0x22, 0x5c, 0x2f, 0x00, 0x1f, 0x7f, 0x85, 0x2028, 0x2029,
                    0x0b, 0x0c, 0x1c, 0xfeff, 0xfffd, 0xffff] * 5)
        elif kind == 'special':
            p = [0x0a, 0x0d, 0x20, 0x22, 0x5c, 0x27, 0x7b, 0x7d, 0x5b, 0x5d, 0x2c, 0x3a, 0x09,
                 0x2028, 0x85, 0x0b, 0x1f600, 0xe9]
        elif kind == 'wide':
            p = r.choices(range(0x80, 0x800), k=300) + r.choices(range(0x800, 0xd800), k=500) \
                + r.choices(range(0x10000, 0x110000), k=500)
        else:
            p = list(range(0x20, 0x7f))
        POOL_CACHE[kind] = [chr(c) for c in p]
    return POOL_CACHE[kind]


def rnd_text(rng, n, kind=None):
    kind = kind or rng.choice(['mixed', 'mixed', 'special', 'ascii', 'wide'])
    return ''.join(rng.choices(text_pool(kind), k=n))


def rnd_float(rng):
    c = rng.random()
    if c < 0.3:
        return rng.choice([0.0, -0.0, 0.1, 1.0, -1.5, 1e308, -1e308, 5e-324, 2.0 ** 53, 1e-7, 123456.789])
    if c < 0.6:
        return rng.uniform(-1e6, 1e6)
    x = struct.unpack('<d', rng.getrandbits(64).to_bytes(8, 'little'))[0]
    return x if math.isfinite(x) else 0.5


def rnd_int(rng):
    return rng.choice([0, 1, -1, 255, 2 ** 31, -2 ** 31 - 1, 2 ** 53 + 1, 2 ** 63 - 1, -2 ** 63,
                       rng.randint(-2 ** 63, 2 ** 63 - 1), rng.randint(-1000, 1000)])


def rnd_value(rng, depth):
    c = rng.random()
    if depth <= 0 or c < 0.55:
        k = rng.randrange(6)
        if k == 0:
            return None
        if k == 1:
            return rng.random() < 0.5
        if k == 2:
            return rnd_int(rng)
        if k == 3:
            return rnd_float(rng)
        return rnd_text(rng, rng.choice([0, 1, 2, 5, 20]))
    if c < 0.78:
        return [rnd_value(rng, depth - 1) for _ in range(rng.choice([0, 1, 2, 4]))]
    return rnd_dict(rng, depth - 1, rng.choice([0, 1, 2, 4]))


def rnd_dict(rng, depth, nkeys):
    d = {}
    for _ in range(nkeys):
        k = rnd_text(rng, rng.choice([0, 1, 1, 3, 8]))
        if k == '_id':
            k = 'id'
        d[k] = rnd_value(rng, depth)
    return d


CODEPAGES = ['latin-1', 'cp1252', 'iso-8859-15']
_REPERTOIRE = {'latin-1': '\u00e9\u00e8\u00fc\u00f1\u00df\u00bd\u00a3\u00c5', 'cp1252': '\u00e9\u00fc\u00df\u20ac\u2026\u0153\u2019\u00c5',
               'iso-8859-15': '\u00e9\u00fc\u00df\u20ac\u0153\u0160\u017e\u00c5'}


def fit_codepage(o, encoding):
    """the same object with every character outside the code page replaced by one inside it
    (accented letters, currency signs, typographic punctuation)"""
    rep = _REPERTOIRE[encoding]
    if isinstance(o, str):
        out = []
        for ch in o:
            try:
                ch.encode(encoding)
                out.append(ch)
            except UnicodeEncodeError:
                out.append(rep[ord(ch) % len(rep)])
        return ''.join(out)
    if isinstance(o, list):
        return [fit_codepage(x, encoding) for x in o]
    if isinstance(o, dict):
        return {fit_codepage(k, encoding): fit_codepage(v, encoding) for k, v in o.items()}
    return o


def rnd_case(desc):
    """everything about a random execution is derived from (seed, n, size)"""
    rng = random.Random(desc['seed'] * 1000003 + desc['n'] * 7 + {'empty': 0, 'tiny': 1, 'medium': 2,
                                                                   'big': 3, 'aligned': 4, 'many': 5, 'single': 6}[desc['size']])
    size = desc['size']
    codec = rng.choice(['none', 'gzip', 'zstd'])
    encoding = 'utf-8'
    _LINES[0] = True
    if size == 'single':
        # one object, written as usual, read back as one document (lines=False), in every encoding
        _LINES[0] = False
        encoding = ['utf-16', 'utf-32', 'utf-8', 'utf-16'][desc['n'] % 4]
        obj = rnd_dict(rng, rng.choice([1, 2, 4]), rng.choice([0, 1, 3]))
        obj['_id'] = 1
        obj['t'] = rnd_text(rng, rng.choice([0, 5, 40]), 'wide')

        def plan_whole(data, lines_b):
            return None
        return [obj], codec, encoding, rng.choice(['path', 'fileobj']), 'path', plan_whole, True
    if size in ('tiny', 'medium') and rng.random() < 0.12:
        encoding = 'utf-16'
    elif size in ('tiny', 'medium') and rng.random() < 0.18:
        encoding = rng.choice(CODEPAGES)        # single-byte code pages: texts within their repertoire
    tagged = rng.random() < 0.8
    objs = []
    if size == 'aligned':
        # a chosen character starts exactly at byte offset 65536 (or 131072) of the
        # uncompressed file, inside a string value: U+FEFF, a 2/3/4-byte character, NEL,
        # LINE SEPARATOR ...
        import orjson
        codec, encoding, tagged = 'none', 'utf-8', True
        ch = ['\ufeff', '\u00e9', '\u20ac', '\U0001f600', '\u0085', '\u2028', '\ufeff', '\ufeff'][desc['n'] % 8]
        k = 1 + desc['n'] % 2
        shift = [0, 0, 0, -1, -2, 1][desc['n'] % 6]     # also: the boundary inside the character
        pre = [{'_id': 1, 't': rnd_text(rng, 50, 'mixed')}]
        head = len((orjson.dumps(pre[0]).decode() + '\n').encode('utf-8'))
        probe = {'_id': 2, 't': ''}
        p0 = len(orjson.dumps(probe)) - 2        # bytes of line 2 before the string content
        pad = CHUNK * k - head - p0 + shift
        objs = pre + [{'_id': 2, 't': 'a' * pad + ch + 'Z' + rnd_text(rng, 20, 'mixed')},
                      {'_id': 3, 't': rnd_text(rng, 30, 'wide')}]
        def plan_none(data, lines_b):
            return None
        return objs, codec, encoding, 'path', rng.choice(['path', 'fileobj']), plan_none, tagged
    if size == 'many':
        # thousands of small objects (counts around 1000, 2000 ...), in every encoding
        encoding = ['utf-16', 'utf-32', 'utf-8', 'utf-16'][desc['n'] % 4]
        for _ in range(rng.choice([999, 1000, 1001, 1500, 2001, 2600])):
            objs.append(rnd_dict(rng, rng.choice([0, 1]), rng.choice([0, 1, 2])))
    if size == 'tiny':
        for _ in range(rng.choice([1, 1, 2, 3, 5])):
            objs.append(rnd_dict(rng, rng.choice([0, 1, 3]), rng.choice([0, 0, 1, 2, 3])))
    elif size == 'medium':
        for _ in range(rng.choice([6, 20, 60])):
            objs.append(rnd_dict(rng, rng.choice([1, 2, 4]), rng.choice([0, 1, 3, 6])))
    elif size == 'big':
        target = int(CHUNK * rng.choice([1.0, 1.0, 2.0, 1.5, 3.3, 4.2]) * (1.8 if codec != 'none' else 1)) \
            + rng.randint(-40, 40)
        nobj = rng.choice([1, 3, 12, 60, 250])
        kind = rng.choice(['mixed', 'mixed', 'wide', 'special'])
        if codec != 'none' and kind == 'special':
            kind = 'mixed'                     # must stay incompressible to span several reads
        avg = {'mixed': 2.4, 'wide': 3.0, 'special': 1.5}[kind]
        per = max(1, int(target / nobj / avg))
        for _ in range(nobj):
            d = rnd_dict(rng, 1, rng.choice([0, 1, 2]))
            d['t'] = rnd_text(rng, max(0, per + rng.randint(-per // 3, per // 3)), kind)
            if rng.random() < 0.3:
                d['l'] = [rnd_text(rng, 3, kind), rnd_int(rng), rnd_float(rng), None]
            objs.append(d)
    if encoding in CODEPAGES:
        objs = [fit_codepage(o, encoding) for o in objs]
    if tagged:
        for i, o in enumerate(objs):
            o['_id'] = i + 1
            if rng.random() < 0.5:       # the id is not always the last key
                objs[i] = dict([('_id', i + 1)] + [(k, v) for k, v in o.items() if k != '_id'])
    elif objs and rng.random() < 0.5:
        objs.insert(rng.randrange(len(objs) + 1), {})
        if rng.random() < 0.5:
            j = rng.randrange(len(objs))
            objs.insert(j, C.json.loads(C.json.dumps(objs[j])))     # an equal object, twice
    dump_how = rng.choice(['path', 'open_obj', 'fileobj'])
    load_how = rng.choice(['path', 'open_obj', 'fileobj', 'fileobj'])
    if dump_how == 'path' and desc['n'] % 3 == 0:
        dump_how = 'bare'
    style = rng.choice(['full', 'ones', 'small', 'any', 'near'])
    prng = random.Random(rng.getrandbits(32))

    def plan_fn(data, lines_b):
        n = len(data)
        if style == 'full' or load_how == 'open_obj' and prng.random() < 0.5:
            return None
        floor = max(1, n // 150)           # keeps the number of reads (and the trace) small
        sizes = []
        left = n
        while left > 0:
            if style == 'ones':
                k = floor
            elif style == 'small':
                k = prng.randint(floor, floor + 6)
            elif style == 'near':
                k = prng.choice([CHUNK, CHUNK - 1, CHUNK - 2, CHUNK - 3, CHUNK // 2 + 1])
            else:
                k = prng.randint(floor, CHUNK)
            k = min(k, left, CHUNK)
            sizes.append(k)
            left -= k
        return sizes
    return objs, codec, encoding, dump_how, load_how, plan_fn, tagged


def run_case(desc, tmpdir):
    C.use_repo()
    _LINES[0] = True
    if desc['kind'] == 'beh':
        objs = beh_objects(desc['objs'])
        tr = record(objs, desc['codec'], 'utf-8', desc.get('dump_how', 'fileobj'),
                    desc.get('load_how', 'fileobj'), beh_plan(desc, objs), True, tmpdir)
        info = {'encoding': 'utf-8', 'dump_how': desc.get('dump_how', 'fileobj'),
                'load_how': desc.get('load_how', 'fileobj'), 'tagged': True}
    else:
        objs, codec, encoding, dump_how, load_how, plan_fn, tagged = rnd_case(desc)
        tr = record(objs, codec, encoding, dump_how, load_how, plan_fn, tagged, tmpdir)
        info = {'encoding': encoding, 'dump_how': dump_how, 'load_how': load_how, 'tagged': tagged}
    return tr, info, objs


def validate(traces, invariants=('TraceConfluence',)):
    """the long traces are dealt round-robin over the TLC invocations (they would otherwise
    all end up in the last one and be validated one after the other)"""
    n = len(traces)
    chunk = 600 if n > 2400 else max(50, (n + 7) // 8)
    nch = max(1, (n + chunk - 1) // chunk)
    weight = lambda t: len(C.json.dumps(t))
    order = sorted(range(n), key=lambda i: -weight(traces[i]))
    bins = [[] for _ in range(nch)]
    for j, i in enumerate(order):
        bins[j % nch].append(i)
    perm = [i for b in bins for i in b]
    verdicts, st = C.validate_traces('JsonLinesTrace', [traces[i] for i in perm], workers=8, chunk=max(len(b) for b in bins),
                                     cfg_text=C.cfg(spec='TraceSpec', constants=TRACE_CONST,
                                                    invariants=list(invariants)))
    out = [None] * n
    for pos, i in enumerate(perm):
        out[i] = verdicts[pos]
    return out, st


def brief(tr):
    """a trace without the long vectors, for witnesses and samples"""
    t = dict(tr)
    for k in ('objs', 'linebytes', 'linechars', 'emitted', 'final', 'wire', 'reads', 'realreads',
              'realdeliv'):
        if len(C.json.dumps(t[k])) > 600:
            t[k] = {'len': len(t[k]), 'head': t[k][:8]}
    return t


# ---------------------------------------------------------------- the check

def do_replay(path):
    """Re-run one recorded case against the real code and let TLC judge it again."""
    w = C.json.load(open(path))['witness']
    with C.scratch('rxsci-verif.c19.') as d:
        tr, info, objs = run_case(w['case'], d)
    v, _ = validate([tr])
    print('replay verdict:', v[0])
    print('case:', w['case'], info)
    print('objects: %d, file bytes: %d, codec: %s' % (tr['nobjs'], tr['filebytes'], tr['codec']))
    print('real reads:', tr['realreads'][:20], 'ended:', tr['ended'])
    print('ids emitted per read:', tr['emitted'][:20], 'at completion:', tr['final'][:40],
          'wrong values:', tr['badvalue'][:20])
    if v[0][0] == 'REJECT':
        print('VIOLATION property=%s replay=%s clause=%s' % (PROP, path, v[0][2]))
        return 1
    return 0


MC_INV = ['TypeOK', 'SerializerAxiom', 'CodecAxiom', 'FramingAxiom', 'WireAxiom', 'Confluence',
          'NoEarlyOutput', 'PrefixOfDumped', 'NoError', 'RoundTrip']


def main(tier, replay):
    if replay:
        return do_replay(replay)
    C.use_repo()
    V = C.Verdict(PROP, tier)
    thorough = tier == 'thorough'
    seed = C.seed()

    # 1+2. model checking and behaviour generation, all TLC jobs concurrently -----
    base = dict(NL=NL, HdrLen=1, TrlLen=1, Greedy=False, KeepHist=False)
    allenv = {1, 2, 3, 4, 14}         # regular file R = 1..4, file object with short reads R = 4
    if thorough:
        mc_jobs = [
            dict(base, Syms={11, 21, 31}, MaxObjs=3, MaxLen=2, Comps={0}, Envs=allenv),
            dict(base, Syms={11, 31}, MaxObjs=3, MaxLen=2, Comps={1}, Envs=allenv),
            dict(base, Syms={11, 21, 31}, MaxObjs=3, MaxLen=2, Comps={1}, Envs={14}),
            dict(base, Syms={11, 21, 31}, MaxObjs=2, MaxLen=2, Comps={1}, Envs=allenv,
                 HdrLen=2, TrlLen=2),
            dict(base, Syms={11, 21}, MaxObjs=2, MaxLen=3, Comps={0, 1}, Envs={2, 3, 13}),
        ]
    else:
        mc_jobs = [
            dict(base, Syms={11, 21, 31}, MaxObjs=3, MaxLen=2, Comps={0}, Envs=allenv),
            dict(base, Syms={11, 21, 31}, MaxObjs=2, MaxLen=2, Comps={1}, Envs=allenv),
        ]
    gbase = dict(NL=NL, HdrLen=1, TrlLen=1, Greedy=True, KeepHist=True)
    nsim = 5000 if thorough else 900
    gen_jobs = [
        (dict(gbase, Syms={11, 21, 31}, MaxObjs=2, MaxLen=1, Comps={0, 1}, Envs={13}), None),
        (dict(gbase, Syms={11, 31}, MaxObjs=1, MaxLen=2, Comps={0, 1}, Envs={1, 2, 12}), None),
        (dict(gbase, Syms={11, 21, 31, 41}, MaxObjs=3, MaxLen=2, Comps={0, 1},
              Envs={1, 2, 3, 4, 12, 13, 14}), nsim),
    ]

    def mc(const):
        return C.run_tlc('JsonLines', C.cfg(constants=const, invariants=MC_INV), coverage=True,
                         workers=4)

    def gen(job):
        const, sim = job
        text = C.cfg(constants=const, invariants=['EmitBehaviour'])
        if sim is None:
            r = C.run_tlc('JsonLines', text, workers=2)
        else:
            r = C.run_tlc('JsonLines', text, workers=1, simulate='num=%d' % sim, depth=60,
                          tlc_seed=seed + 1)
        return C.extract_printed(r.stdout, 'BEH')
    results = C.par([lambda c=c: mc(c) for c in mc_jobs] + [lambda j=j: gen(j) for j in gen_jobs],
                    max_workers=5)
    mc_stats = []
    for const, r in zip(mc_jobs, results[:len(mc_jobs)]):
        if r.violated:
            raise C.MachineryError('JsonLines model violates %s:\n%s' % (r.violated, r.error_trace))
        mc_stats.append((const, r))
    V.phase('model checking + behaviour generation')

    # 3. replay of the TLC behaviours + random executions ------------------------
    rng = random.Random(seed * 7919 + 19)
    cap = None if thorough else 500
    cases = []
    gen_counts = []
    for (const, sim), behs in zip(gen_jobs, results[len(mc_jobs):]):
        uniq = {}
        for b in behs:
            _, objs, comp, kind, R, hist = b
            uniq.setdefault(C.json.dumps([objs, comp, hist]), (objs, comp, kind, R, hist))
        lst = [uniq[k] for k in sorted(uniq)]
        n_all = len(lst)
        if sim is None and cap is not None and len(lst) > cap:
            lst = rng.sample(lst, cap)
        gen_counts.append({'constants': {k: str(v) for k, v in const.items()},
                           'exhaustive': sim is None, 'generated': len(behs), 'distinct': n_all,
                           'replayed': len(lst)})
        for i, (objs, comp, kind, R, hist) in enumerate(lst):
            if comp == 0:
                codecs = ['none']
            elif thorough or i % 4 == 0:
                codecs = ['gzip', 'zstd']
            else:
                codecs = [['gzip', 'zstd'][i % 2]]
            for codec in codecs:
                cases.append({'kind': 'beh', 'objs': objs, 'comp': comp, 'codec': codec,
                              'mkind': kind, 'R': R, 'reads': hist, 'hdr': const['HdrLen'],
                              'trl': const['TrlLen'],
                              'load_how': 'open_obj' if i % 5 == 4 else 'fileobj',
                              'dump_how': {0: 'open_obj', 1: 'path'}.get(i % 11, 'fileobj')})
    n_beh = len(cases)
    sizes = (['empty'] * 6 + ['tiny'] * 60 + ['medium'] * 40 + ['big'] * 14 + ['aligned'] * 8 + ['many'] * 4 + ['single'] * 8) if not thorough else \
            (['empty'] * 12 + ['tiny'] * 400 + ['medium'] * 300 + ['big'] * 160 + ['aligned'] * 48 + ['many'] * 8 + ['single'] * 40)
    for n, size in enumerate(sizes):
        cases.append({'kind': 'rnd', 'seed': seed, 'n': n, 'size': size})
    traces, infos = [], []
    with C.scratch('rxsci-verif.c19.') as d:
        for desc in cases:
            tr, info, _ = run_case(desc, d)
            traces.append(tr)
            infos.append(info)
    V.phase('replay and random executions')

    # 4. validation by TLC --------------------------------------------------------
    verdicts, tstats = validate(traces)
    V.phase('trace validation')
    out_of_sync = 0
    nontrivial = set()
    tally = {'timed': 0, 'replayable': 0, 'cut_char': 0, 'multi_read_64k': 0, 'by_codec': {},
             'by_load': {}, 'by_dump': {}, 'utf16': 0, 'untagged': 0, 'max_file_bytes': 0}
    for desc, tr, info, v in zip(cases, traces, infos, verdicts):
        tally['by_codec'][tr['codec']] = tally['by_codec'].get(tr['codec'], 0) + 1
        tally['by_load'][info['load_how']] = tally['by_load'].get(info['load_how'], 0) + 1
        tally['by_dump'][info['dump_how']] = tally['by_dump'].get(info['dump_how'], 0) + 1
        tally['timed'] += tr['timed']
        tally['replayable'] += tr['replayable']
        tally['cut_char'] += tr['cutchars'] > 0
        tally['utf16'] += info['encoding'] != 'utf-8'
        tally['untagged'] += not info['tagged']
        tally['max_file_bytes'] = max(tally['max_file_bytes'], tr['filebytes'])
        if len(tr['realreads']) > 1 and max(tr['realreads']) == CHUNK:
            tally['multi_read_64k'] += 1
        if v[0] == 'ACCEPT':
            if v[2] is not True and tr['replayable']:
                out_of_sync += 1
            if tr['replayable'] and tr['cutlines'] > 0:
                nontrivial.add(C.json.dumps([tr['comp'], tr['objs'], tr['reads'], tr['wire']]))
        else:
            clause = v[2]
            if clause.startswith('model-'):
                raise C.MachineryError('trace spec/harness problem: %s on %r (%r)'
                                       % (v, desc, brief(tr)))
            V.violation({'op': desc['kind'], 'codec': tr['codec'], 'encoding': info['encoding'],
                         'load_how': info['load_how'], 'dump_how': info['dump_how'],
                         'tagged': info['tagged'], 'ended': tr['ended'], 'nobjs': tr['nobjs'],
                         'filebytes': tr['filebytes'], 'case': desc, 'trace': brief(tr)},
                        clause, detail='step %s' % v[1])
    if out_of_sync:
        V.note('impl_model_in_sync=false: %d accepted executions emitted items at another read '
               'than the model, or did not read the whole file (allowed by C19)' % out_of_sync)
    uncovered = sorted({a for (_, r) in mc_stats for a, (dd, t) in r.coverage.items() if t == 0})
    small = [t for t in traces if t['replayable'] and t['cutchars'] and len(C.json.dumps(t)) < 1500]
    coverage = {
        'states': sum(r.distinct for (_, r) in mc_stats) + tstats['states'],
        'transitions': sum(r.generated for (_, r) in mc_stats) + tstats['transitions'],
        'traces_validated_against_impl': len(traces),
        'samples': [{'trace': small[0] if small else brief(traces[0])},
                    {'trace': brief(traces[-1])}],
        'exhaustive': True,
        'model_checking_runs': [{'module': 'JsonLines', 'constants': {k: str(v) for k, v in c.items()},
                                 **r.summary()} for (c, r) in mc_stats],
        'tlc_behaviours_replayed': n_beh,
        'behaviour_generation': gen_counts,
        'random_executions': len(cases) - n_beh,
        'executions': tally,
        'distinct_nontrivial': len(nontrivial),
        'rule': 'an execution is non-trivial when at least one read (or release) boundary falls '
                'strictly inside a dumped line, so that the carry-over buffers are in use; '
                'distinct by the down-scaled image (compression, lines, reads, wire)',
        'trace_validation': tstats,
        'impl_model_in_sync': out_of_sync == 0,
        'actions_never_taken': uncovered,
    }
    return V.finish('model_checking', coverage, assumptions=[
        'the serializer is axiomatised (one newline-free line per object, inverse parser); its '
        'axioms are observed on every execution (rawnl flag, python-side value comparison)',
        'the decompressor is axiomatised as a nondeterministic-release stream codec; in traces its '
        'release schedule is taken from a stand-alone decompressor of the same library fed with '
        'the same reads',
        'large executions are judged on their down-scaled image computed by the harness; TLC '
        'cross-checks it against the real line lengths and read sizes (model-downscale)',
        'model alphabet: 2-3 symbols of width 1..3, <=3 objects of <=2 symbols, R <= 4; larger '
        'inputs only through random executions',
        'numbers compare with python == (1 == 1.0), bool/None/str/containers strictly',
        'rx delivers synchronously on the subscribing thread (CurrentThreadScheduler)'])


if __name__ == '__main__':
    C.main_wrapper(main)
