"""C16  Compression round-trips under re-chunking and flags truncated streams.

 1. TLC model-checks StreamCodec.tla: zlib / zstandard are axiomatised (nondeterministic
    compressor, nondeterministic-release decompressor, the named deviation "a call after
    eof raises" of zstandard), the rxsci wrappers are modelled as coded.  Every plain
    chunk list, every compressor behaviour, every re-chunking (empty chunks included)
    and every truncation point within the bounds.
 2. TLC generates behaviours (plain chunks, cut vector, truncation point); they are
    replayed on the real z / zstd operators, cut positions mapped proportionally onto
    the real compressed length.
 3. The harness adds, at byte level, every 2-cut and every truncation point of the real
    compressed stream of small inputs, and random executions far beyond the model
    bounds (0 .. 300 000 byte chunks, compressible / incompressible data).
 4. Every recorded execution is validated by TLC against StreamCodecTrace.tla, which
    also checks the library axioms on a shadow library object.
"""
import gzip
import hashlib
import os
import random
import sys
import zlib

sys.path.insert(0, os.path.dirname(os.path.dirname(os.path.dirname(os.path.abspath(__file__)))))
from harness import common as C  # noqa: E402

PROP = 'C16'
BYTES_SCALE_LIMIT = 400      # plain + wire bytes that go to TLC byte by byte
MAX_BLOCK_FEEDS = 60         # feeds per big (down-scaled) trace


# ---------------------------------------------------------------- codecs

def _zstd():
    import zstandard
    return zstandard


CODECS = {
    'gzip': {'module': 'rxsci.compression.z', 'after_eof': 'ignore'},
    'zstd': {'module': 'rxsci.compression.zstd', 'after_eof': 'error'},
}


def rx_module(codec):
    import importlib
    return importlib.import_module(CODECS[codec]['module'])


def shadow_decompressor(codec):
    """The library object the axioms speak about (what the wrapper is coded against)."""
    if codec == 'gzip':
        return zlib.decompressobj(wbits=zlib.MAX_WBITS | 16)
    return _zstd().ZstdDecompressor().decompressobj()


_ref_cache = {}


def reference(codec, wire, plain):
    """What the reference decoder says about the concatenated compress() output."""
    key = (codec, wire)
    if key in _ref_cache:
        out = _ref_cache[key]
    else:
        out = None
        try:
            if codec == 'gzip':
                # gzip.decompress(b'') == b'' (zero members); a standalone gzip *file* has
                # at least one member (gzip(1): "unexpected end of file")
                out = gzip.decompress(wire) if len(wire) > 0 else None
            else:
                zs = _zstd()
                out = zs.ZstdDecompressor().decompress(wire, max_output_size=len(plain) + 4096)
                d = zs.ZstdDecompressor().decompressobj()
                d.decompress(wire)
                if not d.eof or d.unused_data:
                    out = None
        except Exception:
            out = None
        if len(_ref_cache) > 5000:
            _ref_cache.clear()
        _ref_cache[key] = out
    return {'valid': out is not None, 'equal': out is not None and out == plain}


# ---------------------------------------------------------------- inputs as recipes

def mk(recipe):
    k = recipe['k']
    if k == 'hex':
        return bytes.fromhex(recipe['v'])
    if k == 'rnd':
        return random.Random(recipe['seed']).randbytes(recipe['n'])
    if k == 'rep':
        pat = bytes.fromhex(recipe['pat'])
        return (pat * (recipe['n'] // len(pat) + 1))[:recipe['n']]
    if k == 'ctr':      # compressible, and every position differs from every other one
        n = recipe['n']
        return b''.join(b'%09d\n' % i for i in range(n // 10 + 1))[:n]
    if k == 'cat':
        return b''.join(mk(r) for r in recipe['parts'])
    raise C.MachineryError('bad recipe %r' % (recipe,))


def lit(b):
    return {'k': 'hex', 'v': bytes(b).hex()}


# ---------------------------------------------------------------- real code drivers

_OPS = {}
_USE = [0]


def _op(kind, codec):
    """two executions out of three re-subscribe an operator object that already served
    earlier (possibly truncated) streams: operators are factories"""
    _USE[0] += 1
    mod = rx_module(codec)
    make = mod.compress if kind == 'c' else mod.decompress
    if _USE[0] % 3 == 0:
        return make()
    key = (kind, codec, id(mod))
    if key not in _OPS:
        _OPS[key] = make()
    return _OPS[key]


def _observe(subj, op):
    cur = []
    st = {'ended': 'open', 'n_terminal': 0}

    def on_error(e):
        st['n_terminal'] += 1
        if st['ended'] == 'open':
            st['ended'] = 'error:%s' % type(e).__name__

    def on_completed():
        st['n_terminal'] += 1
        if st['ended'] == 'open':
            st['ended'] = 'completed'
    subj.pipe(op).subscribe(on_next=cur.append, on_error=on_error, on_completed=on_completed)
    return cur, st


def _take(cur):
    out = b''.join(bytes(x) for x in cur)
    cur.clear()
    return out


_SIB = [0]
_SIB_WIRE = {}


def _sibling(op, codec, kind):
    """A second, live subscription of the SAME operator object fed with unrelated data
    between the chunks of the stream under test (every third execution): operators are
    factories, two subscriptions must not share compressor / decompressor state."""
    from rx.subject import Subject
    _SIB[0] += 1
    if _SIB[0] % 3 != 0:
        return lambda: None
    sj = Subject()
    sj.pipe(op).subscribe(on_next=lambda x: None, on_error=lambda e: None)
    if 'plain' not in _SIB_WIRE:
        import random as _r
        rr = _r.Random(16)
        _SIB_WIRE['plain'] = b''.join(bytes([rr.randrange(256)]) * rr.randint(1, 9) for _ in range(90000))
    plain = _SIB_WIRE['plain']
    if kind == 'c':
        feed = [plain[i:i + 150000] for i in range(0, len(plain), 150000)]
        cyclic = True
    else:
        if codec not in _SIB_WIRE:
            import gzip as _gz
            _SIB_WIRE[codec] = _gz.compress(plain) if codec == 'gzip' \
                else _zstd().ZstdCompressor().compress(plain)
        w = _SIB_WIRE[codec]
        feed = [w[i:i + 4096] for i in range(0, len(w), 4096)]
        cyclic = False
    state = {'i': 0}

    def poke():
        if cyclic or state['i'] < len(feed):
            try:
                sj.on_next(feed[state['i'] % len(feed)])
            except Exception:
                pass
            state['i'] += 1
    return poke


_PULL = [0]
_FORCE = [None]      # delivery mode of the next decompress runs: None (by turns), 'pull', 'sync', 'push'


def _run_pull(kind, codec, pieces):
    """Pull-driven delivery: the subscriber pushes the next piece from inside its on_next (a
    reader that asks for more data when it receives some).  The bytes are attributed to the
    piece pushed last, so that their concatenation is the order in which they were emitted.
    -> (bytes per piece, bytes at completion, ended, err_at)"""
    from rx.subject import Subject
    subj = Subject()
    op = _op(kind, codec)
    st = {'ended': 'open', 'n_terminal': 0}
    outs = [[] for _ in pieces]
    final = []
    pos = [0]
    err_at = [0]

    def push_next():
        j = pos[0]
        pos[0] += 1
        subj.on_next(pieces[j])

    depth = [0]

    def on_next(x):
        (outs[pos[0] - 1] if pos[0] >= 1 and not st.get('completing') else final).append(bytes(x))
        if pos[0] < len(pieces) and st['ended'] == 'open' and not st.get('completing') and depth[0] < 30:
            depth[0] += 1          # (bounded nesting: the interpreter's stack is not the subject)
            try:
                push_next()
            finally:
                depth[0] -= 1

    def on_error(e):
        st['n_terminal'] += 1
        if st['ended'] == 'open':
            st['ended'] = 'error:%s' % type(e).__name__
            err_at[0] = err_at[0] or (len(pieces) + 1 if st.get('completing') else pos[0])

    def on_completed():
        st['n_terminal'] += 1
        if st['ended'] == 'open':
            st['ended'] = 'completed'
    subj.pipe(op).subscribe(on_next=on_next, on_error=on_error, on_completed=on_completed)
    while pos[0] < len(pieces):
        try:
            push_next()
        except Exception as e:
            if st['ended'] == 'open':
                st['ended'] = 'raised:%s' % type(e).__name__
                err_at[0] = err_at[0] or pos[0]
    st['completing'] = True
    try:
        subj.on_completed()
    except Exception as e:
        if st['ended'] == 'open':
            st['ended'] = 'raised:%s' % type(e).__name__
    if err_at[0] == 0 and st['ended'] not in ('open', 'completed'):
        err_at[0] = len(pieces) + 1
    return [b''.join(o) for o in outs], b''.join(final), st['ended'], err_at[0]


def _run_sync(kind, codec, pieces):
    """A cold source that delivers every piece and the completion from inside its subscribe
    function (nothing is deferred to a scheduler): the operator's subscribe() has not
    returned yet when the data arrives.  Same result shape as _run_pull."""
    import rx
    op = _op(kind, codec)
    st = {'ended': 'open', 'n_terminal': 0}
    outs = [[] for _ in pieces]
    final = []
    pos = [0]
    err_at = [0]

    def _sub(observer, scheduler):
        for j, p in enumerate(pieces):
            pos[0] = j + 1
            observer.on_next(p)
        st['completing'] = True
        observer.on_completed()

    def on_next(x):
        (outs[pos[0] - 1] if pos[0] >= 1 and not st.get('completing') else final).append(bytes(x))

    def on_error(e):
        st['n_terminal'] += 1
        if st['ended'] == 'open':
            st['ended'] = 'error:%s' % type(e).__name__
            err_at[0] = err_at[0] or (len(pieces) + 1 if st.get('completing') else pos[0])

    def on_completed():
        st['n_terminal'] += 1
        if st['ended'] == 'open':
            st['ended'] = 'completed'
    try:
        rx.create(_sub).pipe(op).subscribe(on_next=on_next, on_error=on_error, on_completed=on_completed)
    except Exception as e:
        if st['ended'] == 'open':
            st['ended'] = 'raised:%s' % type(e).__name__
            err_at[0] = err_at[0] or (len(pieces) + 1 if st.get('completing') else max(1, pos[0]))
    return [b''.join(o) for o in outs], b''.join(final), st['ended'], err_at[0]


def _as_buffer(c, j):
    """the same bytes as another bytes-like object (a bytearray filled by readinto, a
    memoryview slice of a larger buffer), by position"""
    if j % 4 == 1:
        return bytearray(c)
    if j % 4 == 3:
        return memoryview(bytes(c))
    return c


def run_compress(codec, chunks):
    """-> (bytes emitted per item, bytes emitted at completion, ended)"""
    from rx.subject import Subject
    _PULL[0] += 1
    if _PULL[0] % 5 == 0:
        a, b, c, _ = _run_pull('c', codec, chunks)
        return a, b, c
    if _PULL[0] % 7 == 0:
        a, b, c, _ = _run_sync('c', codec, chunks)
        return a, b, c
    subj = Subject()
    op = _op('c', codec)
    cur, st = _observe(subj, op)
    poke = _sibling(op, codec, 'c')
    couts = []
    for j, c in enumerate(chunks):
        poke()
        try:
            subj.on_next(_as_buffer(c, j + _PULL[0]))
        except Exception as e:
            if st['ended'] == 'open':
                st['ended'] = 'raised:%s' % type(e).__name__
        couts.append(_take(cur))
    poke()
    try:
        subj.on_completed()
    except Exception as e:
        if st['ended'] == 'open':
            st['ended'] = 'raised:%s' % type(e).__name__
    return couts, _take(cur), st['ended']


def run_decompress(codec, pieces):
    """-> (bytes emitted per piece, bytes emitted at completion, ended, err_at)"""
    from rx.subject import Subject
    _PULL[0] += 1
    if _FORCE[0] == 'pull' or (_FORCE[0] is None and _PULL[0] % 5 == 0):
        return _run_pull('d', codec, pieces)
    if _FORCE[0] == 'sync' or (_FORCE[0] is None and _PULL[0] % 7 == 0):
        return _run_sync('d', codec, pieces)
    subj = Subject()
    op = _op('d', codec)
    cur, st = _observe(subj, op)
    poke = _sibling(op, codec, 'd')
    douts = []
    err_at = 0
    for j, c in enumerate(pieces):
        poke()
        try:
            subj.on_next(_as_buffer(c, j + _PULL[0]))
        except Exception as e:
            if st['ended'] == 'open':
                st['ended'] = 'raised:%s' % type(e).__name__
        douts.append(_take(cur))
        if err_at == 0 and st['ended'] != 'open':
            err_at = j + 1
    poke()
    try:
        subj.on_completed()
    except Exception as e:
        if st['ended'] == 'open':
            st['ended'] = 'raised:%s' % type(e).__name__
    if err_at == 0 and st['ended'] not in ('open', 'completed'):
        err_at = len(pieces) + 1
    return douts, _take(cur), st['ended'], err_at


def run_shadow(codec, pieces):
    """The library alone on the same pieces: [(out, eof, raised)], flush output."""
    d = shadow_decompressor(codec)
    log = []
    for c in pieces:
        try:
            out = d.decompress(c)
            log.append((out, bool(d.eof), ''))
        except Exception as e:
            log.append((b'', bool(getattr(d, 'eof', False)), type(e).__name__))
    fl = b''
    if getattr(d, 'eof', False):
        try:
            fl = d.flush()
        except Exception:
            fl = b'\xff<flush raised>'
    return log, fl


_know_cache = {}


def measure_know(codec, wire, bounds):
    """Cumulative number of plain bytes the library releases when it is fed the wire
    segment by segment along `bounds` (a sorted list of positions from 0 to len(wire))."""
    key = (codec, wire, tuple(bounds) if len(bounds) != len(wire) + 1 else None)
    if key in _know_cache:
        return _know_cache[key]
    d = shadow_decompressor(codec)
    cum = [0]
    dead = False
    for a, b in zip(bounds, bounds[1:]):
        n = 0
        if not dead:
            try:
                n = len(d.decompress(wire[a:b]))
            except Exception:
                dead = True
        cum.append(cum[-1] + n)
    if len(_know_cache) > 3000:
        _know_cache.clear()
    _know_cache[key] = cum
    return cum


def record(codec, recipes, feed_sizes=None, chunking=None, truncate=None):
    """Run one case on the real operators.  feed_sizes: byte counts of the pieces handed
    to decompress() (their sum is the truncation point); or `chunking`: a callable
    (wire, couts, cfinal) -> feed_sizes."""
    chunks = [mk(r) for r in recipes]
    plain = b''.join(chunks)
    with C.quiet_stdout():
        couts, cfinal, cended = run_compress(codec, chunks)
    wire = b''.join(couts) + cfinal
    if feed_sizes is None:
        feed_sizes = chunking(wire, couts, cfinal)
    pieces = []
    p = 0
    for n in feed_sizes:
        pieces.append(wire[p:p + n])
        p += n
    if p > len(wire):
        if cended == 'completed':
            raise C.MachineryError('feeds exceed the wire: %r > %d' % (feed_sizes, len(wire)))
        # the compressor under test failed: what it produced is cut as far as it goes, the
        # trace is judged (and rejected) on how the compression ended
        clipped, p = [], 0
        for n in feed_sizes:
            n = max(0, min(n, len(wire) - p))
            clipped.append(n)
            p += n
        feed_sizes = clipped
        pieces = []
        p = 0
        for n in feed_sizes:
            pieces.append(wire[p:p + n])
            p += n
    rec = {'codec': codec, 'recipes': recipes, 'chunks': chunks, 'plain': plain,
           'couts': couts, 'cfinal': cfinal, 'cended': cended, 'wire': wire,
           'feed_sizes': list(feed_sizes), 'pieces': pieces, 'truncb': p}
    if cended == 'completed':
        with C.quiet_stdout():
            rec['douts'], rec['dfinal'], rec['ended'], rec['err_at'] = run_decompress(codec, pieces)
        rec['lib'], rec['libflush'] = run_shadow(codec, pieces)
    else:
        rec['feed_sizes'], rec['pieces'], rec['truncb'] = [], [], 0
        rec['douts'], rec['dfinal'], rec['ended'], rec['err_at'] = [], b'', 'open', 0
        rec['lib'], rec['libflush'] = [], b''
    rec['ref'] = reference(codec, wire, plain)
    return rec


# ---------------------------------------------------------------- abstraction for TLC

def _consistent_offsets(plain, outs):
    """cumulative offsets of `outs` while they are the expected parts of `plain`"""
    offs = []
    off = 0
    for o in outs:
        if plain[off:off + len(o)] != o or off + len(o) > len(plain):
            break
        off += len(o)
        offs.append(off)
    return offs


def abstract(rec):
    """The trace given to TLC (see StreamCodecTrace.tla)."""
    plain, wire = rec['plain'], rec['wire']
    P, W = len(plain), len(wire)
    small = P + W <= BYTES_SCALE_LIMIT
    wrapper_outs = rec['douts'] + [rec['dfinal']]
    lib_outs = [o for (o, _, _) in rec['lib']] + [rec['libflush']]
    # wire units
    if small:
        wb = list(range(W + 1))
    else:
        s = {0, W, rec['truncb']}
        p = 0
        for o in rec['couts']:
            p += len(o)
            s.add(p)
        p = 0
        for n in rec['feed_sizes']:
            p += n
            s.add(p)
        wb = sorted(s)
    windex = {b: i for i, b in enumerate(wb)}
    cum = measure_know(rec['codec'], wire, wb)
    # plain symbols
    if small:
        pb = list(range(P + 1))
    else:
        s = {0, P}
        p = 0
        for c in rec['chunks']:
            p += len(c)
            s.add(p)
        s.update(x for x in cum if x <= P)
        s.update(_consistent_offsets(plain, wrapper_outs))
        s.update(_consistent_offsets(plain, lib_outs))
        pb = sorted(s)
    pindex = {b: i for i, b in enumerate(pb)}

    def sym_range(a, b):
        if small:
            return list(plain[a:b])
        return [256 + j for j in range(pindex[a], pindex[b])]

    class Out:
        """maps successive released byte strings to symbols"""

        def __init__(self):
            self.off = 0
            self.ok = True

        def __call__(self, o):
            if small:
                return list(o)
            if not o:
                return []
            a = self.off
            if self.ok and plain[a:a + len(o)] == o and a + len(o) <= P:
                self.off += len(o)
                return sym_range(a, a + len(o))
            self.ok = False
            return [-1]

    def units(a, b):
        """wire units of the byte range [a, b): the symbols each one carries"""
        ks = []
        for i in range(windex[a], windex[b]):
            x = cum[i + 1] - cum[i]
            if small:
                ks.append(x)
            else:
                # bytes -> symbols: the fine measurement run releases along pb boundaries
                lo, hi = cum[i], cum[i + 1]
                if lo in pindex and hi in pindex:
                    ks.append(pindex[hi] - pindex[lo])
                else:   # releases beyond the plain text (broken wire): keep it visible
                    ks.append(len(pb) + 1)
        return ks
    tr = {'codec': rec['codec'], 'scale': 'bytes' if small else 'blocks'}
    p = 0
    tr['chunks'] = []
    for c in rec['chunks']:
        tr['chunks'].append(sym_range(p, p + len(c)))
        p += len(c)
    p = 0
    tr['couts'] = []
    for o in rec['couts']:
        tr['couts'].append(units(p, p + len(o)))
        p += len(o)
    tr['cfinal'] = units(p, W)
    tr['cended'] = rec['cended']
    tr['ref'] = rec['ref']
    tr['wlen'] = len(wb) - 1
    tr['truncated_at'] = windex[rec['truncb']]
    wo, lo = Out(), Out()
    tr['feeds'] = []
    p = 0
    for j, n in enumerate(rec['feed_sizes']):
        lout, leof, lraised = rec['lib'][j]
        tr['feeds'].append({'n': windex[p + n] - windex[p], 'nb': n,
                            'out': wo(rec['douts'][j]), 'ob': len(rec['douts'][j]),
                            'lib': lo(lout), 'libeof': leof, 'libraised': lraised})
        p += n
    tr['final'] = wo(rec['dfinal'])
    tr['finalb'] = len(rec['dfinal'])
    tr['libflush'] = lo(rec['libflush'])
    tr['ended'] = rec['ended']
    tr['ended_kind'] = rec['ended'].split(':')[0]
    tr['err_at'] = rec['err_at']
    tr['plainb'], tr['wireb'], tr['truncb'] = P, W, rec['truncb']
    return tr


def summary(rec):
    """What is kept about a recorded execution besides the TLC trace (lengths + hashes)."""
    h = lambda b: hashlib.sha256(b).hexdigest()[:16]
    out = b''.join(rec['douts']) + rec['dfinal']
    return {'codec': rec['codec'], 'chunk_lens': [len(c) for c in rec['chunks']],
            'plain_sha': h(rec['plain']), 'compress_out_lens': [len(o) for o in rec['couts']]
            + [len(rec['cfinal'])], 'wire_len': len(rec['wire']), 'wire_sha': h(rec['wire']),
            'feeds': rec['feed_sizes'], 'truncated_at': rec['truncb'],
            'released': [len(o) for o in rec['douts']], 'released_at_completion': len(rec['dfinal']),
            'output_sha': h(out), 'output_is_prefix_of_plain': rec['plain'].startswith(out),
            'ended': rec['ended'], 'err_at': rec['err_at'], 'reference': rec['ref']}


# ---------------------------------------------------------------- re-chunkings

def sizes_from_cuts(cuts, end):
    out = []
    p = 0
    for c in sorted(cuts):
        out.append(c - p)
        p = c
    out.append(end - p)
    return out


def random_feeds(rng, wire, couts, cfinal, small):
    """(feed sizes, kind): a random re-chunking of a random prefix of the wire"""
    W = len(wire)
    t = W
    if rng.random() < 0.4 and W > 0:
        t = rng.choice([W - 1, W - 1, max(0, W - rng.randint(1, 9)), rng.randint(0, W - 1),
                        rng.randint(0, min(W - 1, 12)), 0])
    kind = rng.choice(['whole', 'own', 'bytes', 'cuts', 'cuts', 'edges'])
    if kind == 'whole':
        sizes = [t]
    elif kind == 'own':
        sizes = []
        left = t
        for o in couts + [cfinal]:
            n = min(len(o), left)
            sizes.append(n)
            left -= n
    elif kind == 'bytes' and (small or t <= MAX_BLOCK_FEEDS - 4):
        sizes = [1] * t
    elif kind == 'edges':
        a = min(t, rng.randint(1, 12))
        b = min(t - a, rng.randint(1, 12))
        sizes = [1] * a + ([t - a - b] if t - a - b > 0 else []) + [1] * b
    else:
        k = rng.randint(1, 6 if not small else 12)
        sizes = sizes_from_cuts([rng.randint(0, t) for _ in range(k)], t)
    # sprinkle empty chunks (also after the last byte)
    for _ in range(rng.choice([0, 0, 1, 2])):
        sizes.insert(rng.randint(0, len(sizes)), 0)
    if rng.random() < 0.15:
        sizes.append(0)
    if not small and len(sizes) > MAX_BLOCK_FEEDS:
        head = sizes[:MAX_BLOCK_FEEDS - 1]
        sizes = head + [t - sum(head)]
    return sizes, kind


def random_recipes(rng, big_ok):
    n = rng.choice([0, 1, 1, 2, 3, 3, 5])
    pool = [0, 0, 1, 2, 7, 100, rng.randint(0, 300), 1000]
    if big_ok:
        pool += [70000, 70000, 300000, rng.randint(1000, 140000), 131072, 65536, 32768]
    out = []
    for _ in range(n):
        size = rng.choice(pool)
        kind = rng.choice(['rnd', 'rep', 'rep1', 'text'])
        if kind == 'rnd':
            out.append({'k': 'rnd', 'seed': rng.randint(0, 10 ** 9), 'n': size})
        elif kind == 'rep1':
            out.append({'k': 'rep', 'pat': '%02x' % rng.randint(0, 255), 'n': size})
        elif kind == 'rep':
            out.append({'k': 'rep', 'pat': rng.randbytes(rng.randint(1, 40)).hex(), 'n': size})
        else:
            out.append({'k': 'rep', 'pat': b'The quick brown fox jumps over the lazy dog, '.hex(),
                        'n': size})
    return out


# ---------------------------------------------------------------- model configurations

INVS_ALL = ['TypeOK', 'PrefixSafe', 'NothingEarly', 'CleanMeansAll', 'TruncationFlagged',
            'UntruncatedFailsOnlyAfterEof', 'LibEofExact', 'LibAllReleased', 'WireCarriesText',
            'CompressTrailer', 'WireShape']

TRACE_CONST = dict(Sym=set(), MaxChunks=10 ** 6, MaxTotal=10 ** 9, HdrLen=0, TrlLen=0, MaxZero=0,
                   MaxFeed=0, WeakFlush=False, KeepHist=False)

_RE_COV = C.re.compile(r'^<(\w+) line \d+, col \d+ to line \d+, col \d+ of module (\w+)'
                       r'(?: \([\d ]+\))?>: (\d+):(\d+)', C.re.M)


def action_coverage(r):
    return {m.group(1): int(m.group(4)) for m in _RE_COV.finditer(r.stdout)}


def trace_cfg(codec, variant):
    const = dict(TRACE_CONST, AfterEof=CODECS[codec]['after_eof'],
                 Wrapper=variant if codec == 'zstd' else 'coded')
    return C.cfg(spec='TraceSpec', constants=const, invariants=['TraceInvariants'])


def detect_variant():
    """Which modelled decompress() wrapper the zstd code under test corresponds to:
    "coded" hands empty input to the library even after eof, "guarded" does not."""
    rec = record('zstd', [lit(b'ab')], chunking=lambda w, c, f: [len(w), 0])
    if rec['ended'] == 'completed':
        return 'guarded'
    return 'coded'


def witness_of(rec, tr, v):
    small = tr['scale'] == 'bytes'
    w = {'codec': rec['codec'], 'cause': v[3] if len(v) > 3 else '', 'ended': rec['ended'],
         'err_at': rec['err_at'], 'truncated': rec['truncb'] < len(rec['wire']),
         'case': {'codec': rec['codec'], 'recipes': rec['recipes'], 'feeds': rec['feed_sizes']},
         'summary': summary(rec)}
    if small:
        w['trace'] = tr
    return w


def validate(recs, variant, V, stats, judge=True):
    """abstract + TLC; returns list of (rec, trace, verdict)"""
    out = []
    for codec in ('gzip', 'zstd'):
        part = [r for r in recs if r['codec'] == codec]
        if not part:
            continue
        traces = [abstract(r) for r in part]
        verdicts, st = C.validate_traces('StreamCodecTrace', traces,
                                         cfg_text=trace_cfg(codec, variant), chunk=500)
        for k in ('states', 'transitions', 'tlc_runs'):
            stats[k] += st[k]
        out += list(zip(part, traces, verdicts))
    return out


def parse_set(x):
    return sorted(x.get('$set', [])) if isinstance(x, dict) else []


# ---------------------------------------------------------------- replay of a witness

def do_replay(path):
    C.use_repo()
    w = C.json.load(open(path))['witness']
    case = w['case']
    rec = record(case['codec'], case['recipes'], feed_sizes=case['feeds'])
    variant = detect_variant()
    stats = {'states': 0, 'transitions': 0, 'tlc_runs': 0}
    (_, tr, v), = validate([rec], variant, None, stats)
    print('replay verdict:', v)
    print(C.json.dumps(summary(rec)))
    if v[0] == 'REJECT':
        print('VIOLATION property=%s replay=%s clause=%s' % (PROP, path, v[2]))
        return 1
    return 0


# ---------------------------------------------------------------- the check

def main(tier, replay):
    if replay:
        return do_replay(replay)
    C.use_repo()
    V = C.Verdict(PROP, tier)
    rng = random.Random(C.seed() * 7919 + 16)
    thorough = tier == 'thorough'
    variant = detect_variant()

    # 1. exhaustive model checking + 2. behaviour generation (all TLC jobs at once) ----
    if thorough:
        base = dict(Sym={1, 2}, MaxChunks=3, MaxTotal=4, HdrLen=2, TrlLen=2, MaxZero=1, MaxFeed=4,
                    WeakFlush=False, KeepHist=False)
    else:
        base = dict(Sym={1, 2}, MaxChunks=3, MaxTotal=4, HdrLen=1, TrlLen=2, MaxZero=0, MaxFeed=3,
                    WeakFlush=False, KeepHist=False)
    fused = dict(base, HdrLen=1, TrlLen=0, MaxZero=1)
    every = INVS_ALL + ['UntruncatedCompletes']
    jobs = []   # (name, constants, invariants, expected violation)
    jobs.append(('gzip-like', dict(base, AfterEof='ignore', Wrapper='coded'), every, None))
    jobs.append(('zstd-like, as coded: all but UntruncatedCompletes',
                 dict(base, AfterEof='error', Wrapper='coded'), INVS_ALL, None))
    jobs.append(('zstd-like, guarded (proposed fix)',
                 dict(base, AfterEof='error', Wrapper='guarded'), every, None))
    if thorough:
        jobs.append(('zstd-like, as coded: UntruncatedCompletes',
                     dict(base, AfterEof='error', Wrapper='coded'), ['UntruncatedCompletes'],
                     'UntruncatedCompletes'))
        jobs.append(('library may keep data for flush()',
                     dict(base, AfterEof='ignore', Wrapper='coded', WeakFlush=True), every, None))
        jobs.append(('gzip-like, guarded', dict(base, AfterEof='ignore', Wrapper='guarded'),
                     every, None))
        jobs.append(('last data unit ends the stream (zstd frame shape), guarded',
                     dict(fused, AfterEof='error', Wrapper='guarded'), every, None))
        jobs.append(('last data unit ends the stream (zstd frame shape), as coded',
                     dict(fused, AfterEof='error', Wrapper='coded'), INVS_ALL, None))

    nsim = 3000 if thorough else 300
    cap = 1200 if thorough else 120
    gens = []
    for codec in ('gzip', 'zstd'):
        pol = dict(AfterEof=CODECS[codec]['after_eof'],
                   Wrapper=variant if codec == 'zstd' else 'coded', WeakFlush=False, KeepHist=True)
        shape = dict(HdrLen=2, TrlLen=2) if codec == 'gzip' else dict(HdrLen=1, TrlLen=0)
        gens.append((codec, dict(pol, Sym={1}, MaxChunks=2, MaxTotal=2, MaxZero=0, MaxFeed=3,
                                 **shape), None))
        gens.append((codec, dict(pol, Sym={1, 2}, MaxChunks=3, MaxTotal=4, MaxZero=1, MaxFeed=4,
                                 **shape), nsim))
    rng_gen = random.Random(C.seed() + 1600)

    def gen(job):
        codec, const, sim = job
        text = C.cfg(constants=const, invariants=['EmitBehaviour'], constraints=['HistBound'])
        if sim is None:
            r = C.run_tlc('StreamCodec', text, workers=2)
        else:
            r = C.run_tlc('StreamCodec', text, workers=1, simulate='num=%d' % sim, depth=30,
                          tlc_seed=C.seed() + 16)
        b = C.extract_printed(r.stdout, 'BEH')
        seen = set()
        uniq = []
        for x in b:
            k = C.json.dumps(x)
            if k not in seen:
                seen.add(k)
                uniq.append(x)
        n_all = len(uniq)
        if sim is None and len(uniq) > cap:
            uniq = rng_gen.sample(uniq, cap)
        return codec, uniq, n_all, sim is None
    thunks = [lambda c=c, i=i: C.run_tlc('StreamCodec', C.cfg(constants=c, invariants=i),
                                         coverage=True, workers=2 if not thorough else 4)
              for (_, c, i, _) in jobs] + [lambda j=j: gen(j) for j in gens]
    rs = C.par(thunks, max_workers=8)
    mc_stats = []
    taken = {}
    for (name, c, i, expect), r in zip(jobs, rs):
        if r.violated != expect:
            raise C.MachineryError('StreamCodec [%s]: expected violation %s, got %s\n%s'
                                   % (name, expect, r.violated, r.error_trace))
        mc_stats.append((name, c, r))
        if expect is None:
            for a, t in action_coverage(r).items():
                taken[a] = taken.get(a, 0) + t
    behaviours = []
    gen_counts = []
    for codec, b, n_all, exhaustive in rs[len(jobs):]:
        gen_counts.append({'codec': codec, 'exhaustive': exhaustive, 'generated_distinct': n_all,
                           'replayed': len(b)})
        behaviours += [(codec, x) for x in b]
    V.phase('model checking + behaviour generation')

    # 3. replay into the real code, exhaustive byte-level cuts, random executions -----
    recs = []
    kinds = {}

    def add(rec, kind):
        recs.append(rec)
        rec['kind'] = kind
        kinds[kind] = kinds.get(kind, 0) + 1

    def chunk_recipe(ch, scale, salt):
        """abstract chunk -> recipe: symbol s -> one byte, or a run of `scale` bytes
        (symbol 1: compressible, symbol 2: incompressible)"""
        if scale == 1:
            return lit(bytes(96 + s for s in ch))
        parts = []
        for si, s in enumerate(ch):
            if s == 1:
                parts.append({'k': 'rep', 'pat': '61', 'n': scale})
            else:
                parts.append({'k': 'rnd', 'seed': salt * 10 + si, 'n': scale})
        return {'k': 'cat', 'parts': parts}
    predicted = {'behaviours': 0, 'reproduced': 0}
    for bi, (codec, (_, achunks, awire, afeeds, adstate)) in enumerate(behaviours):
        scales = [1]
        if bi % (7 if thorough else 17) == 0:
            scales.append(rng.choice([300, 20000, 40000]))
        for scale in scales:
            recipes = [chunk_recipe(ch, scale, bi * 10 + ci) for ci, ch in enumerate(achunks)]
            La = len(awire)

            def chunking(wire, couts, cfinal, La=La, afeeds=afeeds):
                W = len(wire)
                sizes = []
                p = 0
                q = 0
                for n in afeeds:
                    p += n
                    q2 = W if p == La else (p * W) // La
                    sizes.append(q2 - q)
                    q = q2
                return sizes
            rec = record(codec, recipes, chunking=chunking)
            add(rec, 'tlc-behaviour')
            if adstate == 'error:lib':
                predicted['behaviours'] += 1
                if rec['ended'].startswith('error:') and rec['err_at'] <= len(rec['feed_sizes']):
                    predicted['reproduced'] += 1
    n_replayed = len(recs)
    # (a mismatch is reported after the validation: the traces decide, not the prediction)

    # exhaustive at byte level
    small_inputs = [[b'a', b'', b'bc']] if not thorough else \
        [[b'a', b'', b'bc'], [], [b''], [b'hello hello hello hello'], [bytes(range(7))]]
    trunc_inputs = small_inputs if thorough else small_inputs + [[]]
    for codec in ('gzip', 'zstd'):
        for inp in small_inputs:
            recipes = [lit(c) for c in inp]
            W = len(record(codec, recipes, feed_sizes=[])['wire'])
            for i in range(W + 1):
                for j in range(i, W + 1):
                    add(record(codec, recipes, feed_sizes=[i, j - i, W - j]), 'exhaustive-2cut')
        for inp in trunc_inputs:
            recipes = [lit(c) for c in inp]
            W = len(record(codec, recipes, feed_sizes=[])['wire'])
            for t in range(W):
                add(record(codec, recipes, feed_sizes=[t]), 'exhaustive-truncation')
                add(record(codec, recipes, feed_sizes=[1] * t), 'exhaustive-truncation')
                if thorough or t % 3 == 0:
                    for i in range(t + 1):
                        add(record(codec, recipes, feed_sizes=[i, t - i]), 'exhaustive-truncation')
    V.phase('replay + exhaustive byte-level cuts')

    # random executions
    nrand = 700 if thorough else 130
    nbig = 0
    big_budget = 260 if thorough else 36
    for n in range(nrand):
        codec = rng.choice(['gzip', 'zstd'])
        big_ok = nbig < big_budget and rng.random() < 0.5
        recipes = random_recipes(rng, big_ok)
        if sum(r.get('n', 0) for r in recipes) > 2000:
            nbig += 1

        def chunking(wire, couts, cfinal):
            small = len(wire) + sum(len(mk(r)) for r in recipes) <= BYTES_SCALE_LIMIT
            sizes, _ = random_feeds(rng, wire, couts, cfinal, small)
            return sizes
        add(record(codec, recipes, chunking=chunking), 'random')
    # highly compressible data of several MiB: one compressed chunk expands to many
    # internal buffer sizes of the decompressor
    for codec in ('gzip', 'zstd'):
        for n_mib, pat in ((3, '00'), (5, b'abcdefgh'.hex())) if thorough else ((3, '00'),):
            recipes = [{'k': 'rep', 'pat': pat, 'n': n_mib * 1024 * 1024 + 17}]
            add(record(codec, recipes, chunking=lambda wire, couts, cfinal: [len(wire)]), 'huge')
            # pull-driven: a few pieces, each inflating to far more than any internal limit
            _FORCE[0] = 'pull'
            ctr = [{'k': 'ctr', 'n': 2 * n_mib * 1024 * 1024 + 17}]
            add(record(codec, ctr, chunking=lambda wire, couts, cfinal: sizes_from_cuts(
                [len(wire) // 4, len(wire) // 2, 3 * len(wire) // 4], len(wire))), 'huge')
            _FORCE[0] = None
            add(record(codec, recipes,
                       chunking=lambda wire, couts, cfinal: sizes_from_cuts(
                           list(range(1024, len(wire), 1024)), len(wire))), 'huge')
    # more input than any internal frame / window budget (tens of MiB, highly compressible so
    # that the wire stays small), in a few chunks
    for codec in ('zstd', 'gzip') if thorough else ('zstd',):
        recipes = [{'k': 'rep', 'pat': '00', 'n': 20 * 1024 * 1024}, {'k': 'ctr', 'n': 1024 * 1024},
                   {'k': 'rep', 'pat': 'ab', 'n': 14 * 1024 * 1024 + 5}]
        _FORCE[0] = 'push'
        add(record(codec, recipes, chunking=lambda wire, couts, cfinal: sizes_from_cuts(
            [len(wire) // 2], len(wire))), 'huge')
        _FORCE[0] = None
    # incompressible data of several MiB in chunks of decreasing size: the compressor's own
    # output exceeds any internal block size several times, later blocks are shorter
    for codec in ('gzip', 'zstd'):
        sizes_kib = (700, 700, 600, 500, 100) if not thorough else (1200, 900, 700, 600, 500, 100, 3)
        recipes = [{'k': 'rnd', 'seed': 1000 + j, 'n': kib * 1024 + j} for j, kib in enumerate(sizes_kib)]
        add(record(codec, recipes, chunking=lambda wire, couts, cfinal: sizes_from_cuts(
            list(range(65536, len(wire), 65536)), len(wire))), 'huge')
    V.phase('random executions')

    # 4. validation by TLC --------------------------------------------------------
    tstats = {'states': 0, 'transitions': 0, 'tlc_runs': 0}
    results = validate(recs, variant, V, tstats)
    out_of_sync = 0
    axiom_notes = {}
    nontrivial = set()
    accepted = 0
    rejected_by_clause = {}
    for rec, tr, v in results:
        if v[0] == 'ACCEPT':
            accepted += 1
            axs = parse_set(v[3])
            if v[2] is not True and not axs:
                out_of_sync += 1
        else:
            clause = v[2]
            axs = parse_set(v[4])
            if clause.startswith('model-'):
                raise C.MachineryError('trace spec/harness problem: %s on %s'
                                       % (v, C.json.dumps(summary(rec))))
            rejected_by_clause[clause] = rejected_by_clause.get(clause, 0) + 1
            V.violation(witness_of(rec, tr, v), clause,
                        detail='step %s, cause %s, axioms %s' % (v[1], v[3], axs))
        for a in axs:
            axiom_notes.setdefault((rec['codec'], a), []).append(summary(rec))
        W = len(rec['wire'])
        p = 0
        inside = False
        for n in rec['feed_sizes'][:-1]:
            p += n
            inside = inside or 0 < p < W
        if inside or rec['truncb'] < W or 0 in rec['feed_sizes']:
            nontrivial.add((rec['codec'], hashlib.sha256(rec['wire']).hexdigest(),
                            tuple(rec['feed_sizes'])))
    V.phase('trace validation')
    for (codec, a), lst in sorted(axiom_notes.items()):
        V.note('assumed component %s (%s): %s not satisfied by the shadow library object on %d '
               'traces, e.g. %s' % ('zlib' if codec == 'gzip' else 'zstandard', codec, a, len(lst),
                                    C.json.dumps(lst[0])))
    if predicted['behaviours'] != predicted['reproduced']:
        out_of_sync += predicted['behaviours'] - predicted['reproduced']
        V.note('the model predicts an error of the library (call after eof) for %d generated '
               'behaviours, the real code reproduced %d' % (predicted['behaviours'],
                                                            predicted['reproduced']))
    if out_of_sync:
        V.note('impl_model_in_sync=false: %d accepted traces where the modelled wrapper emitted '
               'or ended differently from the real one (allowed by C16)' % out_of_sync)
    if variant != 'coded':
        V.note('zstd.decompress under test does not hand an empty chunk to the library after eof: '
               'validated against the model variant Wrapper="%s"' % variant)

    def pick(kind, pred=lambda r: True):
        for rec, tr, v in results:
            if rec['kind'] == kind and tr['scale'] == 'bytes' and pred(rec) and v[0] == 'ACCEPT':
                return {'kind': kind, 'verdict': list(map(str, v)), 'trace': tr}
        return None
    samples = [s for s in (pick('tlc-behaviour', lambda r: len(r['plain']) > 1),
                           pick('exhaustive-truncation', lambda r: r['truncb'] > 12),
                           pick('exhaustive-2cut', lambda r: r['codec'] == 'zstd')) if s]
    for rec, tr, v in results:
        if tr['scale'] == 'blocks' and len(rec['plain']) > 100000 and v[0] == 'ACCEPT' \
                and len(rec['feed_sizes']) > 2:
            samples.append({'kind': rec['kind'], 'verdict': list(map(str, v)), 'trace': tr,
                            'summary': summary(rec)})
            break
    never = sorted(a for a in ('CNextEnv', 'CCompleteEnv', 'DFeedEnv', 'DFeedAfterEofEnv',
                               'DFeedGuardedEnv', 'DCompleteEofEnv', 'DCompleteNoEofEnv')
                   if taken.get(a, 0) == 0)
    coverage = {
        'states': sum(r.distinct for (_, _, r) in mc_stats) + tstats['states'],
        'transitions': sum(r.generated for (_, _, r) in mc_stats) + tstats['transitions'],
        'traces_validated_against_impl': len(results),
        'samples': samples,
        'exhaustive': True,
        'model_checking_runs': [{'name': n, 'constants': {k: str(v) for k, v in c.items()},
                                 **r.summary()} for (n, c, r) in mc_stats],
        'model_transitions_per_action': taken,
        'tlc_behaviours_replayed': n_replayed,
        'behaviour_generation': gen_counts,
        'model_predicted_library_error': predicted,
        'executions_by_kind': kinds,
        'big_random_inputs': nbig,
        'accepted': accepted,
        'rejected_by_clause': rejected_by_clause,
        'distinct_nontrivial': len(nontrivial),
        'rule': 'a trace is non-trivial when a chunk boundary falls strictly inside the compressed '
                'stream, or the stream is truncated, or an empty chunk is fed; distinct by '
                '(codec, wire, feed sizes)',
        'trace_validation': tstats,
        'zstd_wrapper_variant_detected': variant,
        'impl_model_in_sync': out_of_sync == 0,
        'library_axiom_deviations': {'%s:%s' % k: len(v) for k, v in axiom_notes.items()},
        'actions_never_taken': never,
    }
    return V.finish('model_checking', coverage, assumptions=[
        'zlib / zstandard are axiomatised (StreamCodec.tla); the axioms are checked on a shadow '
        'library object for every recorded execution, not proved',
        'the library compressor never raises on byte strings; the library decompressor never '
        'raises on a prefix of a valid stream (checked on every trace)',
        'corrupted (as opposed to truncated) streams and data after the end-of-stream marker are '
        'outside C16',
        'big inputs are validated by TLC on a down-scaled trace (runs of bytes as symbols); the '
        'byte comparison itself is done by the harness',
        'rx Subject delivers synchronously (single-threaded)'])


if __name__ == '__main__':
    C.main_wrapper(main)
