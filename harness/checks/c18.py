"""C18  CSV dump/load round-trips typed rows.

 1. TLC enumerates Csv.tla (the escaping / splitting / merging / unescaping logic of
    rxsci.container.csv transcribed branch by branch) over every row of 1..3 fields
    of short strings over {letter, blank, separator, quote, escape}, with a one- and a
    two-symbol separator, and CsvNumber.tla (parse_decimal in exact rationals) over
    every numeral of length <= 6 over {-,0,1,5,9,.}.  The transcription of the
    repository mirrors two defects, so the round-trip invariant is checked through
    (a) `Collect` (TLC prints every failing row / numeral instead of stopping) and
    (b) `Characterization` (the failing ones are exactly a stated class); the variants
    with the proposed fixes are explored in the same runs against the plain round-trip
    invariants (`RoundTrip`, `Correct`).
 2. Every row / numeral TLC enumerated (`EmitRow`, `EmitNum`) is pushed through the
    real dump() -> line.unframe() -> load(create_line_parser()); numerals also
    directly through parse_decimal (compared with the model, informational).
 3. Random executions: 1..8 typed columns, all separators of the property, floats
    printed by str(), 64-bit ints, strings with separator / quote / escape / blank at
    any position; files crossing the 64 KiB read boundary through dump_to_file /
    load_from_file(encoding='utf-8').
 4. Every recorded execution is validated by TLC against CsvTrace.tla, which
    recomputes Dump / ParseLine of the specification on the real data (insync) and
    gives the verdict per field from the observations of the real code.
"""
import math
import os
import random
import re
import struct
import sys
from collections import namedtuple
from fractions import Fraction

sys.path.insert(0, os.path.dirname(os.path.dirname(os.path.dirname(os.path.abspath(__file__)))))
from harness import common as C  # noqa: E402

PROP = 'C18'
QUOTE = 34
KINDS = {'s': 'str', 'i': 'int', 'f': 'float', 'b': 'bool'}
PYTYPES = {'s': str, 'i': int, 'f': float, 'b': bool}


def enc(s):
    return [ord(ch) for ch in s]


def dec(cps):
    return ''.join(map(chr, cps))


def code(text):
    """a short text of symbols < 256 as the number it is in base 256 (cfg files
    cannot contain tuples); see TextOfCode in Csv.tla"""
    n = 0
    for ch in text:
        assert 0 < ord(ch) < 256
        n = n * 256 + ord(ch)
    assert n < 2 ** 31
    return n


def extract(stdout, tag):
    """PrintT output of long values is pretty-printed as `<< "TAG", ...` over several
    lines; normalise before using the bracket matcher of the framework."""
    return C.extract_printed(re.sub(r'<<\s+"', '<<"', stdout), tag)


# ---------------------------------------------------------------- real code drivers

def error_kind(e):
    if isinstance(e, ValueError) and 'invalid number of columns' in str(e):
        return 'columns'
    return type(e).__name__


def run_rows(kinds, rows, sep, esc, form=0):
    """Push `rows` (tuples of python values, column kinds `kinds`) through the real
    dump() -> line.unframe() -> load(create_line_parser()).  An error terminates the
    stream, so the pipeline is restarted behind the failing row.
    Returns ([(line, outcome)], extra): outcome = ('ok', tuple) | ('err', kind)."""
    import rx
    import rx.operators as ops
    import rxsci.container.csv as csv
    import rxsci.framing.line as line
    names = ['c%d' % i for i in range(len(kinds))]
    X = namedtuple('X', names)
    if form == 0:
        dtype = [(n, KINDS[k]) for n, k in zip(names, kinds)]
    else:
        dtype = [(n, PYTYPES[k]) for n, k in zip(names, kinds)]
    out = []
    extra = 0
    k = 0
    while k < len(rows):
        lines, got, err = [], [], []
        todo = rows[k:]
        parser = csv.create_line_parser(dtype=dtype, separator=sep, escapechar=esc)
        try:
            rx.from_([X(*r) for r in todo]).pipe(
                csv.dump(separator=sep, escapechar=esc),
                ops.do_action(lines.append),
                line.unframe(),
                csv.load(parser),
            ).subscribe(on_next=got.append, on_error=err.append)
        except Exception as e:  # an exception escaping the pipeline is an error of the stream
            err.append(e)

        def ln(j):
            if j + 1 < len(lines) and lines[j + 1].endswith('\n'):
                return lines[j + 1][:-1]
            return lines[j + 1] if j + 1 < len(lines) else ''
        n = min(len(got), len(todo))
        for j in range(n):
            out.append((ln(j), ('ok', tuple(got[j]))))
        if len(got) > len(todo):
            extra += len(got) - len(todo)
        if err:
            if n < len(todo):
                out.append((ln(n), ('err', error_kind(err[0]))))
                k += n + 1
            else:
                extra += 1
                k += n
        elif n < len(todo):
            out.append((ln(n), ('err', 'missing')))
            k += n + 1
        else:
            k += n
    return out, extra


def real_merged(text, ncols, sep, esc):
    """informational: what the repository's merge_escape_parts returns (internal
    function; absent after a refactoring -> not compared)"""
    import rxsci.container.csv as csv
    fn = getattr(csv, 'merge_escape_parts', None)
    if fn is None:
        return {'k': 'na'}
    parts = text.split(sep)
    if len(parts) == ncols:
        return {'k': 'na'}
    try:
        return {'k': 'ok', 'v': [enc(p) for p in fn(parts, sep, esc)]}
    except Exception:
        return {'k': 'err'}


def tag_orig(kind, v):
    if kind == 's':
        return {'k': 's', 'v': enc(v)}
    if kind == 'b':
        return {'k': 'b', 'v': bool(v)}
    return {'k': kind, 'v': enc(str(v))}


def tag_parsed(p, orig):
    if isinstance(p, bool):
        return {'k': 'b', 'v': p}
    if isinstance(p, int):
        return {'k': 'i', 'v': enc(str(p))}
    if isinstance(p, float):
        d = {'k': 'f', 'v': enc(repr(p)), 'same': False, 'exact': False}
        if isinstance(orig, float):
            d['same'] = repr(p) == repr(orig)
            d['exact'] = (p == p and math.isfinite(p) and Fraction(p) == Fraction(orig)
                          and math.copysign(1.0, p) == math.copysign(1.0, orig))
        return d
    if isinstance(p, str):
        return {'k': 's', 'v': enc(p)}
    if p is None:
        return {'k': 'n'}
    return {'k': 'o', 'v': type(p).__name__}


def make_trace(op, kinds, rows, sep, esc, results, extra):
    tr = {'op': op, 'sep': enc(sep), 'esc': ord(esc), 'schema': list(kinds), 'extra': extra,
          'rows': []}
    for r, (text, outcome) in zip(rows, results):
        if outcome[0] == 'ok':
            parsed = {'k': 'ok', 'v': [tag_parsed(p, o) for p, o in
                                       zip(outcome[1], list(r) + [None] * len(outcome[1]))]}
        else:
            parsed = {'k': 'err', 'v': outcome[1]}
        tr['rows'].append({'fields': [tag_orig(k, v) for k, v in zip(kinds, r)],
                           'line': enc(text), 'merged': real_merged(text, len(kinds), sep, esc),
                           'parsed': parsed})
    return tr


def mem_trace(kinds, rows, sep, esc, op='mem', form=0):
    results, extra = run_rows(kinds, rows, sep, esc, form)
    return make_trace(op, kinds, rows, sep, esc, results, extra)


def file_trace(kinds, rows, sep, esc, second_pass=False, at_completion=False, encoding='utf-8', target='path'):
    """dump_to_file / load_from_file; the file is read by the real code in chunks of 64 Ki
    characters.  encoding: 'utf-8' on both sides, or None (the default arguments of both:
    the platform's text encoding, used with ASCII rows only).  target: a path, or a file
    object the caller opened (binary when an encoding is given, text otherwise) and closes.
    An error ends the stream: the rows behind the failing one are not observed (dropped from
    the trace, counted); a dump that fails leaves every row unobserved."""
    import rx
    import rxsci.container.csv as csv
    names = ['c%d' % i for i in range(len(kinds))]
    X = namedtuple('X', names)
    dtype = [(n, KINDS[k]) for n, k in zip(names, kinds)]
    with C.scratch('rxsci-verif.c18.') as d:
        path = os.path.join(d, 'rows.csv')
        with open(path, 'w') as f:         # the target exists already: an earlier export
            f.write('stale,file\n' + 'x,1\n' * 7)
        werr = []
        got, err = [], []
        parser = csv.create_line_parser(dtype=dtype, separator=sep, escapechar=esc)
        enc_kw = {'encoding': encoding} if encoding is not None else {}
        fobj = None
        dest = path
        if target == 'fileobj' and not at_completion:
            fobj = open(path, 'wb') if encoding is not None else open(path, 'w', newline='')
            dest = fobj

        def load():
            try:
                loaded = csv.load_from_file(path, parser, **enc_kw)
                if second_pass:
                    # the observable returned by load_from_file is subscribed a second time
                    # (a second pass over the file): the second pass is the one that is judged
                    loaded.subscribe(on_next=lambda i: None, on_error=lambda e: None)
                loaded.subscribe(on_next=got.append, on_error=err.append)
            except Exception as e:
                err.append(e)
        if at_completion:
            # rows pushed one by one; the file is read back the moment the dump reports its
            # completion (which is what tells a user that the file is there)
            from rx.subject import Subject
            src = Subject()
            src.pipe(csv.dump_to_file(dest, separator=sep, escapechar=esc, **enc_kw),
                     ).subscribe(on_error=werr.append, on_completed=load)
            try:
                for r in rows:
                    src.on_next(X(*r))
                src.on_completed()
            except Exception as e:       # (file.write lets a failing write escape into the source)
                werr.append(e)
        else:
            try:
                rx.from_([X(*r) for r in rows]).pipe(
                    csv.dump_to_file(dest, separator=sep, escapechar=esc, **enc_kw),
                ).subscribe(on_error=werr.append)
            except Exception as e:
                werr.append(e)
        if fobj is not None:
            fobj.close()
        with open(path, 'rb') as f:
            text = f.read().decode(encoding or 'ascii', 'replace')
        if werr:
            got, err = [], list(werr)       # the export failed: no row can be observed
        elif not at_completion:
            load()
    lines = text.split('\n')[1:]
    results = []
    n = min(len(got), len(rows))
    for j in range(n):
        results.append((lines[j] if j < len(lines) else '', ('ok', tuple(got[j]))))
    extra = max(0, len(got) - len(rows))
    if n < len(rows):
        results.append((lines[n] if n < len(lines) else '',
                        ('err', error_kind(err[0]) if err else 'missing')))
    elif err:
        extra += 1
    tr = make_trace('file', kinds, rows[:len(results)], sep, esc, results, extra)
    inside = [b for b in range(65536, len(text), 65536) if text[b - 1] != '\n']
    tr['file'] = {'chars': len(text), 'bytes': len(text.encode('utf-8')), 'rows_written': len(rows),
                  'rows_observed': len(results), 'reads': len(text) // 65536 + 1,
                  'at_completion': at_completion, 'encoding': encoding or 'default', 'target': target,
                  'dump_failed': bool(werr),
                  'boundaries_inside_a_row': len(inside)}
    return tr


def values_of(tr, j):
    """python values of row j of a trace (for replays)"""
    out = []
    for f in tr['rows'][j]['fields']:
        t = f['k']
        if t == 's':
            out.append(dec(f['v']))
        elif t == 'b':
            out.append(bool(f['v']))
        elif t == 'i':
            out.append(int(dec(f['v'])))
        else:
            out.append(float(dec(f['v'])))
    return tuple(out)


# ---------------------------------------------------------------- classification of a witness

def row_class(kinds, row, sep, esc):
    strs = [v for k, v in zip(kinds, row) if k == 's']
    if any(sep in v for v in strs) and any(v.endswith(esc) for v in strs):
        return 'sep+trailing-esc'
    return 'plain'


def float_class(x):
    t = str(x)
    if x == 0:
        return 'neg-zero' if math.copysign(1.0, x) < 0 else 'zero'
    if 'e' in t or 'n' in t:
        return 'exp'
    frac = t.split('.')[1] if '.' in t else ''
    nz = frac.strip('0') != ''
    return ('neg-' if x < 0 else 'pos-') + ('frac' if nz else 'int')


def float_delta(x, p):
    if not isinstance(p, float):
        return 'type'
    if repr(p) == repr(x):
        return 'none'
    if p != p or not math.isfinite(p):
        return 'other'
    if p == math.nextafter(x, math.inf) or p == math.nextafter(x, -math.inf):
        return 'one-ulp'
    t = str(x)
    if 'e' not in t and 'n' not in t:
        d = Fraction(t)
        f = abs(d) - (abs(d).numerator // abs(d).denominator)
        tol = 2 * Fraction(math.ulp(max(abs(x), abs(p), 1.0)))
        if abs(Fraction(p) - (d + 2 * f)) <= tol:
            return 'twice-fraction'
    return 'other'


def witness_of(tr, j, col, clause):
    """the dict handed to Verdict.violation: what known findings are matched on"""
    kinds = tr['schema']
    sep, esc = dec(tr['sep']), chr(tr['esc'])
    row = values_of(tr, j)
    w = {'op': tr['op'], 'config': 'sep=%r esc=%r' % (sep, esc), 'schema': ''.join(kinds),
         'row': repr(row), 'col': col, 'ftype': '-', 'fclass': '-', 'delta': '-',
         'rclass': row_class(kinds, row, sep, esc), 'row_index': j}
    parsed = tr['rows'][j]['parsed']
    if col >= 1:
        w['ftype'] = kinds[col - 1]
        if kinds[col - 1] == 'f' and parsed['k'] == 'ok':
            x = row[col - 1]
            g = parsed['v'][col - 1]
            w['fclass'] = float_class(x)
            w['delta'] = float_delta(x, float(dec(g['v']))) if g['k'] == 'f' else 'type'
            w['got'] = dec(g['v']) if g['k'] == 'f' else g['k']
    if tr['op'] == 'file':
        w['trace'] = tr
    else:
        w['trace'] = dict(tr, rows=[tr['rows'][j]], extra=0)
    return w


# ---------------------------------------------------------------- TLC trace validation

TRACE_CONST = dict(Symbols=set(), RawCodes=set(), SepCodes=set(), Escs=set(), Quote=QUOTE,
                   MaxFields=0, MaxLen=0, Variants=set(), Emit=False)


def validate(traces, variant, rows_per_run=3000, par=4, invariants=True):
    """CsvTrace.tla on batches.  Returns (verdicts, stats); verdicts[i] =
    ('ACCEPT', steps, insync) | ('REJECT', n, [(row, col, clause), ...]).
    invariants: also check on the real data that the model fails the round trip
    exactly on the characterized class (not needed for rows TLC enumerated itself)."""
    cfg = C.cfg(spec='TraceSpec', constants=TRACE_CONST,
                invariants=['TraceCharacterization', 'TraceRoundTrip'] if invariants else [])
    stats = {'states': 0, 'transitions': 0, 'wall_s': 0.0, 'tlc_runs': 0}
    verdicts = [None] * len(traces)
    jobs = []
    cur, cnt, base = [], 0, 0
    for i, t in enumerate(traces):
        if cur and cnt + len(t['rows']) > rows_per_run:
            jobs.append((base, cur))
            cur, cnt, base = [], 0, i
        cur.append(t)
        cnt += len(t['rows'])
    if cur:
        jobs.append((base, cur))

    def one(job):
        base, part = job
        with C.scratch('rxsci-verif.c18tr.') as d:
            tf = os.path.join(d, 'traces.json')
            with open(tf, 'w') as f:
                C.json.dump([dict({k: v for k, v in t.items() if k in ('sep', 'esc', 'rows', 'extra')},
                                  variant=variant) for t in part], f)
            r = C.run_tlc('CsvTrace', cfg, workers=3, env={'TRACE_FILE': tf}, allow_violation=False)
        got = {}
        for v in extract(r.stdout, 'VERDICT'):
            if v[1] in got:
                raise C.MachineryError('two verdicts for trace %d' % v[1])
            got[v[1]] = v[2:]
        if sorted(got) != list(range(1, len(part) + 1)):
            raise C.MachineryError('missing verdicts from CsvTrace: got %d of %d\n%s'
                                   % (len(got), len(part), r.stdout[-3000:]))
        bad = {}
        for b in extract(r.stdout, 'BAD'):
            bad.setdefault(b[1], []).append((b[2], b[3], b[4]))
        res = []
        for tid in range(1, len(part) + 1):
            v = got[tid]
            if v[0] == 'ACCEPT':
                if tid in bad:
                    raise C.MachineryError('BAD lines for an accepted trace')
                res.append(('ACCEPT', v[1], v[2]))
            else:
                if len(bad.get(tid, [])) != v[1]:
                    raise C.MachineryError('CsvTrace: %d BAD lines for %d bad fields'
                                           % (len(bad.get(tid, [])), v[1]))
                res.append(('REJECT', v[1], sorted(bad[tid])))
        return base, res, r

    import concurrent.futures as cf
    with cf.ThreadPoolExecutor(max_workers=max(1, min(len(jobs), par))) as ex:
        for base, res, r in ex.map(one, jobs):
            for i, v in enumerate(res):
                verdicts[base + i] = v
            stats['states'] += r.distinct
            stats['transitions'] += r.generated
            stats['wall_s'] += r.wall
            stats['tlc_runs'] += 1
    stats['wall_s'] = round(stats['wall_s'], 2)
    return verdicts, stats


def probe_variants():
    """Which model variant should be in sync with the tree under test (informational
    comparison only): the repository as it is, or with the proposed fixes applied."""
    res, _ = run_rows('ss', [('a\\', 'x,y')], ',', '\\')
    merge = 'parity' if res[0][1] == ('ok', ('a\\', 'x,y')) else 'repo'
    res, _ = run_rows('f', [(-1.5,)], ',', '\\')
    number = 'float' if res[0][1][0] == 'ok' and repr(res[0][1][1][0]) == '-1.5' else 'repo'
    return merge, number


# ---------------------------------------------------------------- random inputs

SEPS = [',', ';', '|', '\t', '::', '<|>']
ESCS = ['\\', '^', '~']
LETTERS = ['a', 'b', 'Z', '0', '7', '-', '.', 'e', "'", ',', ';', '|', '\t', ':', '<', '>',
           '\u00e9', '\u00df', '\u6f22', '\U0001f600', 'True', 'None']


def rnd_str(rng, sep, esc, clean, long=False):
    special = [sep, sep[0], sep[-1], '"', esc, ' ', '""', esc + '"', esc + esc, '"' + sep,
               sep + '"', esc + sep, sep + esc, ' ' + sep + ' ',
               esc + 'n', esc + 't', esc + rng.choice('rn0abfvxuUN'), esc + esc + 'n', '\\n', '\\' + rng.choice('tr0x')]
    n = rng.randint(0, 80) if long else rng.choice([0, 0, 1, 1, 2, 3, rng.randint(0, 12)])
    s = ''.join(rng.choice(special if rng.random() < 0.5 else LETTERS) for _ in range(n))
    if rng.random() < 0.3:
        s = rng.choice(special) + s
    if rng.random() < 0.3:
        s = s + rng.choice(special)
    if clean:
        while s.endswith(esc):
            s = s[:-len(esc)]
    return s


def rnd_float(rng):
    c = rng.random()
    if c < 0.30:
        x = round(rng.uniform(-1000, 1000), rng.randint(0, 6))
    elif c < 0.40:
        x = float(rng.randint(-50, 50))
    elif c < 0.50:
        x = rng.choice([0.0, -0.0, 1e-07, -1e-07, 1e+22, -1e+22, 1.5e-300, 1.7976931348623157e+308,
                        5e-324, -5e-324, 1e16, 9999999999999998.0, 0.1, -0.1, 123456789012.345,
                        -2251799813685248.5, 1e-05, 0.0001, 1.59, 0.3])
    elif c < 0.65:
        x = rng.uniform(-1, 1) * 10.0 ** rng.randint(-30, 30)
    elif c < 0.80:
        x = rng.uniform(0, 1000)
    elif c < 0.90:
        x = round(rng.uniform(0, 10 ** rng.randint(0, 12)), rng.randint(1, 4))
    else:
        while True:
            x = struct.unpack('<d', struct.pack('<Q', rng.getrandbits(64)))[0]
            if math.isfinite(x):
                break
    return x


def rnd_int(rng):
    c = rng.random()
    if c < 0.4:
        return rng.randint(-1000, 1000)
    if c < 0.6:
        return rng.choice([0, -1, 2 ** 63 - 1, -2 ** 63, 2 ** 64 - 1, 2 ** 31, -2 ** 31, 10 ** 18,
                           -10 ** 18, 7, 42])
    return rng.randint(-2 ** 63, 2 ** 63 - 1)


def rnd_rows(rng, sep, esc, clean, nrows, kinds=None, long=False):
    if kinds is None:
        kinds = ''.join(rng.choice('sssifb') for _ in range(rng.randint(1, 8)))
    rows = []
    for _ in range(nrows):
        r = []
        for k in kinds:
            if k == 's':
                r.append(rnd_str(rng, sep, esc, clean, long))
            elif k == 'i':
                r.append(rnd_int(rng))
            elif k == 'f':
                r.append(rnd_float(rng))
            else:
                r.append(rng.random() < 0.5)
        rows.append(tuple(r))
    return kinds, rows


def near(text, m, real, exp):
    """the real result is the model's exact value up to the rounding of float(i) + r
    (one ulp of the largest operand; the sum may cancel)"""
    mm = re.match(r'-?[0-9]+', text)
    big = max(abs(real), abs(exp), 1.0, float(abs(int(mm.group(0)))) if mm else 0.0)
    exact = Fraction(-m['num'] if m['neg'] else m['num'], m['den'])
    return abs(Fraction(real) - exact) <= Fraction(math.ulp(big))


def nontrivial_key(tr, j):
    """a row is non-trivial when the parser has to merge (a string contains the
    separator) or to unescape (a string contains the quote or the escape symbol)"""
    sep, esc = dec(tr['sep']), chr(tr['esc'])
    for f in tr['rows'][j]['fields']:
        if f['k'] == 's':
            s = dec(f['v'])
            if sep in s or '"' in s or esc in s:
                return C.json.dumps([tr['sep'], tr['esc'], tr['rows'][j]['line']])
    return None


# ---------------------------------------------------------------- replay

def do_replay(path):
    C.use_repo()
    w = C.json.load(open(path))['witness']
    tr = w['trace']
    sep, esc = dec(tr['sep']), chr(tr['esc'])
    rows = [values_of(tr, j) for j in range(len(tr['rows']))]
    if tr['op'] == 'file':
        # the rows behind a failing row were not recorded; the file is rebuilt from the
        # recorded prefix, which contains every row up to the witness
        fi = tr.get('file', {})
        new = file_trace(tr['schema'], rows, sep, esc, at_completion=fi.get('at_completion', False),
                         encoding=None if fi.get('encoding') == 'default' else 'utf-8', target=fi.get('target', 'path'))
    else:
        new = mem_trace(tr['schema'], rows, sep, esc, op=tr['op'])
    merge, _ = probe_variants()
    v, _ = validate([new], merge)
    # re-judge the witness row only (a file contains many other rows, some of which
    # may hit known findings)
    j = w.get('row_index', 0) if tr['op'] == 'file' and 'row_index' in w else None
    bad = [] if v[0][0] == 'ACCEPT' else [b for b in v[0][2] if j is None or b[0] in (0, j + 1)]
    if j is not None and j >= len(new['rows']):
        bad = [b for b in v[0][2] if b[0] == len(new['rows'])] if v[0][0] == 'REJECT' else []
    print('replay verdict:', ('REJECT', bad) if bad else 'ACCEPT', '(insync: %s)' % (v[0][2] if v[0][0] == 'ACCEPT' else '-'))
    print('config:', w['config'], 'schema:', ''.join(tr['schema']), 'via', tr['op'])
    show = [j] if j is not None else range(min(3, len(rows)))
    for k in show:
        if k >= len(new['rows']):
            print('row %d was not observed: the stream ended before it' % k)
            continue
        print('row %d: %s' % (k, repr(rows[k])[:400]))
        print('  dumped: %s' % repr(dec(new['rows'][k]['line']))[:400])
        p = new['rows'][k]['parsed']
        print('  parsed: %s' % repr(p['v'] if p['k'] == 'err' else
                                    [dec(x['v']) if x['k'] in 'sif' else x.get('v') for x in p['v']])[:400])
    if bad:
        print('VIOLATION property=%s replay=%s clause=%s' % (PROP, path, bad[0][2]))
        return 1
    return 0


# ---------------------------------------------------------------- the check

ALPHA = {97, 32, 44, 34, 92}        # letter, blank, separator symbol, quote, escape


def csv_const(symbols, raw, seps, fields, maxlen, variants, emit):
    return dict(Symbols=set(symbols), RawCodes={code(x) for x in raw},
                SepCodes={code(x) for x in seps}, Escs={92}, Quote=QUOTE, MaxFields=fields,
                MaxLen=maxlen, Variants=set(variants), Emit=emit)


def main(tier, replay):
    if replay:
        return do_replay(replay)
    C.use_repo()
    import logging
    logging.disable(logging.CRITICAL)     # the csv module logs every parse error
    V = C.Verdict(PROP, tier)
    rng = random.Random(C.seed() * 7919 + 18)
    thorough = tier == 'thorough'
    merge_variant, number_variant = probe_variants()
    per_run = 9000 if thorough else 4000

    # 3. random executions (recorded and validated while TLC explores the models) ---------
    def random_part():
        rng = random.Random(C.seed() * 7919 + 19)
        traces = []
        nrand = 2500 if thorough else 350
        for n in range(nrand):
            sep = rng.choice(SEPS)
            esc = rng.choice(ESCS)
            clean = rng.random() < 0.4
            kinds, rows = rnd_rows(rng, sep, esc, clean, rng.choice([1, 1, 2, 3, 5]))
            traces.append(mem_trace(kinds, rows, sep, esc, form=n % 2))
        # small files, the empty one included (the target exists already: it must be replaced)
        for n_rows in (0, 1, 2):
            kinds, rows = rnd_rows(rng, ',', '\\', True, max(n_rows, 1))
            traces.append(file_trace(kinds, rows[:n_rows], ',', '\\', at_completion=(n_rows == 1)))
        # the default arguments (no encoding on either side; ASCII rows), and file objects as targets
        def ascii_rows(rows):
            return [tuple(''.join(ch if ord(ch) < 128 else 'u' for ch in v) if isinstance(v, str) else v for v in r)
                    for r in rows]
        for n in range(12 if thorough else 4):
            sep, esc = SEPS[n % len(SEPS)], ESCS[n % len(ESCS)]
            kinds, rows = rnd_rows(rng, sep, esc, True, rng.choice([1, 3, 40]))
            traces.append(file_trace(kinds, ascii_rows(rows), sep, esc, at_completion=(n % 3 == 1), encoding=None,
                                     target='fileobj' if n % 4 == 3 else 'path'))
            kinds, rows = rnd_rows(rng, sep, esc, True, rng.choice([1, 3, 40]))
            traces.append(file_trace(kinds, rows, sep, esc, target='fileobj'))
        nfiles = 6 if thorough else 2
        file_infos = []
        for n in range(nfiles):
            sep = SEPS[n % len(SEPS)] if n else ','
            esc = ESCS[n % len(ESCS)]
            clean = n % 3 != 2      # every third file: any string (ends at the first known defect)
            kinds = ['sifbs', 'ssf', 'sis', 'fsbi'][n % 4]
            target = rng.choice([70000, 140000]) if n > 1 else 70000
            rows = []
            while True:      # grow until the real file is longer than the target
                _, rr = rnd_rows(rng, sep, esc, clean, 100, kinds, long=True)
                rows += rr
                if sum(sum(len(str(v)) + 3 for v in r) for r in rows) < target:
                    continue
                t = file_trace(kinds, rows, sep, esc, second_pass=(n % 2 == 1), at_completion=(n % 3 == 0))
                if t['file']['chars'] >= target:
                    break
            t['profile'] = 'no-trailing-escape' if clean else 'any'
            file_infos.append(dict(t['file'], sep=sep, esc=esc, schema=kinds, profile=t['profile']))
            traces.append(t)
        # multi-byte characters straddling the 64 KiB read boundary (byte offset 65536 falls
        # inside a character): the padding of the first row is searched for such an alignment
        def dumped_bytes(rows):
            import rx
            import rxsci.container.csv as csv
            X = namedtuple('X', ['c0', 'c1'])
            out = []
            rx.from_([X(*r) for r in rows]).pipe(csv.dump(separator=',', escapechar='\\')).subscribe(
                on_next=out.append)
            return ''.join(out).encode('utf-8')
        for k in (range(4) if thorough else range(2)):
            body = []
            j = 0
            while sum(len(r[1].encode('utf-8')) + 8 for r in body) < 70000:
                j += 1
                body.append((j, ''.join(rng.choice(['\u00e9', '\u20ac', '\U0001f600', '\ufeff', 'a'])
                                        for _ in range(rng.randint(5, 25)))))
            rows = None
            for off in range(0, 40):
                cand = [(0, 'x' * off)] + body
                data = dumped_bytes(cand)
                if len(data) > 65536 and (data[65536] & 0xC0) == 0x80:
                    rows = cand
                    break
            if rows is None:
                rows = [(0, '')] + body
            t = file_trace('is', rows, ',', '\\', second_pass=(k % 2 == 1), at_completion=(k % 3 == 0))
            t['profile'] = 'multibyte-character-across-byte-65536'
            file_infos.append(dict(t['file'], sep=',', esc='\\', schema='is', profile=t['profile']))
            traces.append(t)
        v, st = validate(traces, merge_variant, rows_per_run=per_run)
        return traces, v, st, nrand, file_infos
    import concurrent.futures as cf
    bg = cf.ThreadPoolExecutor(max_workers=1)
    random_future = bg.submit(random_part)

    # 1. exhaustive model checking + enumeration for the binding -----------------------
    jobs = []   # (module, constants, invariants, role)
    # one run explores both transcriptions: "repo" (Characterization, Collect, EmitRow) and
    # the proposed fix (RoundTrip)
    inv_csv = ['TypeOK', 'SplitJoin', 'EscapeInverse', 'Collect', 'Characterization', 'RoundTrip', 'EmitRow']
    for (nf, ml) in ([(3, 2), (2, 3)] if thorough else [(2, 2), (3, 1)]):
        jobs.append(('Csv', csv_const(ALPHA, ['7', '-7'], [',', ',,'], nf, ml, ['repo', 'parity'], True),
                     inv_csv, 'enumerate'))
    if thorough:
        # the largest space: 85^3 + 85^2 + 85 = 621,435 rows of strings of length <= 3
        # over {letter, separator, quote, escape}; nothing is printed
        jobs.append(('Csv', csv_const(ALPHA - {32}, [], [','], 3, 3, ['repo'], False),
                     ['Characterization'], 'big'))
    jobs.append(('CsvNumber', dict(Digits={48, 49, 53, 57}, MaxLen=6 if thorough else 5,
                                   Variants={'repo', 'float'}, Emit=True),
                 ['TypeOK', 'Small', 'Collect', 'Characterization', 'Correct', 'EmitNum'], 'enumerate'))

    def mc(job):
        m, c, inv, role = job
        big = role == 'big'
        return C.run_tlc(m, C.cfg(constants=c, invariants=inv), coverage=not big,
                         workers=8 if big else 4)
    rs = C.par([lambda j=j: mc(j) for j in jobs], max_workers=len(jobs))
    mc_stats = []
    model_rows, model_fail_rows, model_nums, model_fail_nums, lenient = [], [], [], [], []
    for (m, c, inv, role), r in zip(jobs, rs):
        if r.violated:
            raise C.MachineryError('%s model violates %s:\n%s' % (m, r.violated, r.error_trace))
        mc_stats.append((m, c, r, role))
        if role == 'enumerate' and m == 'Csv':
            model_rows += extract(r.stdout, 'ROW')
            model_fail_rows += extract(r.stdout, 'FAIL')
        elif role == 'enumerate':
            model_nums += extract(r.stdout, 'NUM')
            model_fail_nums += extract(r.stdout, 'FAILNUM')
            lenient += extract(r.stdout, 'LENIENT')
    V.phase('model checking')
    other = [f for f in model_fail_rows if f[-1] != 'trailing-esc' or f[1] != 'repo'] + \
            [f for f in model_fail_nums if f[-1] != 'sign' or f[1] != 'repo']
    if other:   # excluded by Characterization; kept as a cross-check of the printing path
        raise C.MachineryError('model fails outside the characterized class: %r' % other[:3])

    # 2. every enumerated row / numeral through the real code ---------------------------
    def key(b):
        return C.json.dumps(b[1:5])
    uniq = {}
    for b in model_rows:
        uniq.setdefault(key(b), b)
    model_rows = list(uniq.values())
    n_enum = len(model_rows)
    cap = 200000 if thorough else 4000    # i.e. every row at the present bounds
    if len(model_rows) > cap:
        # every row the model fails on, every row of up to two fields; the three-field rows
        # that pass in the model are sampled
        failing = {C.json.dumps([f[2], f[3], [1 if x['k'] == 's' else 0 for x in f[4]],
                                 [x['v'] for x in f[4]]]) for f in model_fail_rows}
        keep = [b for b in model_rows if len(b[3]) < 3 or key(b) in failing]
        rest = [b for b in model_rows if not (len(b[3]) < 3 or key(b) in failing)]
        model_rows = keep + rng.sample(rest, max(0, min(len(rest), cap - len(keep))))
    groups = {}
    for b in model_rows:
        _, sp, es, isstr, texts = b
        kinds = ''.join('s' if q else 'i' for q in isstr)
        vals = tuple(dec(t) if q else int(dec(t)) for q, t in zip(isstr, texts))
        groups.setdefault((dec(sp), chr(es), kinds), []).append(vals)
    traces = []
    for (sp, es, kinds), rows in sorted(groups.items()):
        for i in range(0, len(rows), 60):
            traces.append(mem_trace(kinds, rows[i:i + 60], sp, es, op='enum-row'))
    # The model's "letter" stands for every ordinary character: the same rows again with
    # other letters in its place, among them those that follow a backslash in the escape
    # sequences of other languages (the row format has no such sequences)
    alt_letters = ['n', 't', 'r', '0', 'x', 'u', 'N', '\\'] if thorough else ['n', 't', '0']
    n_alt = 0
    for (sp, es, kinds), rows in sorted(groups.items()):
        if 's' not in kinds:
            continue
        withl = [r for r in rows if any(isinstance(v, str) and 'a' in v for v in r)]
        for L in alt_letters:
            if L in sp or L == es:
                continue
            part = withl if thorough else rng.sample(withl, min(len(withl), 240))
            alt = [tuple(v.replace('a', L) if isinstance(v, str) else v for v in r) for r in part]
            for i in range(0, len(alt), 60):
                traces.append(mem_trace(kinds, alt[i:i + 60], sp, es, op='enum-row'))
                n_alt += len(alt[i:i + 60])
    n_enum_rows = sum(len(t['rows']) for t in traces)

    # numerals: direct call of parse_decimal against the model (informational), and the
    # canonical ones (= what str() prints) as one-column rows
    import rxsci.container.csv as csv
    pd = getattr(csv, 'parse_decimal', None)
    num_sync = {'sync': 0, 'rounding': 0, 'out': 0, 'not-compared': 0}
    num_out = []
    canon_f, canon_i = [], []
    for b in model_nums:
        text = dec(b[1])
        m = b[2]
        try:
            x = float(text)
            if math.isfinite(x) and repr(x) == text:
                canon_f.append(x)
        except ValueError:
            pass
        if re.fullmatch(r'-?[0-9]+', text) and str(int(text)) == text:
            canon_i.append(int(text))
        if pd is None or number_variant != 'repo':
            num_sync['not-compared'] += 1
            continue
        try:
            real = pd(text)
        except ValueError:
            real = 'err'
        except Exception as e:
            real = 'raised:' + type(e).__name__
        if m['k'] == 'none':
            exp = None
        elif m['k'] == 'err':
            exp = 'err'
        else:
            exp = float(Fraction(m['num'], m['den']))
            if m['neg']:
                exp = -exp
        if repr(real) == repr(exp):
            num_sync['sync'] += 1
        elif isinstance(real, float) and isinstance(exp, float) and near(text, m, real, exp):
            num_sync['rounding'] += 1   # float(i) + r rounds twice (and cancels): not modelled
        else:
            num_sync['out'] += 1
            num_out.append((text, repr(real), repr(exp)))
    n_canon = {'float': len(canon_f), 'int': len(canon_i)}
    if not thorough:    # ints are a sample in the quick tier; every float numeral is replayed
        canon_i = rng.sample(canon_i, min(len(canon_i), 300))
    for i in range(0, len(canon_f), 60):
        traces.append(mem_trace('f', [(x,) for x in canon_f[i:i + 60]], ',', '\\', op='enum-num'))
    for i in range(0, len(canon_i), 60):
        traces.append(mem_trace('i', [(x,) for x in canon_i[i:i + 60]], ',', '\\', op='enum-num'))
    n_replayed = len(traces)
    V.phase('replay of %d enumerated rows, %d numerals' % (n_enum_rows, len(model_nums)))

    # 4. validation by TLC ----------------------------------------------------------------
    enum_tr = [t for t in traces if t['op'] == 'enum-row']
    num_tr = [t for t in traces if t['op'] != 'enum-row']
    (v1, st1), (v2, st2) = C.par([
        lambda: validate(enum_tr, merge_variant, rows_per_run=per_run, invariants=False),
        lambda: validate(num_tr, merge_variant, rows_per_run=per_run)])
    rnd_tr, v3, st3, nrand, file_infos = random_future.result()
    bg.shutdown()
    traces = enum_tr + num_tr + rnd_tr
    verdicts = v1 + v2 + v3
    tstats = {k: st1[k] + st2[k] + st3[k] for k in st1}
    out_of_sync = 0
    nontrivial = set()
    n_rows = 0
    clause_counts = {}
    for tr, v in zip(traces, verdicts):
        n_rows += len(tr['rows'])
        badrows = set()
        if v[0] == 'ACCEPT':
            if v[2] is not True:
                out_of_sync += 1
        else:
            for (rowi, col, clause) in v[2]:
                if clause.startswith('model-'):
                    raise C.MachineryError('trace spec/harness problem: %s on %r' % (clause, tr['rows'][rowi - 1]))
                clause_counts[clause] = clause_counts.get(clause, 0) + 1
                if rowi == 0:
                    V.violation({'op': tr['op'], 'config': 'sep=%r esc=%r' % (dec(tr['sep']), chr(tr['esc'])),
                                 'schema': ''.join(tr['schema']), 'trace': tr}, clause,
                                detail='more rows loaded than dumped')
                    continue
                badrows.add(rowi - 1)
                V.violation(witness_of(tr, rowi - 1, col, clause), clause,
                            detail='row %d column %d' % (rowi, col))
        for j in range(len(tr['rows'])):
            if j not in badrows:
                k = nontrivial_key(tr, j)
                if k:
                    nontrivial.add(k)
    V.phase('trace validation')

    # the model's failing rows must fail in the real code too (and vice versa) when the
    # tree under test is the repository as it is: that is the `insync` of the verdicts
    if out_of_sync:
        V.note('impl_model_in_sync=false: on %d accepted traces the dumped text, the merged parts '
               'or the parse result differ from the model (variant %s); not constrained by C18'
               % (out_of_sync, merge_variant))
    if num_sync['out']:
        V.note('impl_model_in_sync=false: parse_decimal differs from the model on %d numerals, '
               'e.g. %r' % (num_sync['out'], num_out[:3]))
    if lenient and number_variant == 'repo':
        V.note('parse_decimal (model) gives a value to %d of %d ill-formed numerals that float() '
               'rejects, e.g. %s -> %s; not constrained by C18 (str() never prints them)'
               % (len(lenient), len(model_nums), dec(lenient[0][2]),
                  '%s%d/%d' % ('-' if lenient[0][3]['neg'] else '', lenient[0][3]['num'],
                               lenient[0][3]['den'])))
    uncovered = sorted({a for (_, _, r, _) in mc_stats for a, (d, t) in r.coverage.items() if t == 0})
    small = [t for t in traces if t['op'] == 'mem' and 0 < len(t['rows'][0]['line']) < 40]
    samples = [{'kind': 'random row', 'trace': dict(small[0], rows=small[0]['rows'][:1])}] if small else []
    samples.append({'kind': 'enumerated row', 'trace': dict(traces[0], rows=traces[0]['rows'][:1])})
    coverage = {
        'states': sum(r.distinct for (_, _, r, _) in mc_stats) + tstats['states'],
        'transitions': sum(r.generated for (_, _, r, _) in mc_stats) + tstats['transitions'],
        'traces_validated_against_impl': len(traces),
        'rows_validated_against_impl': n_rows,
        'samples': samples,
        'exhaustive': True,
        'model_checking_runs': [{'module': m, 'role': role,
                                 'constants': {k: str(v) for k, v in c.items()}, **r.summary()}
                                for (m, c, r, role) in mc_stats],
        'model_rows_enumerated': n_enum,
        'model_rows_replayed': n_enum_rows, 'of_which_with_other_letters': n_alt,
        'model_rows_failing_roundtrip': {'trailing-esc': len(model_fail_rows), 'other': 0},
        'model_numerals_enumerated': len(model_nums),
        'model_numerals_failing': {'sign': len(model_fail_nums), 'other': 0,
                                   'lenient (ill-formed, informational)': len(lenient)},
        'canonical_numerals': n_canon,
        'canonical_numerals_replayed': {'float': len(canon_f), 'int': len(canon_i)},
        'numerals_model_vs_impl': num_sync,
        'tlc_behaviours_replayed': n_replayed,
        'random_executions': nrand,
        'files': file_infos,
        'rejected_fields_by_clause': clause_counts,
        'distinct_nontrivial': len(nontrivial),
        'rule': 'an accepted row is non-trivial when a string field contains the separator (the '
                'parser must merge parts), the quote or the escape symbol (it must unescape); '
                'distinct by (separator, escape, dumped line)',
        'trace_validation': tstats,
        'model_variants_in_sync_with_tree': {'merge': merge_variant, 'number': number_variant},
        'impl_model_in_sync': out_of_sync == 0 and num_sync['out'] == 0,
        'actions_never_taken': uncovered,
    }
    return V.finish('model_checking', coverage, assumptions=[
        'strings contain no line boundary character (\\n, \\r, ...); separators contain neither '
        'the quote nor the escape character nor characters of numbers',
        'None fields are outside the property (typed fields only)',
        'model alphabet is 5 symbols, rows <= 3 fields of length <= 3, numerals <= 6 symbols over '
        '{-,0,1,5,9,.}; full Unicode, 1..8 columns and longer values only through recorded executions',
        'binary64 rounding is not modelled: CsvNumber is exact, the harness compares with the '
        'correctly rounded value; float equality is judged in python (repr and Fraction) and '
        'cross-checked by TLC on the texts',
        'float(), int() and str() of python are axiomatised (library functions)'])


if __name__ == '__main__':
    C.main_wrapper(main)
