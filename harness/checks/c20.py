"""C20  Parquet dump/load round-trips rows for every row count and batch size.

 1. TLC model-checks ParquetDump.tla (batch() with python list identity as a heap,
    create_record's closure column buffer, the writer, the loader) for every
    (N, b, m) in the bounds and the four variants FixBatch x FixBuffer.  For the
    repaired variant RoundTrip / BatchChunks / DistinctObjects / RowGroups are proved;
    for the others TLC *collects* every (N, b) in which they fail on the model.
 2. Every (N, b, m) TLC enumerated is replayed on the real dump_to_file /
    load_from_file with pyarrow (compression none/snappy/gzip/zstd, file path /
    BytesIO / real file object, row_group_size set/unset, three schemas).
 3. Random executions up to N = 5000, b, m <= 2000.
 4. Every recorded execution is validated by TLC against ParquetDumpTrace.tla.  The
    replayed behaviours are validated against all four variants: the variant that
    predicts the observed file and record batch sizes of *every* execution is the
    one the code follows (impl_model_in_sync); the random executions are validated
    against that variant.  The verdict itself never depends on the variant.
"""
import io
import os
import random
import re
import sys

sys.path.insert(0, os.path.dirname(os.path.dirname(os.path.dirname(os.path.abspath(__file__)))))
from harness import common as C  # noqa: E402

PROP = 'C20'
CAP_RUNS = 256      # runs of an id sequence written to the trace (exact count is logged too)
CAP_RECS = 256
VARIANTS = [(False, False), (False, True), (True, False), (True, True)]
COMPRESSIONS = ['NONE', 'snappy', 'gzip', 'zstd']
MODES = ['path', 'bytesio', 'fileobj', 'pathlib']
FILE_CLAUSES = ('corrupt-rows', 'duplicate-rows', 'missing-rows', 'order')   # about the file


def vname(v):
    return 'FixBatch=%s,FixBuffer=%s' % ('T' if v[0] else 'F', 'T' if v[1] else 'F')


# ---------------------------------------------------------------- rows and schemas

def make_schema(kind):
    import pyarrow as pa
    if kind in ('ids', 'ids-const', 'ids-period'):
        return pa.schema([('id', pa.int64())])
    if kind == 'flat':
        return pa.schema([('id', pa.int64()), ('s', pa.string()), ('f', pa.float64()),
                          ('k', pa.int32())])
    if kind == 'nested':
        st = pa.struct([('sa', pa.string()), ('sb', pa.list_(pa.uint16())),
                        ('sc', pa.struct([('x', pa.float64()), ('y', pa.int8())]))])
        return pa.schema([('s', pa.string()), ('c', st), ('id', pa.uint32()),
                          ('l', pa.list_(pa.float64())), ('ls', pa.list_(pa.string())),
                          ('f', pa.float32())])
    raise C.MachineryError('unknown schema kind %r' % kind)


_WORDS = ['', 'a', 'foo', 'bar,"baz"', 'né\u00e9', '\u4e2d\u6587', 'x' * 40, '\n', '0', 'NULL']


def make_rows(kind, n, rowseed):
    """rows with unique ids 1..n; the other columns are a deterministic function of
    (rowseed, id) and repeat often, so that only the id tells rows apart"""
    rng = random.Random(rowseed)
    rows = []
    for i in range(1, n + 1):
        if kind == 'ids':
            rows.append({'id': i})
        elif kind == 'ids-const':        # equal rows (a constant reading)
            rows.append({'id': 7})
        elif kind == 'ids-period':       # a periodic signal: batches with equal content
            rows.append({'id': 1 + i % (1 + rowseed % 3)})
        elif kind == 'flat':
            row = {'id': i, 's': rng.choice(_WORDS),
                   'f': rng.choice([0.0, -0.0, 1.5, -2.25, 1e300, 5e-324, 0.1, float(i), float('nan'), float('inf')]),
                   'k': rng.choice([0, -1, 2 ** 31 - 1, -2 ** 31, i % 7])}
            if i % 3 == 2:       # the same fields in another key order (rows merged from two producers)
                row = {k: row[k] for k in ('k', 'f', 's', 'id')}
            rows.append(row)
        else:
            rows.append({
                'id': i,
                's': rng.choice(_WORDS + [None]),
                'c': {'sa': rng.choice(_WORDS), 'sb': [rng.randint(0, 65535)
                                                        for _ in range(rng.choice([0, 1, 3]))],
                      'sc': {'x': rng.choice([0.5, -1e-9, 3.0]), 'y': rng.randint(-128, 127)}},
                'l': [rng.choice([0.25, -7.0, 1e10, float('nan')]) for _ in range(rng.choice([0, 0, 2]))],
                'ls': rng.choice([[], ['a', ''], None, ['\u00e9']]),
                'f': rng.choice([0.5, -0.25, 1024.0, None]),     # exact in float32
            })
    return rows


# ---------------------------------------------------------------- encoding of id sequences

def rle(ids):
    """maximal runs of consecutive ascending ids: [[first, last], ...]"""
    runs = []
    for x in ids:
        if runs and x != 0 and runs[-1][1] + 1 == x and runs[-1][0] != 0:
            runs[-1][1] = x
        else:
            runs.append([x, x])
    return runs


def enc_ids(ids):
    r = rle(ids)
    return {'n': len(ids), 'nr': len(r), 'r': r[:CAP_RUNS]}


def _same(a, b):
    """equality of rows with NaN equal to NaN (a gap in a float column is a value)"""
    if isinstance(a, float) and isinstance(b, float):
        return (a != a and b != b) or a == b
    if isinstance(a, dict) and isinstance(b, dict):
        return a.keys() == b.keys() and all(_same(a[k], b[k]) for k in a)
    if isinstance(a, (list, tuple)) and isinstance(b, (list, tuple)):
        return len(a) == len(b) and all(_same(x, y) for x, y in zip(a, b))
    return a == b


def ident(row, rows):
    """id of the source row equal to `row` (all columns), 0 if there is none"""
    try:
        rid = row.get('id')
    except Exception:
        return 0
    if type(rid) is int and 1 <= rid <= len(rows) and _same(rows[rid - 1], row):
        return rid
    return 0


def ident_seq(seq, rows, kind):
    """source-row ids of a sequence of rows read back.  Rows that carry no unique id are
    identified by their position (row j must equal source row j)."""
    if kind in ('ids-const', 'ids-period'):
        return [j + 1 if j < len(rows) and _same(seq[j], rows[j]) else 0 for j in range(len(seq))]
    return [ident(r, rows) for r in seq]


# ---------------------------------------------------------------- real code driver

class _Observe:
    """Records the sizes of the record batches / tables handed to pyarrow's
    ParquetWriter while the real dump runs (pyarrow is wrapped, rxsci is untouched)."""

    def __init__(self):
        self.sizes = []

    def __enter__(self):
        import pyarrow.parquet as pq
        self.pq = pq
        self.orig = pq.ParquetWriter
        sizes = self.sizes
        orig = self.orig

        class RecordingWriter(orig):
            _depth = 0

            def _rec(self, name, obj, a, kw):
                outer = self._depth == 0
                if outer:
                    try:
                        sizes.append(int(obj.num_rows))
                    except Exception:
                        sizes.append(-1)
                self._depth += 1
                try:
                    return getattr(orig, name)(self, obj, *a, **kw)
                finally:
                    self._depth -= 1

            def write(self, obj, *a, **kw):
                return self._rec('write', obj, a, kw)

            def write_batch(self, obj, *a, **kw):
                return self._rec('write_batch', obj, a, kw)

            def write_table(self, obj, *a, **kw):
                return self._rec('write_table', obj, a, kw)
        pq.ParquetWriter = RecordingWriter
        return self

    def __exit__(self, *exc):
        self.pq.ParquetWriter = self.orig
        return False


def execute(case, tmpdir):
    """Run one dump + read back + load on the real code; return the trace."""
    import rx
    import pyarrow.parquet as pq
    import rxsci.container.parquet as P
    N, b, m = case['N'], case['b'], case['m']
    comp, mode, rgs, kind = case['compression'], case['mode'], case['row_group_size'], case['schema']
    schema = make_schema(kind)
    rows = make_rows(kind, N, case['rowseed'])
    path = os.path.join(tmpdir, 'c20.parquet')
    if os.path.exists(path):
        os.remove(path)
    if case.get('rowtype') == 'sqlite':      # (sqlite stores a NaN as NULL: no NaN in these rows)
        rows = [{k: (0.5 if isinstance(v, float) and v != v else v) for k, v in r.items()} for r in rows]
    src_rows = rows
    if case.get('rowtype') == 'sqlite' and kind in ('ids', 'flat') and rows:
        # the rows as a database cursor hands them out: sqlite3.Row objects (indexable by
        # column name; `in` looks at the values, keys() lists the columns)
        import sqlite3
        cols = list(schema.names)
        conn = sqlite3.connect(':memory:')
        conn.row_factory = sqlite3.Row
        conn.execute('create table t (%s)' % ', '.join(cols))
        conn.executemany('insert into t values (%s)' % ', '.join('?' for _ in cols),
                         [tuple(r[c] for c in cols) for r in rows])
        src_rows = conn.execute('select * from t order by rowid').fetchall()
    ended = []
    sink = None
    if mode == 'path':
        target = path
    elif mode == 'pathlib':
        import pathlib
        target = pathlib.Path(path)
    elif mode == 'bytesio':
        target = sink = io.BytesIO()
    else:
        target = sink = open(path, 'wb')
    dump_state = ['open']
    first_pass = [bool(case.get('retry'))]

    def source(_scheduler=None):
        # case['retry']: the first subscription meets a malformed row (a missing field) and
        # fails; the same piped observable is then subscribed again and gets the good rows
        if first_pass[0] and rows:
            first_pass[0] = False
            k = min(len(rows) - 1, 2)
            bad = dict(rows[k])
            bad.pop('id')
            return rx.from_(rows[:k] + [bad] + rows[k + 1:])
        return rx.from_(src_rows)
    feed = rx.defer(source)
    if case.get('after_store'):
        # the rows come out of a store section (a keyed stage first, the export after it)
        import rxsci as rs
        feed = feed.pipe(rs.state.with_memory_store(pipeline=rx.pipe(rs.ops.map(lambda r: r))))
    piped = feed.pipe(
        P.dump_to_file(target, schema, batch_size=b, row_group_size=rgs,
                       compression=None if comp == 'none-as-None' else comp))
    if case.get('retry') and mode == 'path' and rows:
        try:
            piped.subscribe(on_next=lambda i: None, on_error=lambda e: None)
        except Exception:
            pass
    elif case.get('resub') and mode == 'path':
        # the same built pipeline subscribed a second time (re-export): the file written by
        # the second subscription is the one that is judged
        try:
            piped.subscribe(on_next=lambda i: None, on_error=lambda e: None)
        except Exception:
            pass
    first_pass[0] = False
    data_box = [None]
    res = {'file_ids': [], 'rg_meta': [], 'loaded': [], 'load_state': ['open']}

    def src():
        if mode in ('path', 'pathlib'):
            return path
        if mode == 'bytesio':
            return io.BytesIO(data_box[0])
        return open(path, 'rb')

    def readback():
        s = None
        try:
            s = src()
            table = pq.read_table(s)
            res['file_ids'] = ident_seq(table.to_pylist(), rows, kind)
            if mode == 'fileobj':
                s.close()
            s = src()
            md = pq.ParquetFile(s).metadata
            res['rg_meta'] = [md.row_group(i).num_rows for i in range(md.num_row_groups)]
        except Exception as e:
            ended.append('unreadable:' + type(e).__name__)
        finally:
            if mode == 'fileobj' and s is not None:
                s.close()
        load_state = res['load_state']     # (under a running trampoline the load is deferred)
        s = None
        try:
            s = src()
            loader = P.load_from_file(s, batch_size=m)
            if case.get('load_twice') and mode in ('path', 'pathlib'):
                # the observable that load_from_file returned is subscribed more than once (a
                # second pass over the data set): an earlier subscription reads a few rows and
                # is disposed, or reads everything; the rows of the last one are judged
                import rx.operators as rxo
                first = loader.pipe(rxo.take(case['load_twice'])) if case['load_twice'] > 0 else loader
                first.subscribe(on_next=lambda i: None, on_error=lambda e: None)
            loader.subscribe(
                on_next=res['loaded'].append,
                on_error=lambda e: load_state.__setitem__(0, 'error:' + type(e).__name__),
                on_completed=lambda: load_state.__setitem__(0, 'completed'))
        except Exception as e:
            load_state[0] = 'raised:' + type(e).__name__
        finally:
            if mode == 'fileobj' and s is not None:
                s.close()

    at_completion = bool(case.get('at_completion')) and mode in ('path', 'pathlib', 'bytesio')

    def dump_completed():
        dump_state[0] = 'completed'
        if at_completion:
            # the file is read back the moment the dump reports its completion
            if mode == 'bytesio':
                try:
                    data_box[0] = sink.getvalue()
                except Exception as e:
                    ended.append('sink-closed:' + type(e).__name__)
                    data_box[0] = b''
            readback()
    with _Observe() as obs:
        try:
            piped.subscribe(on_next=lambda i: None,
                        on_error=lambda e: dump_state.__setitem__(0, 'error:' + type(e).__name__),
                        on_completed=dump_completed)
        except Exception as e:
            dump_state[0] = 'raised:' + type(e).__name__
    if dump_state[0] != 'completed':
        ended.append('dump-' + dump_state[0])
    if mode == 'bytesio' and not at_completion:
        try:
            data_box[0] = sink.getvalue()
        except Exception as e:          # the sink must stay usable: the caller owns it
            ended.append('sink-closed:' + type(e).__name__)
            data_box[0] = b''
    elif mode == 'fileobj':
        try:
            sink.close()
        except Exception as e:
            ended.append('sink-close:' + type(e).__name__)
    if not (at_completion and dump_state[0] == 'completed'):
        readback()
    file_ids, rg_meta, loaded, load_state = res['file_ids'], res['rg_meta'], res['loaded'], res['load_state']
    if load_state[0] != 'completed':
        ended.append('load-' + load_state[0])
    loaded_ids = ident_seq(loaded, rows, kind)
    tr = dict(case)
    tr.update({'file': enc_ids(file_ids), 'loaded': enc_ids(loaded_ids),
               'recs': obs.sizes[:CAP_RECS], 'nrecs': len(obs.sizes),
               'row_groups': rg_meta[:32], 'ended': 'completed' if not ended else ';'.join(ended)})
    return tr


_RESUB = [0]


def mk_case(N, b, m, comp='snappy', mode='path', rgs=None, schema='ids', rowseed=0, origin='tlc'):
    _RESUB[0] += 1
    return {'N': N, 'b': b, 'm': m, 'compression': comp, 'mode': mode,
            'row_group_size': rgs, 'schema': schema, 'rowseed': rowseed, 'origin': origin,
            'resub': mode == 'path' and _RESUB[0] % 3 == 0,
            'retry': mode == 'path' and _RESUB[0] % 5 == 1 and schema in ('ids', 'flat') and N > 0,
            'at_completion': _RESUB[0] % 4 == 2,
            'load_twice': ([-1, 1, m, m + 1][_RESUB[0] % 4] if _RESUB[0] % 7 in (0, 3) else 0),
            'after_store': _RESUB[0] % 6 == 1 and not (mode == 'path' and _RESUB[0] % 5 == 1),
            'rowtype': 'sqlite' if _RESUB[0] % 6 == 4 and schema in ('ids', 'flat') else 'dict'}


def to_tlc(tr):
    """the part of a trace TLC reads (no null, no float)"""
    return {k: tr[k] for k in ('N', 'b', 'm', 'file', 'loaded', 'recs', 'nrecs', 'ended')}


# ---------------------------------------------------------------- TLC helpers

def extract(stdout, tag):
    # TLC wraps long tuples as `<< "TAG",\n   ...` : normalise before the common parser
    return C.extract_printed(re.sub(r'<<\s+"', '<<"', stdout), tag)


def trace_cfg(variant, invariants=()):
    return C.cfg(spec='TraceSpec', view='TraceView', invariants=list(invariants),
                 constants=dict(MaxN=0, BatchSizes=set(), LoadSizes=set(),
                                FixBatch=variant[0], FixBuffer=variant[1]))


def validate(traces, variant, invariants=(), chunk=200):
    """Verdicts for `traces`.  Executions that differ only in fields TLC does not read
    (codec, file mode, schema ...) give the same record: TLC judges each distinct record
    once and the verdict is shared."""
    recs = [to_tlc(t) for t in traces]
    keys = [C.json.dumps(r, sort_keys=True) for r in recs]
    index = {}
    uniq = []
    for k, r in zip(keys, recs):
        if k not in index:
            index[k] = len(uniq)
            uniq.append(r)
    v, st = C.validate_traces('ParquetDumpTrace', uniq,
                              cfg_text=trace_cfg(variant, invariants), chunk=chunk,
                              workers=max(2, C.NCPU // 2))
    st = dict(st, distinct_records=len(uniq))
    return [v[index[k]] for k in keys], st


def verdict_core(v):
    """the variant-independent part of a verdict"""
    return ('ACCEPT',) if v[0] == 'ACCEPT' else ('REJECT', v[2], v[3])


def verdict_insync(v):
    return (v[2] if v[0] == 'ACCEPT' else v[4]) is True


def witness_of(tr, v):
    return {'op': 'parquet', 'N': tr['N'], 'b': tr['b'], 'm': tr['m'],
            'compression': tr['compression'], 'mode': tr['mode'],
            'row_group_size': tr['row_group_size'], 'schema': tr['schema'],
            'origin': tr['origin'], 'n_gt_b': tr['N'] > tr['b'], 'n_mod_b': tr['N'] % tr['b'],
            'dup_scope': v[3], 'trace': tr}


# ---------------------------------------------------------------- replay of a witness

def do_replay(path):
    C.use_repo()
    w = C.json.load(open(path))['witness']
    old = w['trace']
    case = {k: old[k] for k in ('N', 'b', 'm', 'compression', 'mode', 'row_group_size',
                                'schema', 'rowseed', 'origin')}
    for k in ('resub', 'retry', 'at_completion'):
        case[k] = old.get(k, False)
    case['load_twice'] = old.get('load_twice', 0)
    case['after_store'] = old.get('after_store', False)
    case['rowtype'] = old.get('rowtype', 'dict')
    with C.scratch('rxsci-verif.c20.') as d:
        new = execute(case, d)
    v, _ = validate([new], (True, True))
    print('replay verdict:', v[0])
    print('case:', case)
    print('file ids (runs):', new['file'], 'loader ids (runs):', new['loaded'])
    print('record batches handed to the writer:', new['recs'], 'ended:', new['ended'])
    if v[0][0] == 'REJECT':
        if v[0][2].startswith('model-'):
            raise C.MachineryError('harness/spec inconsistency: %r' % (v[0],))
        print('VIOLATION property=%s replay=%s clause=%s' % (PROP, path, v[0][2]))
        return 1
    return 0


# ---------------------------------------------------------------- the check

def _worker(cases):
    """runs in a separate process: execute a slice of the cases on the real code"""
    C.use_repo()
    with C.scratch('rxsci-verif.c20.') as tmp, C.quiet_stdout():
        return [execute(c, tmp) for c in cases]


class Executions:
    """Executes cases on the real code in `nproc` worker processes (the conversion of
    parquet rows to python objects is CPU bound); results keep the order of the cases."""

    def __init__(self, nproc):
        import concurrent.futures as cf
        import multiprocessing as mp
        self.nproc = nproc
        self.pool = cf.ProcessPoolExecutor(max_workers=nproc, mp_context=mp.get_context('spawn'))

    def submit(self, cases):
        k = self.nproc * 4          # interleaved slices: cheap and costly cases are mixed
        return (len(cases), [(list(range(i, len(cases), k)), self.pool.submit(_worker, cases[i::k]))
                             for i in range(k) if cases[i::k]])

    @staticmethod
    def result(job):
        n, parts = job
        out = [None] * n
        for idx, fut in parts:
            for i, tr in zip(idx, fut.result()):
                out[i] = tr
        if any(t is None for t in out):
            raise C.MachineryError('execution results missing')
        return out

    def close(self):
        self.pool.shutdown()


def random_cases(rng, nrand, thorough):
    """(N, b, m) far beyond the model bounds, every relation between N and b."""
    cases = []
    for k in range(nrand):
        # N / b is kept small: as long as every record batch repeats the previous ones
        # the file grows with N * (N / b)
        shape = rng.choice(['small', 'small', 'mid', 'mid', 'big'])
        if shape == 'small':
            b, maxk = rng.randint(1, 6), 12
        elif shape == 'mid':
            b, maxk = rng.randint(5, 200), 8
        else:
            b, maxk = rng.randint(200, 2000), 4
        rel = rng.choice(['fewer', 'equal', 'multiple', 'non-multiple', 'any', 'zero'])
        kmax = max(1, min(maxk, 5000 // b))
        if rel == 'fewer':
            N = rng.randint(0, b - 1)
        elif rel == 'equal':
            N = b
        elif rel == 'multiple':
            N = b * rng.randint(1, kmax)
        elif rel == 'non-multiple':
            N = min(5000, b * rng.randint(1, kmax) + rng.randint(1, max(1, b - 1)))
        elif rel == 'zero':
            N = rng.choice([0, 1])
        else:
            N = rng.randint(0, min(5000, b * kmax))
        m = rng.choice([1, 2, 3, b, max(1, b - 1), b + 1, rng.randint(1, 2000),
                        rng.randint(1, 2000)])
        if N > 1500 and m < 5:
            m = rng.randint(5, 2000)
        kind = rng.choice(['ids', 'flat', 'nested', 'ids-const', 'ids-period'])
        if kind == 'nested' and N > 600 and (not thorough or rng.random() < 0.7):
            kind = 'flat'           # python-side conversion of nested rows is slow
        cases.append(mk_case(
            N, b, m, rng.choice(COMPRESSIONS + ['none-as-None']), rng.choice(MODES),
            rng.choice([None, None, 1, 7, 100, 1024, 100000]), kind,
            rowseed=rng.randint(0, 10 ** 6), origin='random'))
    return cases


def main(tier, replay):
    if replay:
        return do_replay(replay)
    C.use_repo()
    V = C.Verdict(PROP, tier)
    thorough = tier == 'thorough'
    rng = random.Random(C.seed() * 104729 + 20)

    # 1. model checking: four variants ------------------------------------------------
    maxn, bs, ms = (14, 6, 4) if thorough else (9, 4, 3)
    base = dict(MaxN=maxn, BatchSizes=set(range(1, bs + 1)), LoadSizes=set(range(1, ms + 1)))
    always = ['TypeOK', 'LoaderFaithful', 'NoEarlyRows', 'FrozenAfterEmit']
    collect = ['CollectRoundTrip', 'CollectBatchChunks', 'CollectDistinctObjects',
               'CollectRowGroups']
    proved = ['RoundTrip', 'BatchChunks', 'DistinctObjects', 'RowGroups']

    def mc(variant):
        inv = always + collect + (proved + ['EmitBehaviour'] if variant == (True, True) else [])
        const = dict(base, FixBatch=variant[0], FixBuffer=variant[1])
        return C.run_tlc('ParquetDump', C.cfg(constants=const, invariants=inv), coverage=True,
                         workers=2)
    import concurrent.futures as cf
    pool = cf.ThreadPoolExecutor(max_workers=8)
    mc_futs = [pool.submit(mc, v) for v in VARIANTS]

    # 3. random executions: started now, in worker processes -----------------------------
    cases = random_cases(rng, 2000 if thorough else 160, thorough)
    ex = Executions(min(6, max(2, C.NCPU // 2)) if thorough else 4)
    big_job = ex.submit(cases)
    mc_runs = dict(zip(VARIANTS, [f.result() for f in mc_futs]))
    model_fail = {}
    for v, r in mc_runs.items():
        if r.violated:
            raise C.MachineryError('ParquetDump (%s) violates %s:\n%s'
                                   % (vname(v), r.violated, r.error_trace))
        fails = extract(r.stdout, 'FAIL')
        model_fail[v] = {k: sorted({(f[2], f[3]) for f in fails if f[1] == k}) for k in proved}
    if any(model_fail[(True, True)].values()):
        raise C.MachineryError('repaired model collects failures: %r' % model_fail[(True, True)])
    triples = sorted({tuple(x[1:4]) for x in extract(mc_runs[(True, True)].stdout, 'BEH')})
    if len(triples) != (maxn + 1) * bs * ms:
        raise C.MachineryError('expected %d behaviours from TLC, got %d'
                               % ((maxn + 1) * bs * ms, len(triples)))
    V.phase('model checking')

    # 2. replay of every TLC behaviour on the real code ---------------------------------
    small_cases = []
    for (N, b, m) in triples:
        for comp in COMPRESSIONS:
            for mode in (MODES if thorough else MODES[:2]):
                for rgs in ((None, 2) if thorough else (None,)):
                    kind = ['ids', 'flat', 'nested'][(N + b + m + len(comp)) % 3]
                    small_cases.append(mk_case(N, b, m, comp, mode, rgs, kind, rowseed=N * 31 + b))
    # a few configurations outside the product above, in both tiers
    for (N, b, m) in triples:
        if m == 1:
            small_cases.append(mk_case(N, b, 2, 'none-as-None', 'fileobj', 3, 'nested', rowseed=N))
    small = ex.result(ex.submit(small_cases))
    n_replayed = len(small)
    V.phase('replay of TLC behaviours')

    # 4. validation by TLC --------------------------------------------------------------
    tstats = {'states': 0, 'transitions': 0, 'tlc_runs': 0, 'distinct_records': 0}

    def add(st):
        for k in tstats:
            tstats[k] += st[k]
    val_futs = [pool.submit(validate, small, v, ['TraceInv']) for v in VARIANTS]

    big = ex.result(big_job)
    ex.close()
    V.phase('random executions')
    res = [f.result() for f in val_futs]
    pool.shutdown()
    by_variant = {}
    for v, (verdicts, st) in zip(VARIANTS, res):
        add(st)
        by_variant[v] = verdicts
    ref = by_variant[(True, True)]
    for v in VARIANTS:
        for a, c in zip(by_variant[v], ref):
            if verdict_core(a) != verdict_core(c):
                raise C.MachineryError('verdict depends on the model variant: %r vs %r' % (a, c))
    sync_small = {v: sum(1 for x in by_variant[v] if verdict_insync(x)) for v in VARIANTS}
    followed = [v for v in VARIANTS if sync_small[v] == len(small)]
    if len(followed) > 1:
        raise C.MachineryError('executions do not tell the variants apart: %r' % (followed,))
    variant = followed[0] if followed else (True, True)
    V.phase('trace validation (behaviours, 4 variants)')
    big_verdicts, st = validate(big, variant, chunk=max(10, -(-len(big) // 4)))
    add(st)
    V.phase('trace validation (random)')

    out_of_sync = 0
    observed_fail = set()
    nontrivial = set()
    n_traces = 0
    for tr, v in list(zip(small, by_variant[variant])) + list(zip(big, big_verdicts)):
        n_traces += 1
        if not verdict_insync(v):
            out_of_sync += 1
        if tr['N'] >= tr['b']:
            nontrivial.add((tr['N'], tr['b'], tr['m'], tr['compression'], tr['mode'],
                            tr['row_group_size'], tr['schema']))
        if v[0] == 'ACCEPT':
            continue
        clause = v[2]
        if clause.startswith('model-'):
            raise C.MachineryError('trace spec/harness problem: %s on %r' % (v, tr))
        if tr['origin'] == 'tlc' and clause in FILE_CLAUSES:
            observed_fail.add((tr['N'], tr['b']))
        V.violation(witness_of(tr, v), clause, detail='judged after step %s; scope=%s' % (v[1], v[3]))

    in_sync = bool(followed) and out_of_sync == 0
    predicted = set(map(tuple, model_fail[variant]['RoundTrip']))
    if followed and predicted != observed_fail:
        V.note('impl_model_in_sync=false: variant %s predicts RoundTrip failures for %s, '
               'observed %s' % (vname(variant), sorted(predicted - observed_fail),
                                sorted(observed_fail - predicted)))
        in_sync = False
    if not followed:
        V.note('impl_model_in_sync=false: no variant of the model predicts the file and the '
               'record batch sizes of every replayed behaviour (in sync per variant: %s of %d); '
               'row grouping is not constrained by C20'
               % ({vname(v): c for v, c in sync_small.items()}, len(small)))
    elif out_of_sync:
        V.note('impl_model_in_sync=false: %d random executions group rows differently from '
               'variant %s (allowed by C20)' % (out_of_sync, vname(variant)))
    if followed and variant != (True, True):
        V.note('the code follows the model variant %s: TLC collects RoundTrip failures on the '
               'model for %d (N,b) pairs; the repaired variant is proved'
               % (vname(variant), len(predicted)))
    empty = sorted({tuple(t['recs']) for t in small + big if t['N'] == 0})
    uncovered = sorted({a for r in mc_runs.values() for a, (d, t) in r.coverage.items() if t == 0})
    pick = [t for t in small if t['N'] == 5 and t['b'] == 2] or small
    judged = tstats.pop('distinct_records')
    coverage = {
        'states': sum(r.distinct for r in mc_runs.values()) + tstats['states'],
        'transitions': sum(r.generated for r in mc_runs.values()) + tstats['transitions'],
        'traces_validated_against_impl': n_traces,
        'samples': [{'kind': 'tlc-behaviour', 'trace': pick[0]},
                    {'kind': 'random', 'trace': big[-1]}],
        'exhaustive': True,
        'bounds': {'N': '0..%d' % maxn, 'b': '1..%d' % bs, 'm': '1..%d' % ms},
        'model_checking_runs': [dict(variant=vname(v), **r.summary()) for v, r in mc_runs.items()],
        'model_failures_collected': {vname(v): {k: [list(p) for p in ps] for k, ps in f.items()}
                                     for v, f in model_fail.items()},
        'tlc_behaviours': len(triples),
        'tlc_behaviours_replayed': n_replayed,
        'random_executions': len(big),
        'random_max_N': max(t['N'] for t in big),
        'distinct_nontrivial': len(nontrivial),
        'rule': 'an execution is non-trivial when N >= b (at least one full batch, so state is '
                'carried from one batch to the next / to the terminator); distinct by (N, b, m, '
                'compression, file mode, row_group_size, schema)',
        'trace_validation': dict(tstats, records_judged_by_tlc=judged,
                                 note='executions that differ only in fields TLC does not read '
                                      '(codec, file mode, schema) share one record and verdict; '
                                      'the replayed behaviours are judged under all 4 variants'),
        'impl_model_in_sync': in_sync,
        'impl_follows_variant': vname(variant) if followed else None,
        'impl_model_in_sync_by_variant': {vname(v): {'in_sync': c, 'of': len(small)}
                                          for v, c in sync_small.items()},
        'observed_failing_pairs': [list(p) for p in sorted(observed_fail)],
        'record_batches_for_empty_source': [list(e) for e in empty],
        'actions_never_taken': uncovered,
    }
    return V.finish('model_checking', coverage, assumptions=[
        'plain observable source delivering synchronously (rx.from_ on the current thread); '
        'the mux path of batch() belongs to C10',
        'rows are told apart by a unique integer id; a row read back counts as source row i '
        'only if all its columns equal those of row i',
        'random executions keep N / b <= 12 (<= 4 for b >= 200) so that the file stays small while every record '
        'batch repeats the previous ones; floats are finite, float32 values exactly representable',
        'pyarrow is trusted for the file format; record batch sizes are observed by wrapping '
        'pyarrow.parquet.ParquetWriter (informational only)'])


if __name__ == '__main__':
    C.main_wrapper(main)
