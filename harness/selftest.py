"""bin/selftest-mutants [ID ...]: demonstrate the binding between specification and code.

For every selftest/<ID>/index.json entry {"patch", "expect": "detect"|"benign", "what",
"checks": [ids] (default [<ID>])}: copy the repository to a scratch directory, apply the
patch, run the quick check(s) with RXSCI_REPO pointing at the copy and compare the outcome
with the expectation (detect: some listed check exits 1 with a VIOLATION line; benign:
all listed checks exit 0).  Results go to evidence/selftest.json.  Nothing is ever
applied to /repo itself."""
import json
import os
import shutil
import subprocess
import sys
import tempfile
import time

VERIF = os.path.dirname(os.path.dirname(os.path.abspath(__file__)))
REPO = os.environ.get('RXSCI_REPO', '/repo')


def run_one(prop, entry):
    d = tempfile.mkdtemp(prefix='rxsci-verif.mut.')
    try:
        shutil.copytree(os.path.join(REPO, 'rxsci'), os.path.join(d, 'rxsci'))
        patch = os.path.join(VERIF, 'selftest', prop, entry['patch'])
        p = subprocess.run(['patch', '-p1', '-s', '-i', patch], cwd=d, stdout=subprocess.PIPE,
                           stderr=subprocess.STDOUT, text=True)
        if p.returncode != 0:
            return {'status': 'patch-failed', 'detail': p.stdout[-400:]}
        env = dict(os.environ, RXSCI_REPO=d, VERIF_SELFTEST='1',
                   VERIF_EVIDENCE_DIR=os.path.join(d, 'evidence'), VERIF_REPLAY_DIR=os.path.join(d, 'replays'))
        outcomes = {}
        for chk in entry.get('checks', [prop]):
            t0 = time.time()
            q = subprocess.run([os.path.join(VERIF, 'bin', 'check'), chk, 'quick'], cwd=VERIF, env=env,
                               stdout=subprocess.PIPE, stderr=subprocess.STDOUT, text=True)
            viol = [l for l in q.stdout.splitlines() if l.startswith('VIOLATION')]
            outcomes[chk] = {'exit': q.returncode, 'violations': len(viol),
                             'first': viol[0] if viol else None,
                             'wall_s': round(time.time() - t0, 1),
                             'tail': q.stdout[-300:] if q.returncode == 2 else None}
        detected = any(o['exit'] == 1 for o in outcomes.values())
        broken = any(o['exit'] == 2 for o in outcomes.values())
        exp = entry['expect']
        ok = (exp == 'detect' and detected) or (exp == 'benign' and not detected and not broken)
        return {'status': 'ok' if ok else ('MISSED' if exp == 'detect' else 'FALSE-ALARM'),
                'outcomes': outcomes}
    finally:
        shutil.rmtree(d, ignore_errors=True)


def main():
    only = [a for a in sys.argv[1:] if not a.startswith('-')]
    root = os.path.join(VERIF, 'selftest')
    results = []
    jobs = []
    for prop in sorted(os.listdir(root)):
        idx = os.path.join(root, prop, 'index.json')
        if not os.path.exists(idx) or (only and prop not in only):
            continue
        for entry in json.load(open(idx)):
            jobs.append((prop, entry))
    import concurrent.futures as cf
    ev_dir = os.path.join(VERIF, 'evidence')
    with cf.ThreadPoolExecutor(max_workers=int(os.environ.get('SELFTEST_JOBS', '3'))) as ex:
        futs = [(prop, entry, ex.submit(run_one, prop, entry)) for prop, entry in jobs]
        for prop, entry, fu in futs:
            r = fu.result()
            r.update({'property': prop, 'patch': entry['patch'], 'expect': entry['expect'],
                      'what': entry.get('what', '')})
            results.append(r)
            print('%-12s %-5s %-7s %-40s %s' % (r['status'], prop, entry['expect'],
                                                entry['patch'], entry.get('what', '')[:60]), flush=True)
    summary = {'detect_ok': sum(1 for r in results if r['expect'] == 'detect' and r['status'] == 'ok'),
               'missed': sum(1 for r in results if r['status'] == 'MISSED'),
               'benign_ok': sum(1 for r in results if r['expect'] == 'benign' and r['status'] == 'ok'),
               'false_alarms': sum(1 for r in results if r['status'] == 'FALSE-ALARM'),
               'patch_failed': sum(1 for r in results if r['status'] == 'patch-failed')}
    print(summary)
    if not only:
        with open(os.path.join(ev_dir, 'selftest.json'), 'w') as f:
            json.dump({'summary': summary, 'results': results}, f, indent=1)
    return 0 if summary['missed'] == 0 and summary['false_alarms'] == 0 else 1


if __name__ == '__main__':
    sys.exit(main())
