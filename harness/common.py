"""Common machinery for the rxsci TLA+ verification checks.

 * locating / importing the rxsci tree under test (RXSCI_REPO, default /repo)
 * running TLC (model checking, simulation, batch trace validation) and parsing
   its output
 * converting python values to TLA+ literals / TLC-friendly JSON
 * evidence files, known findings, VIOLATION / KNOWN-FINDING verdict lines

Exit codes used by every check: 0 = property held on everything explored,
1 = violation (a line "VIOLATION property=<id> replay=<path>" was printed),
2 = machinery failure (TLC crashed, output unparsable, verdicts missing).
"""
import contextlib
import io
import json
import os
import re
import shutil
import subprocess
import sys
import tempfile
import time

VERIF = os.path.dirname(os.path.dirname(os.path.abspath(__file__)))
SPEC_DIR = os.path.join(VERIF, 'spec')
EVIDENCE_DIR = os.environ.get('VERIF_EVIDENCE_DIR') or os.path.join(VERIF, 'evidence')
REPLAY_DIR = os.environ.get('VERIF_REPLAY_DIR') or os.path.join(VERIF, 'replays')
KNOWN_FINDINGS = os.path.join(VERIF, 'known_findings.json')
REPO = os.environ.get('RXSCI_REPO', '/repo')
TLA_JAR = '/opt/veriftools/tla/tla2tools.jar'
TLA_CP = TLA_JAR + ':/opt/veriftools/tla/CommunityModules-deps.jar'
NCPU = os.cpu_count() or 4


class MachineryError(Exception):
    """The verification machinery itself failed (never a verdict)."""


def _platform_defaults():
    """The checks run with platform defaults that have teeth: a local time zone with daylight
    saving (nothing in rxsci may depend on it)."""
    import time
    os.environ['TZ'] = 'CET-1CEST,M3.5.0,M10.5.0/3'
    time.tzset()


def use_repo():
    """Make `import rxsci` resolve to the tree under test, without bytecode cache."""
    _platform_defaults()
    sys.dont_write_bytecode = True
    if REPO not in sys.path:
        sys.path.insert(0, REPO)
    for m in list(sys.modules):
        if m == 'rxsci' or m.startswith('rxsci.'):
            f = getattr(sys.modules[m], '__file__', '') or ''
            if not f.startswith(REPO):
                del sys.modules[m]
    import rxsci  # noqa: F401
    f = os.path.abspath(rxsci.__file__)
    if not f.startswith(os.path.abspath(REPO)):
        raise MachineryError('rxsci imported from %s, expected under %s' % (f, REPO))
    return rxsci


def seed():
    try:
        return int(os.environ.get('VERIF_SEED', '0'))
    except ValueError:
        return 0


@contextlib.contextmanager
def scratch(prefix='rxsci-verif.'):
    d = tempfile.mkdtemp(prefix=prefix)
    try:
        yield d
    finally:
        shutil.rmtree(d, ignore_errors=True)


@contextlib.contextmanager
def quiet_stdout():
    """rxsci prints from some operators (error.map, to_deque); keep our stdout clean."""
    old = sys.stdout
    sys.stdout = io.StringIO()
    try:
        yield
    finally:
        sys.stdout = old


# --------------------------------------------------------------------------
# python -> TLA+ literal

def tla(v):
    """Render a python value as a TLA+ expression.

    bool -> TRUE/FALSE, int -> int, str -> "str", list/tuple -> <<...>>,
    dict -> record [k |-> v] (keys must be identifiers), set/frozenset -> {...}.
    """
    if isinstance(v, bool):
        return 'TRUE' if v else 'FALSE'
    if isinstance(v, int):
        if not -2**31 < v < 2**31:
            raise MachineryError('integer out of TLC range: %r' % v)
        return str(v)
    if isinstance(v, str):
        return '"' + v.replace('\\', '\\\\').replace('"', '\\"') + '"'
    if isinstance(v, (list, tuple)):
        return '<<' + ', '.join(tla(x) for x in v) + '>>'
    if isinstance(v, (set, frozenset)):
        return '{' + ', '.join(sorted(tla(x) for x in v)) + '}'
    if isinstance(v, dict):
        if not v:
            raise MachineryError('empty record')
        return '[' + ', '.join('%s |-> %s' % (k, tla(x)) for k, x in v.items()) + ']'
    raise MachineryError('cannot render %r as TLA+' % (v,))


# --------------------------------------------------------------------------
# TLA+ value parser (for PrintT output and -simulate state files)

class _P:
    def __init__(self, s):
        self.s = s
        self.i = 0

    def ws(self):
        while self.i < len(self.s) and self.s[self.i] in ' \t\r\n':
            self.i += 1

    def peek(self, t):
        self.ws()
        return self.s.startswith(t, self.i)

    def eat(self, t):
        self.ws()
        if not self.s.startswith(t, self.i):
            raise MachineryError('TLA parse: expected %r at %r' % (t, self.s[self.i:self.i + 40]))
        self.i += len(t)

    def value(self):
        self.ws()
        s = self.s
        if self.peek('<<'):
            self.eat('<<')
            out = []
            if self.peek('>>'):
                self.eat('>>')
                return out
            while True:
                out.append(self.value())
                if self.peek(','):
                    self.eat(',')
                    continue
                self.eat('>>')
                return out
        if self.peek('{'):
            self.eat('{')
            out = []
            if self.peek('}'):
                self.eat('}')
                return {'$set': out}
            while True:
                out.append(self.value())
                if self.peek(','):
                    self.eat(',')
                    continue
                self.eat('}')
                return {'$set': out}
        if self.peek('['):
            self.eat('[')
            rec = {}
            while True:
                self.ws()
                m = re.compile(r'[A-Za-z_][A-Za-z_0-9]*').match(s, self.i)
                if not m:
                    raise MachineryError('TLA parse: field name at %r' % s[self.i:self.i + 40])
                name = m.group(0)
                self.i = m.end()
                self.eat('|->')
                rec[name] = self.value()
                if self.peek(','):
                    self.eat(',')
                    continue
                self.eat(']')
                return rec
        if self.peek('('):
            # function displayed as (k :> v @@ k :> v)
            self.eat('(')
            fn = []
            while True:
                k = self.value()
                self.eat(':>')
                v = self.value()
                fn.append([k, v])
                if self.peek('@@'):
                    self.eat('@@')
                    continue
                self.eat(')')
                return {'$fn': fn}
        if self.peek('"'):
            self.i += 1
            out = []
            while s[self.i] != '"':
                if s[self.i] == '\\':
                    self.i += 1
                out.append(s[self.i])
                self.i += 1
            self.i += 1
            return ''.join(out)
        m = re.compile(r'-?\d+').match(s, self.i)
        if m:
            self.i = m.end()
            return int(m.group(0))
        m = re.compile(r'[A-Za-z_][A-Za-z_0-9]*').match(s, self.i)
        if m:
            self.i = m.end()
            w = m.group(0)
            if w == 'TRUE':
                return True
            if w == 'FALSE':
                return False
            return {'$id': w}
        raise MachineryError('TLA parse: unexpected %r' % s[self.i:self.i + 40])


def parse_tla(text):
    p = _P(text)
    v = p.value()
    p.ws()
    if p.i != len(p.s):
        raise MachineryError('TLA parse: trailing %r' % p.s[p.i:p.i + 40])
    return v


def extract_printed(stdout, tag):
    """All values printed with PrintT(<<tag, ...>>): bracket-matched, so that output
    interleaved by several workers or wrapped over several lines is still parsed."""
    out = []
    stdout = re.sub(r'<<\s+"', '<<"', stdout)   # TLC wraps long tuples as `<< "TAG",\n ...`
    needle = '<<"%s"' % tag
    i = 0
    n = len(stdout)
    while True:
        j = stdout.find(needle, i)
        if j < 0:
            return out
        depth = 0
        k = j
        instr = False
        while k < n:
            c = stdout[k]
            if instr:
                if c == '\\':
                    k += 1
                elif c == '"':
                    instr = False
            elif c == '"':
                instr = True
            elif stdout.startswith('<<', k):
                depth += 1
                k += 1
            elif stdout.startswith('>>', k):
                depth -= 1
                k += 1
                if depth == 0:
                    break
            k += 1
        out.append(parse_tla(stdout[j:k + 1]))
        i = k + 1


# --------------------------------------------------------------------------
# running TLC

class TLCResult:
    def __init__(self):
        self.ok = False            # finished without any error
        self.violated = None       # name of violated invariant/property (or 'deadlock', ...)
        self.generated = 0
        self.distinct = 0
        self.depth = 0
        self.stdout = ''
        self.wall = 0.0
        self.cmd = ''
        self.coverage = {}         # action name -> (distinct, total)
        self.error_trace = None

    def summary(self):
        return {'states': self.distinct, 'transitions': self.generated, 'depth': self.depth,
                'wall_s': round(self.wall, 2), 'violated': self.violated}


_RE_STATES = re.compile(r'(\d+) states generated, (\d+) distinct states found')
_RE_DEPTH = re.compile(r'The depth of the complete state graph search is (\d+)')
_RE_INV = re.compile(r'Error: Invariant (\S+) is violated')
_RE_PROP = re.compile(r'Error: Action property (\S+) is violated|Error: Temporal properties were violated')
_RE_COV = re.compile(r'^<(\w+) line \d+, col \d+ to line \d+, col \d+ of module (\w+)(?: \([\d ]+\))?>: (\d+):(\d+)', re.M)


class TLCEvaluationError(MachineryError):
    """TLC could not evaluate an expression of the specification (as opposed to a parse error,
    a crash or a timeout); .result is the TLCResult with the complete output"""


def run_tlc(module, cfg_text, *, workers=None, timeout=3600, simulate=None, depth=None,
            env=None, coverage=False, tlc_seed=None, dfs=False, allow_violation=True,
            check_deadlock=False, extra=(), cwd=SPEC_DIR, jvm=()):
    """Run TLC on spec/<module>.tla with the given configuration text.

    simulate: None or a string such as "num=1000" / "file=/x/tr,num=100".
    Returns a TLCResult.  Raises MachineryError when TLC itself failed (parse error,
    evaluation error, timeout) -- a violated invariant is not a machinery failure.
    """
    workers = workers or NCPU
    res = TLCResult()
    with scratch('rxsci-verif.tlc.') as d:
        cfg = os.path.join(d, module + '.cfg')
        with open(cfg, 'w') as f:
            f.write(cfg_text)
        if workers == 1:
            cmd = ['java', '-XX:+UseSerialGC', '-Xmx6g', '-Xss128m']
        else:
            cmd = ['java', '-XX:+UseParallelGC', '-XX:ParallelGCThreads=%d' % min(workers, 4),
                   '-Xmx8g', '-Xss128m']
        if dfs:
            cmd.append('-Dtlc2.tool.queue.IStateQueue=StateDeque')
        jtmp = os.path.join(d, 'jtmp')      # SANY unpacks library modules into java.io.tmpdir
        os.makedirs(jtmp, exist_ok=True)
        cmd.append('-Djava.io.tmpdir=' + jtmp)
        cmd += list(jvm)
        cmd += ['-cp', TLA_CP, 'tlc2.TLC', '-workers', str(workers), '-metadir',
                os.path.join(d, 'meta'), '-noGenerateSpecTE', '-config', cfg]
        if not check_deadlock:
            cmd.append('-deadlock')
        if simulate is not None:
            cmd += ['-simulate', simulate]
        if depth is not None:
            cmd += ['-depth', str(depth)]
        if tlc_seed is not None:
            cmd += ['-seed', str(tlc_seed)]
        if coverage:
            cmd += ['-coverage', '1']
        cmd += list(extra)
        cmd.append(module + '.tla')
        e = dict(os.environ)
        e.pop('JAVA_TOOL_OPTIONS', None)
        if env:
            e.update(env)
        res.cmd = ' '.join(cmd)
        t0 = time.time()
        try:
            p = subprocess.run(cmd, cwd=cwd, env=e, stdout=subprocess.PIPE,
                               stderr=subprocess.STDOUT, timeout=timeout, text=True,
                               errors='replace')
        except subprocess.TimeoutExpired as ex:
            if simulate is not None:
                # simulation is open ended: a timeout is the normal way to stop it
                out = ex.stdout or ''
                if isinstance(out, bytes):
                    out = out.decode('utf8', 'replace')
                res.stdout = out
                res.wall = time.time() - t0
                res.ok = 'Error:' not in out
                return _parse_tlc(res)
            raise MachineryError('TLC timeout after %ss: %s' % (timeout, res.cmd))
        res.wall = time.time() - t0
        res.stdout = p.stdout
    return _parse_tlc(res, allow_violation)


def _parse_tlc(res, allow_violation=True):
    out = res.stdout
    for m in _RE_STATES.finditer(out):
        res.generated, res.distinct = int(m.group(1)), int(m.group(2))
    m = _RE_DEPTH.search(out)
    if m:
        res.depth = int(m.group(1))
    for m in _RE_COV.finditer(out):
        res.coverage[m.group(1)] = (int(m.group(3)), int(m.group(4)))
    m = _RE_INV.search(out)
    if m:
        res.violated = m.group(1)
    elif _RE_PROP.search(out):
        m = _RE_PROP.search(out)
        res.violated = m.group(1) or 'temporal'
    elif 'Error: Deadlock reached' in out:
        res.violated = 'deadlock'
    elif 'Error:' in out or 'Exception' in out and 'Finished in' not in out:
        i = out.find('Error:')
        msg = 'TLC failed: %s\n--- cmd: %s' % (out[max(0, i - 200):i + 1500], res.cmd)
        if 'The error occurred when TLC was evaluating' in out or 'Attempted to' in out:
            e = TLCEvaluationError(msg)
            e.result = res
            raise e
        raise MachineryError(msg)
    if res.violated is None:
        if 'Model checking completed. No error has been found.' in out or \
                'Finished in' in out or 'simulation' in out.lower():
            res.ok = True
        else:
            raise MachineryError('TLC output not understood:\n%s' % out[-2000:])
    else:
        i = out.find('Error:')
        res.error_trace = out[i:i + 6000]
        if not allow_violation:
            raise MachineryError('unexpected violation of %s:\n%s' % (res.violated, res.error_trace))
    return res


def par(thunks, max_workers=None):
    """Run independent TLC jobs (thunks) concurrently; results in order."""
    import concurrent.futures as cf
    thunks = list(thunks)
    if not thunks:
        return []
    with cf.ThreadPoolExecutor(max_workers=max_workers or min(len(thunks), max(1, NCPU // 2))) as ex:
        futs = [ex.submit(t) for t in thunks]
        return [f.result() for f in futs]


# --------------------------------------------------------------------------
# batch trace validation
#
# A trace module <M>Trace.tla reads IOEnv.TRACE_FILE (a JSON array of traces),
# has variables including `tid` and prints exactly one verdict per trace:
#   PrintT(<<"VERDICT", tid, "ACCEPT", steps>>)  or
#   PrintT(<<"VERDICT", tid, "REJECT", step, clause>>)

def validate_traces(module, traces, *, cfg_text=None, workers=None, timeout=3600,
                    chunk=400, jvm=()):
    """Validate recorded executions with TLC.  `traces` is a list of JSON-able traces.
    Returns (verdicts, stats): verdicts[i] = ('ACCEPT', steps) | ('REJECT', step, clause)."""
    verdicts = [None] * len(traces)
    stats = {'states': 0, 'transitions': 0, 'wall_s': 0.0, 'tlc_runs': 0}
    if not traces:
        return verdicts, stats
    workers = workers or NCPU
    chunks = [(i, traces[i:i + chunk]) for i in range(0, len(traces), chunk)]

    def run_part(part):
        with scratch('rxsci-verif.tr.') as d:
            tf = os.path.join(d, 'traces.json')
            with open(tf, 'w') as f:
                json.dump(part, f)
            try:
                r = run_tlc(module, cfg_text or cfg(spec='TraceSpec'), workers=1, timeout=timeout,
                            env={'TRACE_FILE': tf}, allow_violation=False, jvm=jvm)
                return r, None
            except TLCEvaluationError as e:
                return e.result, e

    def one(job):
        """A chunk of traces.  When TLC cannot *evaluate* the specification on one trace (the
        recorded values are of a kind no operator of the specification produces or accepts:
        e.g. None where a number is folded), that trace gets the verdict
        ('REJECT', 0, 'values-outside-the-specification') and the rest of the chunk is validated
        again without it: a verdict for every trace, never a crash for one of them."""
        base, part = job
        got = {}
        todo = list(range(len(part)))          # indices (in part) still without a verdict
        agg = None
        for _round in range(200):
            r, err = run_part([part[i] for i in todo])
            agg = r if agg is None else agg
            if agg is not r:
                agg.distinct += r.distinct
                agg.generated += r.generated
                agg.wall += r.wall
            seen = {}
            for v in extract_printed(r.stdout, 'VERDICT'):
                tid = v[1]
                if tid in seen:
                    raise MachineryError('two verdicts for trace %d' % tid)
                seen[tid] = tuple(v[2:])
            for tid, v in seen.items():
                got[todo[tid - 1] + 1] = v
            if err is None:
                break
            m = re.search(r'/\\ tid = (\d+)', r.stdout[r.stdout.find('Error:'):])
            if not m or int(m.group(1)) in seen or not (1 <= int(m.group(1)) <= len(todo)):
                raise MachineryError(str(err))
            bad = int(m.group(1))
            got[todo[bad - 1] + 1] = ('REJECT', 0, 'values-outside-the-specification')
            todo = [i for j, i in enumerate(todo, start=1) if j != bad and (i + 1) not in got]
            if not todo:
                break
        if sorted(got) != list(range(1, len(part) + 1)):
            raise MachineryError('missing verdicts from %s: got %d of %d\n%s'
                                 % (module, len(got), len(part), agg.stdout[-3000:]))
        return base, got, agg

    import concurrent.futures as cf
    with cf.ThreadPoolExecutor(max_workers=max(1, min(len(chunks), workers))) as ex:
        for base, got, r in ex.map(one, chunks):
            for tid, v in got.items():
                verdicts[base + tid - 1] = v
            stats['states'] += r.distinct
            stats['transitions'] += r.generated
            stats['wall_s'] += r.wall
            stats['tlc_runs'] += 1
    return verdicts, stats


# --------------------------------------------------------------------------
# -simulate file=... behaviours

_RE_STATE = re.compile(r'^STATE_(\d+) ==\s*$', re.M)


def read_sim_behaviours(prefix_dir):
    """Parse the behaviour files TLC writes with -simulate file=<dir>/tr,num=N.
    Returns a list of behaviours; each a list of dict(var -> value)."""
    out = []
    for fn in sorted(os.listdir(prefix_dir)):
        p = os.path.join(prefix_dir, fn)
        if not os.path.isfile(p) or not fn.startswith('tr'):
            continue
        text = open(p).read()
        parts = _RE_STATE.split(text)
        states = []
        # parts = [pre, n1, body1, n2, body2 ...]
        for i in range(1, len(parts), 2):
            body = parts[i + 1]
            body = re.split(r'^\\\*|^=====|^STATE_', body, flags=re.M)[0]
            st = {}
            conj = re.split(r'^\s*/\\ ', body, flags=re.M)
            for c in conj:
                c = c.strip()
                if not c:
                    continue
                m = re.match(r'(\w+)\s*=\s*(.*)$', c, re.S)
                if not m:
                    raise MachineryError('cannot parse state conjunct %r' % c[:80])
                st[m.group(1)] = parse_tla(m.group(2).strip())
            states.append(st)
        out.append(states)
    return out


# --------------------------------------------------------------------------
# known findings / verdict lines / evidence

def load_known_findings():
    out = []
    if os.path.exists(KNOWN_FINDINGS):
        with open(KNOWN_FINDINGS) as f:
            out += json.load(f).get('findings', [])
    extra = os.environ.get('VERIF_KNOWN_FINDINGS_EXTRA')   # development aid only
    if extra and os.path.exists(extra):
        with open(extra) as f:
            out += json.load(f).get('findings', [])
    return out


class Verdict:
    """Collects violations for one property run, matches them against known findings,
    prints VIOLATION / KNOWN-FINDING lines and writes the evidence file."""

    def __init__(self, prop, tier):
        self.prop = prop
        self.tier = tier
        self.t0 = time.time()
        self.violations = []      # list of dict(witness=..., clause=..., detail=...)
        self.notes = []
        self.known = [k for k in load_known_findings()
                      if k.get('property') == prop and k.get('status') == 'open']

    def violation(self, witness, clause, detail=None, replay=None):
        """witness: dict describing the failing case; must contain the fields the known
        findings match on (op/config/clause...)."""
        self.violations.append({'witness': witness, 'clause': clause, 'detail': detail,
                                'replay': replay})

    def phase(self, name):
        now = time.time()
        last = getattr(self, '_last', self.t0)
        self._last = now
        self.phases = getattr(self, 'phases', [])
        self.phases.append((name, round(now - last, 2)))
        if os.environ.get('VERIF_VERBOSE'):
            print('  [%6.1fs] %s (+%.1fs)' % (now - self.t0, name, now - last), flush=True)

    def note(self, text):
        self.notes.append(text)
        print('NOTE: ' + text)

    def _match(self, v):
        for k in self.known:
            m = k.get('match', {})
            w = dict(v['witness'])
            w['clause'] = v['clause']
            if all(_match_field(w.get(f), pat) for f, pat in m.items()):
                return k
        return None

    def finish(self, level, coverage, assumptions=(), extra=None):
        os.makedirs(EVIDENCE_DIR, exist_ok=True)
        new = []
        known_hit = {}
        for v in self.violations:
            k = self._match(v)
            if k is None:
                new.append(v)
            else:
                known_hit.setdefault(k['id'], (k, []))[1].append(v)
        for kid, (k, vs) in sorted(known_hit.items()):
            print('KNOWN-FINDING: property=%s %s [%s; %d witnesses this run]'
                  % (self.prop, k.get('what', ''), kid, len(vs)))
        paths = []
        if new:
            os.makedirs(REPLAY_DIR, exist_ok=True)
            seen = set()
            for i, v in enumerate(new[:5]):
                p = v.get('replay')
                if not p:
                    p = os.path.join(REPLAY_DIR, '%s_%d.json' % (self.prop, i))
                    with open(p, 'w') as f:
                        json.dump({'property': self.prop, 'witness': v['witness'],
                                   'clause': v['clause'], 'detail': v['detail']}, f, indent=1,
                                  default=str)
                if p in seen:
                    continue
                seen.add(p)
                paths.append(p)
                print('VIOLATION property=%s replay=%s clause=%s' % (self.prop, p, v['clause']))
            if len(new) > 5:
                print('... and %d more violations' % (len(new) - 5))
        ev = {
            'property_id': self.prop,
            'tier': self.tier,
            'seed': seed(),
            'level': level,
            'coverage': coverage,
            'assumptions': list(assumptions),
            'wall_s': round(time.time() - self.t0, 2),
            'violations': len(new),
        }
        if known_hit:
            ev['known_findings_reproduced'] = {kid: len(vs) for kid, (k, vs) in known_hit.items()}
        if self.notes:
            ev['notes'] = self.notes
        if getattr(self, 'phases', None):
            ev['phases_s'] = self.phases
        if extra:
            ev.update(extra)
        with open(os.path.join(EVIDENCE_DIR, self.prop + '.json'), 'w') as f:
            json.dump(ev, f, indent=1, default=str)
        print('%s %s: %s in %.1fs (evidence: evidence/%s.json)'
              % (self.prop, self.tier, 'VIOLATED' if new else 'held', ev['wall_s'], self.prop))
        return 1 if new else 0


def _match_field(value, pat):
    if isinstance(pat, dict) and 're' in pat:
        return value is not None and re.search(pat['re'], str(value)) is not None
    if isinstance(pat, list):
        return value in pat
    return value == pat


def tier_from_argv(argv):
    tier = os.environ.get('VERIF_TIER') or 'quick'
    for a in argv[1:]:
        if a in ('quick', 'thorough'):
            tier = a
    if tier not in ('quick', 'thorough'):
        tier = 'quick'
    return tier


def main_wrapper(fn):
    """Run a check main(tier, replay) -> exit code, mapping exceptions to exit 2."""
    try:
        replay = None
        if '--replay' in sys.argv:
            replay = sys.argv[sys.argv.index('--replay') + 1]
        code = fn(tier_from_argv(sys.argv), replay)
    except MachineryError as e:
        print('MACHINERY-FAILURE: %s' % e)
        sys.exit(2)
    except Exception:
        import traceback
        traceback.print_exc()
        print('MACHINERY-FAILURE: unexpected exception')
        sys.exit(2)
    sys.exit(code)


# --------------------------------------------------------------------------
# convenience: build a cfg

class Raw(str):
    """A constant value given literally in TLA+/cfg syntax."""


def cfg(spec='Spec', constants=None, invariants=(), constraints=(), properties=(), view=None,
        action_constraints=(), init_next=None, deadlock=False):
    lines = []
    if init_next:
        lines += ['INIT ' + init_next[0], 'NEXT ' + init_next[1]]
    else:
        lines.append('SPECIFICATION ' + spec)
    if constants:
        lines.append('CONSTANTS')
        for k, v in constants.items():
            lines.append('  %s = %s' % (k, v if isinstance(v, Raw) else tla(v)))
    for i in invariants:
        lines.append('INVARIANT ' + i)
    for c in constraints:
        lines.append('CONSTRAINT ' + c)
    for c in action_constraints:
        lines.append('ACTION_CONSTRAINT ' + c)
    for p in properties:
        lines.append('PROPERTY ' + p)
    if view:
        lines.append('VIEW ' + view)
    lines.append('CHECK_DEADLOCK ' + ('TRUE' if deadlock else 'FALSE'))
    return '\n'.join(lines) + '\n'
