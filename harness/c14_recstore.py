"""Recorder for rxsci state stores (property C14, trace format of spec/StoreTrace.tla).

    from harness import common as C
    from harness import c14_recstore as RS
    C.use_repo()
    log = RS.StoreLog()
    store = rs.state.StoreManager(store_factory=RS.RecordingStore.factory(log))
    ... run any pipeline under rs.state.with_store(store, [...]) ...
    traces = RS.to_traces(log)          # one StoreTrace trace per store instance (state id)

`RecordingStore` is a subclass of the real `rxsci.state.MemoryStore` (of the tree selected
by RXSCI_REPO): every public method is forwarded with super() and the call, its arguments
and the value it returned (or the exception it raised) are appended to the log.  Calls that
MemoryStore makes on itself (add_key -> set) are not logged.  iterate()/iterate_map() stay
lazy generators, exactly as in MemoryStore; the log entry is created when the generator
starts and is marked complete when it is exhausted.

Trace format (everything is a small int or a short string, as TLC's Json module wants):
  value   {"t": <python type name>, "v": <class>}   class = equivalence class of `==`
          within the trace (0 is "== 0", 1 is "== 1"; mutable objects: identity)
  key     "i": key[0], "k": class of the whole key tuple
  map key "mk": class of the key as a dict key
  result  "r": value | {"t":"none"} (python None) | {"t":"NOTSET"} (the sentinel) |
          {"t":"raised:<Type>"} | {"t":"#list","v":len}; "rl": the list
          iterate entry {"i","k","val","s": is_set,"m": [[mk, index], ...]}
          group indices (add_map/get_map results, "m") are the integers themselves
"""
import math

OPS = ('add_key', 'del_key', 'clear', 'is_cleared', 'is_set', 'get', 'set', 'iterate',
       'add_map', 'get_map', 'del_map', 'iterate_map')

NONE = {'t': 'none', 'v': 0}
NOTSET = {'t': 'NOTSET', 'v': 0}
LIST = '#list'            # tag of an enumeration result (not a python type name)
INT_MAX = 2 ** 31 - 1


def dt_name(data_type):
    """the branch MemoryStore.__init__ takes for this data_type"""
    if data_type is int:
        return 'int'
    if isinstance(data_type, str) and data_type == 'uint':
        return 'uint'
    if data_type is float:
        return 'float'
    if data_type is bool:
        return 'bool'
    if isinstance(data_type, str) and data_type == 'mapper':
        return 'mapper'
    return 'obj'


def _scalar(x):
    return x is None or isinstance(x, (bool, int, float, str, bytes))


class Encoder(object):
    """python values -> (type name, == class) within one trace"""

    def __init__(self, mapper=False):
        self.mapper = mapper    # a mapper store: the value of a slot is its key -> index dict
        self.vals = {}
        self.keys = {}
        self.mks = {}
        self.refs = []      # keeps identity-compared objects alive (ids stay unique)
        self.next_val = 2

    def _vkey(self, x):
        if isinstance(x, (bool, int, float)):
            if isinstance(x, float) and math.isnan(x):
                return ('nan',)
            return ('num', x)               # 1 == 1.0 == True: one dict entry
        if _scalar(x):
            return ('s', type(x).__name__, x)
        if isinstance(x, tuple) and all(_scalar(e) for e in x):
            return ('t', tuple(self._vkey(e) for e in x))
        self.refs.append(x)
        return ('id', id(x))

    def vclass(self, x):
        k = self._vkey(x)
        if k == ('num', 0):
            return 0
        if k == ('num', 1):
            return 1
        if k not in self.vals:
            self.vals[k] = self.next_val
            self.next_val += 1
        return self.vals[k]

    def value(self, x):
        return {'t': type(x).__name__, 'v': self.vclass(x)}

    def _class(self, table, x):
        try:
            hash(x)
            k = ('h', x)
        except TypeError:
            self.refs.append(x)
            k = ('id', id(x))
        if k not in table:
            table[k] = len(table)
        return table[k]

    def key(self, key):
        """-> (key[0], class of the whole key)"""
        try:
            i = key[0]
        except Exception:
            i = None
        if isinstance(i, bool) or not isinstance(i, int) or abs(i) > INT_MAX:
            i = -1
        return i, self._class(self.keys, key)

    def mapkey(self, mk):
        return self._class(self.mks, mk)

    def index(self, x):
        """a group index: the integer itself"""
        if isinstance(x, int) and not isinstance(x, bool) and abs(x) <= INT_MAX:
            return {'t': 'int', 'v': x}
        return self.value(x)

    def result(self, x, notset, kind='none'):
        """kind: 'none'  the method returns nothing (add_key, set, del_key, clear)
                 'value' get(): a stored value (a stored None is a value) or the sentinel
                 'index' add_map/get_map/del_map: a group index or the sentinel"""
        if x is notset:
            return dict(NOTSET)
        if kind == 'none' and x is None:
            return dict(NONE)
        if kind == 'index':
            return self.index(x)
        return self.value(x)

    def iter_entry(self, item):
        try:
            key, value, is_set = item
        except Exception:
            return {'i': -1, 'k': -1, 'val': self.value(item), 's': False, 'm': []}
        if isinstance(key, (tuple, list)) and len(key) > 0:
            i, k = self.key(key)
        else:                       # e.g. the CLEARED marker stored in keys[]
            i, k = -1, (key if isinstance(key, int) and not isinstance(key, bool) else -2)
        m = []
        if self.mapper and isinstance(value, dict):
            val = {'t': 'dict', 'v': 0}
            for mk, idx in value.items():
                ix = self.index(idx)
                m.append([self.mapkey(mk), ix['v'] if ix['t'] == 'int' else -1])
        else:
            val = self.value(value)
        return {'i': i, 'k': k, 'val': val, 's': bool(is_set), 'm': m}


def new_call(op, i=-1, k=0, a=None, mk=-1):
    return {'op': op, 'i': i, 'k': k, 'a': a if a is not None else dict(NONE), 'mk': mk,
            'r': dict(NONE), 'rl': []}


class StoreLog(object):
    """all RecordingStore instances created through one factory, in creation order"""

    def __init__(self):
        self.stores = []

    def register(self, name, data_type, default_value):
        enc = Encoder(mapper=dt_name(data_type) == 'mapper')
        rec = {'sid': len(self.stores), 'name': name, 'dt': dt_name(data_type),
               'data_type': repr(data_type),
               'dflt': dict(NONE) if default_value is None else enc.value(default_value),
               'calls': [], 'enc': enc, 'incomplete': 0}
        self.stores.append(rec)
        return rec


def to_traces(log):
    """One StoreTrace trace per store instance.  With a single partition the position in
    the list is the state id of the topology.  Enumerations that the caller abandoned
    before the end cannot be judged and are dropped (counted in 'incomplete')."""
    out = []
    for rec in log.stores:
        calls = []
        incomplete = 0
        for c in rec['calls']:
            if c.get('_open'):
                incomplete += 1
                continue
            calls.append({k: v for k, v in c.items() if not k.startswith('_')})
        out.append({'sid': rec['sid'], 'name': rec['name'], 'dt': rec['dt'],
                    'data_type': rec['data_type'], 'dflt': rec['dflt'], 'calls': calls,
                    'incomplete': incomplete})
    return out


_CLASS = {}


def recording_store_class():
    """RecordingStore for the rxsci currently imported (C.use_repo() first)."""
    import rxsci.state
    base = rxsci.state.MemoryStore
    if base in _CLASS:
        return _CLASS[base]
    notset = rxsci.state.markers.STATE_NOTSET

    class RecordingStore(base):
        def __init__(self, name=None, data_type='obj', default_value=None, log=None):
            self._c14_depth = 1          # no logging from the constructor
            super().__init__(name=name, data_type=data_type, default_value=default_value)
            self._c14_log = log if log is not None else StoreLog()
            self._c14 = self._c14_log.register(name, data_type, default_value)
            self._c14_depth = 0

        @classmethod
        def factory(cls, log):
            def create(name=None, data_type='obj', default_value=None):
                return cls(name=name, data_type=data_type, default_value=default_value, log=log)
            return create

        # ---- plumbing
        def _c14_call(self, entry, fn, args, kind='none'):
            if self._c14_depth > 0:       # MemoryStore calling itself (add_key -> set)
                return fn(*args)
            enc = self._c14['enc']
            self._c14['calls'].append(entry)
            self._c14_depth += 1
            try:
                r = fn(*args)
            except Exception as e:
                entry['r'] = {'t': 'raised:%s' % type(e).__name__, 'v': 0}
                raise
            finally:
                self._c14_depth -= 1
            entry['r'] = enc.result(r, notset, kind)
            return r

        def _c14_key(self, op, key, a=None, mk=-1):
            i, k = self._c14['enc'].key(key)
            return new_call(op, i, k, a, mk)

        def _c14_gen(self, entry, gen, conv):
            """stay lazy like MemoryStore; the entry is logged when the generator starts"""
            if self._c14_depth > 0:
                for x in gen:
                    yield x
                return
            entry['_open'] = True
            self._c14['calls'].append(entry)
            try:
                for x in gen:
                    entry['rl'].append(conv(x))
                    yield x
            except GeneratorExit:
                raise
            except Exception as e:
                entry['r'] = {'t': 'raised:%s' % type(e).__name__, 'v': 0}
                entry['rl'] = []
                del entry['_open']
                raise
            entry['r'] = {'t': LIST, 'v': len(entry['rl'])}
            del entry['_open']

        # ---- the public methods of MemoryStore
        def add_key(self, key):
            return self._c14_call(self._c14_key('add_key', key), super().add_key, (key,))

        def del_key(self, key):
            return self._c14_call(self._c14_key('del_key', key), super().del_key, (key,))

        def clear(self):
            return self._c14_call(new_call('clear'), super().clear, ())

        def is_cleared(self, key):
            return self._c14_call(self._c14_key('is_cleared', key), super().is_cleared, (key,),
                                  kind='value')

        def is_set(self, key):
            return self._c14_call(self._c14_key('is_set', key), super().is_set, (key,), kind='value')

        def get(self, key):
            return self._c14_call(self._c14_key('get', key), super().get, (key,), kind='value')

        def set(self, key, value):
            if self._c14_depth > 0:
                return super().set(key, value)
            a = self._c14['enc'].value(value)
            return self._c14_call(self._c14_key('set', key, a=a), super().set, (key, value))

        def iterate(self):
            return self._c14_gen(new_call('iterate'), super().iterate(),
                                 self._c14['enc'].iter_entry)

        def add_map(self, key, map_key):
            mk = self._c14['enc'].mapkey(map_key)
            return self._c14_call(self._c14_key('add_map', key, mk=mk), super().add_map,
                                  (key, map_key), kind='index')

        def get_map(self, key, map_key):
            mk = self._c14['enc'].mapkey(map_key)
            return self._c14_call(self._c14_key('get_map', key, mk=mk), super().get_map,
                                  (key, map_key), kind='index')

        def del_map(self, key, map_key):
            mk = self._c14['enc'].mapkey(map_key)
            return self._c14_call(self._c14_key('del_map', key, mk=mk), super().del_map,
                                  (key, map_key), kind='index')

        def iterate_map(self, key):
            return self._c14_gen(self._c14_key('iterate_map', key), super().iterate_map(key),
                                 self._c14['enc'].mapkey)

    _CLASS[base] = RecordingStore
    return RecordingStore


def factory(log):
    return recording_store_class().factory(log)


def __getattr__(name):          # `from harness.c14_recstore import RecordingStore`
    if name == 'RecordingStore':
        return recording_store_class()
    raise AttributeError(name)
