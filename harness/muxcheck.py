"""Shared runner for the multiplexed-stream checks (C01-C11, C13): drive the real code on
a list of cases, let TLC judge the recorded executions with the layer-A contracts
(spec/MuxTrace.tla), attribute rejected clauses to the property under check."""
import json
import os
import re

from . import common as C
from . import mux as M

TRACE_CFG = lambda stepwise: C.cfg(spec='TraceSpec', constants={'Stepwise': stepwise,
                                                                  'Deviations': C.Raw('{}')})


def run_case(case, taps='all'):
    mode = case.get('mode', 'mux')
    if 'multi' in case:
        # this pipeline together with its sibling pipelines on one shared store
        m = case['multi']
        return M.run_multi(m['pipes'], m['schedule'], taps=taps)[m['index']]
    if mode == 'mux':
        return M.run_mux(case['pipe'], case['src'], timescale=case.get('timescale'), taps=taps,
                         dl_late=case.get('dl_late', False), share_ops=case.get('share_ops', False),
                         warmup=case.get('warmup'), store_split=case.get('store_split'),
                         feedback=case.get('feedback'), reapply=case.get('reapply', False),
                         warmup_completes=case.get('warmup_completes', False))
    if mode == 'src':
        return M.run_src(case['pipe'], case['src'], complete=case.get('complete', True),
                         timescale=case.get('timescale'), taps=taps, root=case.get('root', 'store'),
                         dl_late=case.get('dl_late', False), source=case.get('source', 'subject'),
                         sibling=case.get('sibling', False))
    raise C.MachineryError('unknown mode %r' % mode)


def slim(trace):
    """what TLC needs (drops the harness-only fields)"""
    t = {k: trace[k] for k in ('pipe', 'mode', 'taps', 'out', 'dl', 'dlend')}
    t['end'] = {k: trace['end'][k] for k in ('t', 'v', 'o')}
    return t


def clause_names(clauses):
    """{'<<1, 1, 2>>:roll-close-order'} -> [('<<1, 1, 2>>', 'roll-close-order')]"""
    out = []
    for c in clauses:
        if ':' in c:
            p, n = c.split(':', 1)
        else:
            p, n = '', c
        out.append((p, n))
    return sorted(out)


def op_names(pipe):
    out = []
    for op in pipe:
        o = op['op']
        if o in ('roll', 'split', 'group_by', 'time_split'):
            out.append('%s[%s]' % (o, ','.join(op_names(op['inner']))))
        elif o == 'tee':
            out.append('tee-%s[%s]' % (op['join'], '|'.join(','.join(op_names(b))
                                                              for b in op['branches'])))
        else:
            out.append(o)
    return out


def source_lost(trace, case):
    """The first boundary of the pipeline must see exactly the events the driver pushed (a
    prefix of them when the stream died): a pipeline that was never connected to its source
    keeps every contract vacuously.  Returns a description of the difference, or None."""
    if 'multi' in case:
        return None
    got = [(e['t'], e['k'][0]) for e in log_of(trace, [0])]
    if case.get('mode', 'mux') == 'mux':
        want = [(e['t'], e['k'][0]) for e in case['src'] if e.get('t') in ('c', 'n', 'd', 'e')]
    else:
        want = [('c', 0)] + [('n', 0) for _ in case['src']] + ([('d', 0)] if case.get('complete', True) else [])
    died = trace['end']['t'] == 'error'
    if got == want or (died and got == want[:len(got)]):
        return None
    return 'the driver pushed %d events, the first boundary saw %d' % (len(want), len(got))


def tee_branches_alone(case):
    """C08: 'the join of the branches' own outputs'.  For a top-level tee_map: every branch
    as a pipeline of its own, over the same source events."""
    pipe = case['pipe']
    if len(pipe) != 1 or pipe[0]['op'] != 'tee' or 'multi' in case:
        return None
    return [dict(case, pipe=b, share_ops=False) for b in pipe[0]['branches'] if b]


def isolation_holds(alone):
    """True when every one of the `alone` cases is accepted by the contracts."""
    trs = [run_case(c) for c in alone]
    vs, st = C.validate_traces('MuxTrace', [slim(t) for t in trs], cfg_text=TRACE_CFG(False))
    return all(v[0] == 'ACCEPT' for v in vs), st


def judge(V, cases, relevant, stats, family='', keep_traces=None, isolation=None):
    """Run the cases on the real code, validate with TLC, record violations.
    relevant(clause_name) -> bool: does the clause witness a violation of *this* property.
    Returns the list of traces."""
    traces = [run_case(c) for c in cases]
    verdicts, st = C.validate_traces('MuxTrace', [slim(t) for t in traces],
                                     cfg_text=TRACE_CFG(False))
    for k in ('states', 'transitions', 'tlc_runs'):
        stats[k] = stats.get(k, 0) + st[k]
    stats['traces'] = stats.get('traces', 0) + len(traces)
    rejected = [i for i, v in enumerate(verdicts) if v[0] == 'REJECT']
    # the implementation model (layer B) run by TLC on the same source events
    for i, v in enumerate(verdicts):
        if v[0] == 'ACCEPT' and len(v) > 2:
            if v[2] is True:
                stats['model_in_sync'] = stats.get('model_in_sync', 0) + 1
            elif v[2] is False and cases[i].get('warmup'):
                # the store manager has served a warm-up subscription: the group indices it
                # hands out continue from there, the model starts from a fresh allocator
                stats['model_not_applicable'] = stats.get('model_not_applicable', 0) + 1
            elif v[2] is False:
                stats['model_out_of_sync'] = stats.get('model_out_of_sync', 0) + 1
                stats.setdefault('model_out_of_sync_samples', [])
                if len(stats['model_out_of_sync_samples']) < 3:
                    stats['model_out_of_sync_samples'].append(
                        {'pipeline': ' '.join(op_names(traces[i]['pipe'])), 'src': traces[i]['src'][:20]})
            else:
                stats['model_not_applicable'] = stats.get('model_not_applicable', 0) + 1
    steps = {}
    if rejected:
        # locate the first failing source step of the rejected traces
        v2, st2 = C.validate_traces('MuxTrace', [slim(traces[i]) for i in rejected],
                                    cfg_text=TRACE_CFG(True))
        for i, v in zip(rejected, v2):
            steps[i] = v
        for k in ('states', 'transitions', 'tlc_runs'):
            stats[k] += st2[k]
    for i in rejected:
        v = verdicts[i]
        clauses = v[2]['$set'] if isinstance(v[2], dict) else [v[2]]
        names = clause_names(clauses)
        mine = [(p, n) for (p, n) in names if relevant(n)]
        other = [(p, n) for (p, n) in names if not relevant(n)]
        step = steps.get(i, v)[1]
        if other and any(e.get('t') == 'e' for e in traces[i]['src'] if isinstance(e, dict)):
            # the source itself ended a key with an error event and created it again: the
            # lifecycle clauses do not apply to that key at the boundaries it passes through
            other = [(p_, n_) for (p_, n_) in other if not n_.startswith('proto-')]
        if other:
            if os.environ.get('VERIF_SHOW_OTHER'):
                print('OTHER', other, json.dumps({k: cases[i].get(k) for k in cases[i] if k != 'multi'})[:1500],
                      'end=', traces[i]['end'], 'out=', json.dumps(traces[i]['out'])[:400], flush=True)
            stats.setdefault('other_property_clauses', {})
            for _, n in other:
                stats['other_property_clauses'][n] = stats['other_property_clauses'].get(n, 0) + 1
        iso = False
        if not mine and other and isolation is not None:
            # operators inside the composite break their own contracts: is it the composite's
            # doing?  Yes when the same inner pipelines, each run alone on the same source
            # events, keep them.
            alone = isolation(cases[i])
            if alone:
                ok, st3 = isolation_holds(alone)
                for k in ('states', 'transitions', 'tlc_runs'):
                    stats[k] += st3[k]
                if ok:
                    iso = True
                    mine = [(p_, 'tee-branch-isolation') for (p_, _) in other[:1]]
        if mine:
            tr = traces[i]
            V.violation({'family': family, 'ops': ' '.join(op_names(tr['pipe'])), 'isolation': iso,
                         'pipe': json.dumps(tr['pipe'], sort_keys=True),
                         'mode': tr['mode'], 'src': tr['src'],
                         'timescale': cases[i].get('timescale'), 'multi': cases[i].get('multi'),
                         'root': cases[i].get('root', 'store'), 'dl_late': cases[i].get('dl_late', False),
                         'share_ops': cases[i].get('share_ops', False), 'warmup': cases[i].get('warmup'), 'reapply': cases[i].get('reapply', False), 'warmup_completes': cases[i].get('warmup_completes', False), 'store_split': cases[i].get('store_split'), 'feedback': cases[i].get('feedback'), 'source': cases[i].get('source'), 'sibling': cases[i].get('sibling', False),
                         'clauses': ['%s:%s' % pn for pn in names]},
                        '+'.join(sorted({n for _, n in mine})),
                        detail='first rejected at source step %s' % step)
    for i, c in enumerate(cases):
        lost = source_lost(traces[i], c)
        if lost:
            tr = traces[i]
            V.violation({'family': family, 'ops': ' '.join(op_names(tr['pipe'])),
                         'pipe': json.dumps(tr['pipe'], sort_keys=True), 'mode': tr['mode'], 'src': tr['src'],
                         'timescale': c.get('timescale'), 'root': c.get('root', 'store'),
                         'dl_late': c.get('dl_late', False), 'share_ops': c.get('share_ops', False),
                         'warmup': c.get('warmup'), 'reapply': c.get('reapply', False), 'warmup_completes': c.get('warmup_completes', False), 'store_split': c.get('store_split'),
                         'feedback': c.get('feedback'), 'source': c.get('source'), 'sibling': c.get('sibling', False), 'source_lost': True, 'clauses': ['source-events-lost']},
                        'source-events-lost', detail=lost)
    stats['rejected'] = stats.get('rejected', 0) + len(rejected)
    # The taps are operators themselves: they change the operator graph (e.g. what a
    # nested tee_map sees as its source).  Every case is therefore also executed with
    # taps at the two ends only; its outputs must be those of the fully tapped run
    # (which the contracts have just judged).
    def ends(t):
        last = log_of(t, [len(t['pipe'])])
        return ([(e['t'], e['k'], e['v']) for e in last], [o['v'] for o in t['out']],
                t['end']['t'], t['end']['v'], [d['v'] for d in t['dl']])
    for i, c in enumerate(cases):
        if i in rejected:
            continue
        u = run_case(c, taps='ends')
        if ends(u) != ends(traces[i]):
            tr = traces[i]
            V.violation({'family': family, 'ops': ' '.join(op_names(tr['pipe'])),
                         'pipe': json.dumps(tr['pipe'], sort_keys=True), 'mode': tr['mode'],
                         'src': tr['src'], 'timescale': c.get('timescale'), 'untapped': True,
                         'multi': c.get('multi'), 'root': c.get('root', 'store'), 'dl_late': c.get('dl_late', False),
                         'share_ops': c.get('share_ops', False), 'warmup': c.get('warmup'), 'reapply': c.get('reapply', False), 'warmup_completes': c.get('warmup_completes', False), 'store_split': c.get('store_split'), 'feedback': c.get('feedback'), 'source': c.get('source'), 'sibling': c.get('sibling', False),
                         'clauses': ['untapped-differs']}, 'untapped-differs',
                        detail='without inner taps: end=%s out=%s' % (u['end'], json.dumps(ends(u)[0])[:300]))
            stats['untapped_differs'] = stats.get('untapped_differs', 0) + 1
    stats['untapped_runs'] = stats.get('untapped_runs', 0) + len(cases) - len(rejected)
    return traces


def absent_pair(pipe, clean_pipe, items, failing):
    """C13, 'as if the item were absent': the multiplexed pipeline whose user function fails on
    some items (errors dropped right behind it) against the same pipeline with a function that
    does not fail, on the items without the failing ones.  -> a PlainTrace 'pair' trace"""
    src = [{'t': 'c', 'k': [0]}] + [{'t': 'n', 'k': [0], 'v': v} for v in items] + [{'t': 'd', 'k': [0]}]
    a = M.run_mux(pipe, src, taps='ends')
    kept = [v for v in items if not failing(v)]
    src2 = [{'t': 'c', 'k': [0]}] + [{'t': 'n', 'k': [0], 'v': v} for v in kept] + [{'t': 'd', 'k': [0]}]
    b = M.run_mux(clean_pipe, src2, taps='ends')
    out = lambda t, p: [e['v'] for e in log_of(t, [len(p)]) if e['t'] == 'n']
    return {'pipe': pipe, 'modeled': False, 'oracle': 'pair',
            'groups': [{'items': items, 'mux': out(a, pipe), 'muxerr': 0, 'plain': out(b, clean_pipe),
                        'plainend': 'completed' if b['end']['t'] == 'completed' and a['end']['t'] == 'completed' else 'error',
                        'plainerr': 0}]}


def replay_plain(prop, path, w):
    pipe = json.loads(w['pipe'])
    if w['mode'] == 'absent':
        code = w['fail_code']
        tr = absent_pair(pipe, json.loads(w['clean_pipe']), w['src'], lambda v: v == ['i', code])
    else:
        r = M.run_plain(pipe, w['src'])
        tr = {'pipe': pipe, 'modeled': True, 'oracle': 'plain-sem',
              'groups': [{'items': w['src'], 'mux': [], 'muxerr': 0, 'plain': [o['v'] for o in r['out']],
                          'plainend': r['end'], 'plainerr': 0 if r['end'] != 'error' else max(1, min(r['endstep'], len(w['src'])))}]}
    v, _ = C.validate_traces('PlainTrace', [tr])
    print('pipeline:', ' '.join(op_names(pipe)))
    print('items   :', json.dumps(w['src']))
    print('outputs :', json.dumps(tr['groups'][0]['mux'] or tr['groups'][0]['plain']))
    if w['mode'] == 'absent':
        print('without the failing items:', json.dumps(tr['groups'][0]['plain']))
    print('verdict :', v[0])
    if v[0][0] == 'REJECT':
        print('VIOLATION property=%s replay=%s clause=%s' % (prop, path, v[0][2]))
        return 1
    return 0


def replay(prop, path, relevant):
    """bin/check CNN --replay <file>: re-run the stored case on the real code, re-judge."""
    C.use_repo()
    w = json.load(open(path))['witness']
    if w.get('mode') in ('plain', 'absent'):
        return replay_plain(prop, path, w)
    if w.get('mode') == 'plaintee':
        from harness.checks import muxprops
        tee = json.loads(w['pipe'])[0]
        trs, out = muxprops.plain_tee_traces(tee, w['src'])
        v, _ = C.validate_traces('PlainTrace', trs)
        print('tee_map on a plain observable:', ' '.join(op_names([tee])), 'items:', json.dumps(w['src']))
        bad = 0
        for bi, (t, vv) in enumerate(zip(trs, v)):
            print('  branch %d delivered %s and ended %s: %s' % (bi + 1, json.dumps(t['groups'][0]['plain']),
                                                                t['groups'][0]['plainend'], vv))
            bad += vv[0] == 'REJECT'
        print('  the tee_map delivered', json.dumps(out['out']), out['end'])
        if bad:
            print('VIOLATION property=%s replay=%s clause=tee-plain-branch' % (prop, path))
            return 1
        return 0
    if w.get('mode') == 'framing':
        from harness.checks import c15, muxprops
        tr = w['trace']
        sizes = [len(c) for c in tr['chunks']]
        if w['op'] == 'line':
            new = c15.line_trace([''.join(map(chr, i)) for i in tr['items']], ''.join(map(chr, tr['tail'])),
                                 sizes, mode='plain')
        else:
            p, order = w['config'][2:].split(',')
            new = c15.lp_trace([bytes(i) for i in tr['items']], tr['cutoff'], sizes, int(p), order, mode='plain')
        v, _ = muxprops.framing_timing_verdicts(w['op'], [new], w['config'])
        print('replay verdict:', v[0])
        print('chunk sizes:', sizes)
        print('items emitted per chunk:', [len(o) for o in new['outs']], 'at completion:', len(new['final']), new['ended'])
        if not (v[0][0] == 'ACCEPT' and v[0][2] is True):
            print('VIOLATION property=%s replay=%s clause=framing-emission-time' % (prop, path))
            return 1
        return 0
    case = {'pipe': json.loads(w['pipe']), 'mode': w['mode'], 'src': w['src'],
            'timescale': w.get('timescale')}
    if w.get('multi'):
        case['multi'] = w['multi']
    case['root'] = w.get('root', 'store')
    case['dl_late'] = w.get('dl_late', False)
    case['share_ops'] = w.get('share_ops', False)
    if w.get('warmup'):
        case['warmup'] = w['warmup']
    if w.get('reapply'):
        case['reapply'] = True
    if w.get('warmup_completes'):
        case['warmup_completes'] = True
    if w.get('store_split'):
        case['store_split'] = w['store_split']
    if w.get('feedback'):
        case['feedback'] = w['feedback']
    if w.get('source'):
        case['source'] = w['source']
    if w.get('sibling'):
        case['sibling'] = True
    tr = run_case(case)
    if w.get('source_lost'):
        lost = source_lost(tr, case)
        print('source events:', lost or 'all seen')
        if lost:
            print('VIOLATION property=%s replay=%s clause=source-events-lost' % (prop, path))
            return 1
        return 0
    if w.get('untapped'):
        u = run_case(case, taps='ends')
        a = [(e['t'], e['k'], e['v']) for e in log_of(tr, [len(tr['pipe'])])]
        b = [(e['t'], e['k'], e['v']) for e in log_of(u, [len(u['pipe'])])]
        print('with taps   :', a, tr['end'])
        print('without taps:', b, u['end'])
        if a != b or tr['end']['t'] != u['end']['t']:
            print('VIOLATION property=%s replay=%s clause=untapped-differs' % (prop, path))
            return 1
        return 0
    v, _ = C.validate_traces('MuxTrace', [slim(tr)], cfg_text=TRACE_CFG(True))
    if w.get('isolation') and v[0][0] == 'REJECT':
        alone = tee_branches_alone(case)
        ok = bool(alone) and isolation_holds(alone)[0]
        print('in the tee_map: REJECT %s; branches alone: %s' % (v[0][2], 'ACCEPT' if ok else 'REJECT'))
        if ok:
            print('VIOLATION property=%s replay=%s clause=tee-branch-isolation' % (prop, path))
            return 1
        return 0
    print('pipeline :', ' '.join(op_names(case['pipe'])))
    print('source   :', json.dumps(case['src']))
    for t in tr['taps']:
        print('boundary %-12s %s' % (t['p'], ' '.join(
            '%s%s%s@%d' % (e['t'], e['k'], '' if e['t'] in 'cd' else ':' + json.dumps(e['v']),
                           e['o']) for e in t['evs'])))
    print('end      :', tr['end'])
    print('verdict  :', v[0])
    if v[0][0] == 'REJECT':
        clauses = v[0][2]['$set'] if isinstance(v[0][2], dict) else [v[0][2]]
        mine = [n for _, n in clause_names(clauses) if relevant(n)]
        if mine:
            print('VIOLATION property=%s replay=%s clause=%s' % (prop, path, '+'.join(sorted(set(mine)))))
            return 1
    return 0


def nontrivial_count(traces, rule):
    """distinct traces (by pipeline + source) for which rule(trace) holds"""
    seen = set()
    for t in traces:
        if rule(t):
            seen.add(json.dumps([t['pipe'], t['src']], sort_keys=True))
    return len(seen)


def log_of(trace, path):
    for t in trace['taps']:
        if t['p'] == list(path):
            return t['evs']
    return []


def sample(trace):
    return {'pipeline': ' '.join(op_names(trace['pipe'])), 'mode': trace['mode'],
            'source': trace['src'][:12],
            'boundaries': {str(t['p']): ['%s%s%s' % (e['t'], e['k'],
                                                    '' if e['t'] in 'cd' else '=' + json.dumps(e['v']))
                                         for e in t['evs'][:16]] for t in trace['taps'][:6]},
            'end': trace['end']['t']}
