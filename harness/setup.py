"""bin/setup: offline self-check of the framework (no build step is needed: the
specifications are interpreted by TLC and the harness is plain python).
 * every spec/*.tla parses (SANY)
 * MANIFEST.json / known_findings.json are well-formed
 * the rxsci tree under test imports from RXSCI_REPO
"""
import glob
import json
import os
import subprocess
import sys

sys.path.insert(0, os.path.dirname(os.path.dirname(os.path.abspath(__file__))))
from harness import common as C  # noqa: E402


def main():
    bad = []
    mods = sorted(os.path.basename(p)[:-4] for p in glob.glob(os.path.join(C.SPEC_DIR, '*.tla')))

    def one(m):
        p = subprocess.run(['java', '-cp', C.TLA_CP, 'tla2sany.SANY', m + '.tla'], cwd=C.SPEC_DIR,
                           stdout=subprocess.PIPE, stderr=subprocess.STDOUT, text=True)
        ok = p.returncode == 0 and '*** Errors' not in p.stdout and 'Fatal' not in p.stdout \
            and 'Could not' not in p.stdout
        return m, ok, p.stdout
    for m, ok, out in C.par([lambda m=m: one(m) for m in mods], max_workers=8):
        if not ok:
            bad.append(m)
            print('SANY failed for %s:\n%s' % (m, out[-1500:]))
    print('SANY: %d modules parsed, %d failed' % (len(mods), len(bad)))
    json.load(open(os.path.join(C.VERIF, 'MANIFEST.json')))
    if os.path.exists(C.KNOWN_FINDINGS):
        json.load(open(C.KNOWN_FINDINGS))
    rs = C.use_repo()
    print('rxsci under test:', os.path.dirname(rs.__file__))
    return 1 if bad else 0


if __name__ == '__main__':
    sys.exit(main())
