"""bin/setup: offline self-check of the framework (no build step is needed: the
specifications are interpreted by TLC and the harness is plain python).
 * every spec/*.tla parses (SANY)
 * MANIFEST.json / known_findings.json are well-formed
 * the rxsci tree under test imports from RXSCI_REPO
"""
import glob
import json
import os
import subprocess
import sys

sys.path.insert(0, os.path.dirname(os.path.dirname(os.path.abspath(__file__))))
from harness import common as C  # noqa: E402


def main():
    bad = []
    mods = sorted(os.path.basename(p)[:-4] for p in glob.glob(os.path.join(C.SPEC_DIR, '*.tla')))

    def one(m):
        p = subprocess.run(['java', '-cp', C.TLA_CP, 'tla2sany.SANY', m + '.tla'], cwd=C.SPEC_DIR,
                           stdout=subprocess.PIPE, stderr=subprocess.STDOUT, text=True)
        ok = p.returncode == 0 and '*** Errors' not in p.stdout and 'Fatal' not in p.stdout \
            and 'Could not' not in p.stdout
        return m, ok, p.stdout
    for m, ok, out in C.par([lambda m=m: one(m) for m in mods], max_workers=8):
        if not ok:
            bad.append(m)
            print('SANY failed for %s:\n%s' % (m, out[-1500:]))
    print('SANY: %d modules parsed, %d failed' % (len(mods), len(bad)))
    json.load(open(os.path.join(C.VERIF, 'MANIFEST.json')))
    if os.path.exists(C.KNOWN_FINDINGS):
        json.load(open(C.KNOWN_FINDINGS))
    rs = C.use_repo()
    print('rxsci under test:', os.path.dirname(rs.__file__))
    n_fn, fn_bad = check_fnlib()
    print('FnLib: %d function values compared between spec/FnLib.tla and harness/mux.py, %d differ'
          % (n_fn, len(fn_bad)))
    for b in fn_bad[:10]:
        print('  FnLib mismatch:', b)
    return 1 if bad or fn_bad else 0


def check_fnlib():
    """the TLA+ and the python implementation of the user-function library agree on the
    whole finite test domain"""
    from harness import mux as M
    r = C.run_tlc('FnLibCheck', C.cfg(), workers=1)
    rows = C.extract_printed(r.stdout, 'FN')
    bad = []

    def call(kind, name, c, arg):
        f = {'n': name, 'c': c}
        try:
            if kind == 'u' or kind == 'e':
                if kind == 'e':
                    return M.enc(M.mk_fn(f)(M.VerifError(arg[1])))
                return M.enc(M.mk_fn(f)(M.dec(arg)))
            if kind == 'p':
                return M.enc(M.mk_pred(f)(M.dec(arg)))
            if kind == 'a':
                import copy
                return M.enc(M.mk_acc(f)(copy.deepcopy(M.dec(arg[0])), M.dec(arg[1])))
            if kind == 'q':
                return M.mk_pred2(f)(M.dec(arg[0]), M.dec(arg[1]))
            if kind == 's':
                return M.enc(M.mk_star(f)(*M.dec(arg)))
        except M.VerifError as e:
            return ['x', e.code]
        raise C.MachineryError('unknown kind %r' % kind)
    for (_, kind, name, c, arg, val) in rows:
        got = call(kind, name, c, arg)
        if got != val:
            bad.append((kind, name, c, arg, 'tla', val, 'python', got))
    if len(rows) < 500:
        raise C.MachineryError('FnLibCheck printed only %d rows' % len(rows))
    return len(rows), bad


if __name__ == '__main__':
    sys.exit(main())
