"""Seeded breaking changes (written by independent sub-agents that saw only the property
text): import, confirm and run the checks against them.

  python3 harness/seeded.py import <PROP> <srcdir> [round]   # <srcdir>/{a..h}.diff, _demo.py, _meta.json
  python3 harness/seeded.py run [<id> ...]           # confirm + run checks, update meta.json

Each change lives in /verif/seeded/<id>/ (patch.diff, demo.py, meta.json).  Nothing is
applied to /repo: a scratch copy of the repository is patched and the checks are pointed
at it with RXSCI_REPO; the copy is removed afterwards."""
import json
import os
import shutil
import subprocess
import sys
import tempfile
import time

VERIF = os.path.dirname(os.path.dirname(os.path.abspath(__file__)))
SEEDED = os.path.join(VERIF, 'seeded')
REPO = '/repo'
RELATED = {          # checks to try when the target property's own check misses the change
    'C01': ['C08', 'C02', 'C09', 'C10', 'C04', 'C05', 'C06'], 'C02': ['C04', 'C07', 'C05', 'C09', 'C10', 'C06', 'C08', 'C14', 'C01', 'C12'], 'C03': ['C05', 'C04', 'C06', 'C07', 'C08'],
    'C04': ['C03', 'C14'], 'C05': ['C03', 'C11'], 'C06': ['C03'], 'C07': ['C03'], 'C08': ['C02', 'C03', 'C01', 'C13'],
    'C09': ['C02', 'C10', 'C01', 'C12', 'C13'], 'C10': ['C02', 'C09', 'C01'], 'C11': ['C07', 'C08', 'C10', 'C05', 'C06'],
    'C12': ['C09', 'C13'], 'C13': ['C09', 'C03'], 'C14': ['C02', 'C04', 'C10'], 'C15': ['C19', 'C18', 'C17'], 'C16': ['C19', 'C18'],
    'C17': ['C19', 'C15'], 'C18': ['C15', 'C17', 'C19'], 'C19': ['C15', 'C16', 'C17', 'C18', 'C08', 'C01'], 'C20': ['C10', 'C03', 'C01'],
}


def do_import(prop, src, rnd=None):
    for v in 'abcdefghijklmnopqrstuv':
        if not os.path.exists(os.path.join(src, v + '.diff')):
            continue
        d = os.path.join(SEEDED, '%s-%s' % (prop, v))
        os.makedirs(d, exist_ok=True)
        shutil.copy(os.path.join(src, v + '.diff'), os.path.join(d, 'patch.diff'))
        shutil.copy(os.path.join(src, v + '_demo.py'), os.path.join(d, 'demo.py'))
        meta = json.load(open(os.path.join(src, v + '_meta.json')))
        meta['id'] = '%s-%s' % (prop, v)
        meta['breaks'] = prop
        if rnd:
            meta['round'] = int(rnd)
        json.dump(meta, open(os.path.join(d, 'meta.json'), 'w'), indent=1)
        print('imported', d)


def sh(cmd, cwd=None, env=None, timeout=3600):
    p = subprocess.run(cmd, cwd=cwd, env=env, stdout=subprocess.PIPE, stderr=subprocess.STDOUT,
                       text=True, timeout=timeout)
    return p.returncode, p.stdout


def run_check(chk, repo):
    env = dict(os.environ, RXSCI_REPO=repo, VERIF_EVIDENCE_DIR=os.path.join(os.path.dirname(repo), 'evidence'),
               VERIF_REPLAY_DIR=os.path.join(os.path.dirname(repo), 'replays'))
    t0 = time.time()
    rc, out = sh([os.path.join(VERIF, 'bin', 'check'), chk, 'quick'], cwd=VERIF, env=env)
    viol = [l for l in out.splitlines() if l.startswith('VIOLATION')]
    return {'exit': rc, 'violations': len(viol), 'first': viol[0] if viol else None,
            'wall_s': round(time.time() - t0, 1), 'tail': out[-400:] if rc == 2 else None}


def run_one(sid, with_tests=True):
    d = os.path.join(SEEDED, sid)
    meta = json.load(open(os.path.join(d, 'meta.json')))
    prop = meta['breaks']
    scratch = tempfile.mkdtemp(prefix='rxsci-verif.seed.')
    res = {'at': time.strftime('%Y-%m-%d %H:%M:%S'), 'repo_head': sh(['git', '-C', REPO, 'rev-parse', '--short', 'HEAD'])[1].strip()}
    try:
        clean = os.path.join(scratch, 'clean')
        mut = os.path.join(scratch, 'mut')
        for t in (clean, mut):
            shutil.copytree(REPO, t, ignore=shutil.ignore_patterns('.git', '__pycache__', '*.pyc'))
        rc, out = sh(['patch', '-p1', '-s', '-i', os.path.join(d, 'patch.diff')], cwd=mut)
        if rc != 0:
            res['status'] = 'patch-failed'
            res['detail'] = out[-300:]
            return res
        py = '/venv/bin/python'
        rc0, _ = sh([py, '-B', os.path.join(d, 'demo.py'), clean], cwd=scratch)
        rc1, o1 = sh([py, '-B', os.path.join(d, 'demo.py'), mut], cwd=scratch)
        res['demo_clean_exit'] = rc0
        res['demo_mutated_exit'] = rc1
        res['demo_output'] = o1[-500:]
        if with_tests:
            rct, ot = sh([py, '-m', 'pytest', '-q', '-p', 'no:cacheprovider', '-x', 'tests'], cwd=mut)
            res['tests'] = ot.strip().splitlines()[-1] if ot.strip() else ''
            res['tests_pass'] = rct == 0
        res['confirmed'] = rc0 == 0 and rc1 == 1 and res.get('tests_pass', True)
        checks = {}
        checks[prop] = run_check(prop, mut)
        detected = [prop] if checks[prop]['exit'] == 1 else []
        if not detected:
            for chk in RELATED.get(prop, []):
                checks[chk] = run_check(chk, mut)
                if checks[chk]['exit'] == 1:
                    detected.append(chk)
        res['checks'] = checks
        res['detected_by'] = detected
        res['status'] = 'detected' if prop in detected else ('detected-by-related' if detected else 'MISSED')
        return res
    finally:
        shutil.rmtree(scratch, ignore_errors=True)


def do_run(ids):
    ids = ids or sorted(os.listdir(SEEDED))
    import concurrent.futures as cf
    with cf.ThreadPoolExecutor(max_workers=int(os.environ.get('SEEDED_JOBS', '3'))) as ex:
        futs = [(sid, ex.submit(run_one, sid)) for sid in ids
                if os.path.exists(os.path.join(SEEDED, sid, 'meta.json'))]
        for sid, fu in futs:
            r = fu.result()
            mp = os.path.join(SEEDED, sid, 'meta.json')
            meta = json.load(open(mp))
            meta['verification'] = r
            json.dump(meta, open(mp, 'w'), indent=1)
            print('%-8s %-20s confirmed=%s detected_by=%s' % (sid, r.get('status'), r.get('confirmed'),
                                                             r.get('detected_by')), flush=True)


if __name__ == '__main__':
    if len(sys.argv) >= 4 and sys.argv[1] == 'import':
        do_import(sys.argv[2], sys.argv[3], sys.argv[4] if len(sys.argv) > 4 else None)
    elif len(sys.argv) >= 2 and sys.argv[1] == 'run':
        do_run(sys.argv[2:])
    else:
        print(__doc__)
