"""helper: python3 harness/mkmutant.py <ID> <name> <expect> <file> <what> [checks] < spec
stdin: old text, a line with only '====', new text.  Writes selftest/<ID>/<name>.diff and
adds it to selftest/<ID>/index.json."""
import difflib
import json
import os
import sys

VERIF = os.path.dirname(os.path.dirname(os.path.abspath(__file__)))


def add(prop, name, expect, relfile, what, old, new, checks=None, repo='/repo'):
    src = open(os.path.join(repo, relfile)).read()
    pairs = list(zip(old, new)) if isinstance(old, list) else [(old, new)]
    mut = src
    for o, n in pairs:
        if mut.count(o) < 1:
            raise SystemExit('old text not found in %s for %s: %r' % (relfile, name, o[:60]))
        mut = mut.replace(o, n)
    diff = ''.join(difflib.unified_diff(src.splitlines(True), mut.splitlines(True),
                                        'a/' + relfile, 'b/' + relfile))
    d = os.path.join(VERIF, 'selftest', prop)
    os.makedirs(d, exist_ok=True)
    with open(os.path.join(d, name + '.diff'), 'w') as f:
        f.write(diff)
    idx = os.path.join(d, 'index.json')
    entries = json.load(open(idx)) if os.path.exists(idx) else []
    entries = [e for e in entries if e['patch'] != name + '.diff']
    e = {'patch': name + '.diff', 'expect': expect, 'what': what}
    if checks:
        e['checks'] = checks
    entries.append(e)
    with open(idx, 'w') as f:
        json.dump(entries, f, indent=1)
