"""Behaviour-preserving refactorings written by independent sub-agents (they saw nothing
of /verif): none of the checks may raise an alarm on them.

  python3 harness/benign.py import <srcdir> <group>    # <srcdir>/r<i>.diff + r<i>.json
  python3 harness/benign.py run [<id> ...]

For a refactoring touching files F the quick checks of every property whose anchors name a
file of F are run against a patched scratch copy (RXSCI_REPO); all must exit 0."""
import json
import os
import re
import shutil
import subprocess
import sys
import tempfile
import time

VERIF = os.path.dirname(os.path.dirname(os.path.abspath(__file__)))
BENIGN = os.path.join(VERIF, 'benign')
REPO = '/repo'


# checks that exercise a file although no property anchors it
ALSO = {
    'rxsci/operators/first.py': ['C10', 'C02', 'C01'], 'rxsci/operators/last.py': ['C10', 'C02', 'C01'],
    'rxsci/operators/take.py': ['C10', 'C02', 'C01'], 'rxsci/operators/distinct.py': ['C10', 'C02'],
    'rxsci/operators/distinct_until_changed.py': ['C10', 'C09', 'C01'], 'rxsci/data/lag.py': ['C10', 'C02'],
    'rxsci/data/pad.py': ['C10', 'C02'], 'rxsci/operators/scan.py': ['C09', 'C02', 'C01'],
    'rxsci/operators/map.py': ['C13', 'C01', 'C11'], 'rxsci/operators/filter.py': ['C13', 'C01'],
    'rxsci/operators/starmap.py': ['C13', 'C01'], 'rxsci/error/router.py': ['C13'], 'rxsci/error/map.py': ['C13'],
    'rxsci/error/ignore.py': ['C13'], 'rxsci/operators/multiplex.py': ['C03', 'C13', 'C04', 'C05'],
    'rxsci/state/with_store.py': ['C03', 'C02', 'C14'], 'rxsci/state/store.py': ['C14', 'C02'],
    'rxsci/state/memory_store.py': ['C14', 'C02', 'C04'], 'rxsci/operators/tee_map.py': ['C08', 'C01', 'C13'],
    'rxsci/data/batch.py': ['C10', 'C20'], 'rxsci/io/file.py': ['C18', 'C19'],
    'rxsci/operators/count.py': ['C09', 'C01'], 'rxsci/operators/do_action.py': ['C01', 'C11', 'C05'],
    'rxsci/data/roll.py': ['C13'], 'rxsci/data/split.py': ['C13'], 'rxsci/data/time_split.py': ['C13'],
    'rxsci/operators/group_by.py': ['C13'], 'rxsci/container/parquet.py': ['C01'],
    'rxsci/framing/line.py': ['C11'], 'rxsci/framing/length_prefix.py': ['C11'],
    'rxsci/data/to_deque.py': ['C10'], 'rxsci/data/sort.py': ['C10'], 'rxsci/mux/muxconnectable.py': ['C08'],
}


def props_for(files):
    out = []
    for l in open(os.path.join(VERIF, 'properties.jsonl')):
        p = json.loads(l)
        if any(f in p['anchors']['files'] for f in files):
            out.append(p['id'])
    for f in files:
        for c in ALSO.get(f, []):
            if c not in out:
                out.append(c)
    return sorted(out)


def do_import(src, group):
    for fn in sorted(os.listdir(src)):
        m = re.match(r'r(\d+)\.diff$', fn)
        if not m:
            continue
        bid = '%s%s' % (group, m.group(1))
        d = os.path.join(BENIGN, bid)
        os.makedirs(d, exist_ok=True)
        shutil.copy(os.path.join(src, fn), os.path.join(d, 'patch.diff'))
        meta = json.load(open(os.path.join(src, 'r%s.json' % m.group(1))))
        meta['id'] = bid
        diff = open(os.path.join(d, 'patch.diff')).read()
        meta['files'] = sorted(set(re.findall(r'^\+\+\+ b/(\S+)', diff, re.M)))
        json.dump(meta, open(os.path.join(d, 'meta.json'), 'w'), indent=1)
        print('imported', bid, meta['files'])


def run_one(bid):
    d = os.path.join(BENIGN, bid)
    meta = json.load(open(os.path.join(d, 'meta.json')))
    scratch = tempfile.mkdtemp(prefix='rxsci-verif.benign.')
    res = {'at': time.strftime('%Y-%m-%d %H:%M:%S')}
    try:
        mut = os.path.join(scratch, 'mut')
        shutil.copytree(REPO, mut, ignore=shutil.ignore_patterns('.git', '__pycache__', '*.pyc'))
        p = subprocess.run(['patch', '-p1', '-s', '-i', os.path.join(d, 'patch.diff')], cwd=mut,
                           stdout=subprocess.PIPE, stderr=subprocess.STDOUT, text=True)
        if p.returncode != 0:
            res['status'] = 'patch-failed'
            return res
        t = subprocess.run(['/venv/bin/python', '-m', 'pytest', '-q', '-p', 'no:cacheprovider', '-x', 'tests'],
                           cwd=mut, stdout=subprocess.PIPE, stderr=subprocess.STDOUT, text=True)
        res['tests_pass'] = t.returncode == 0
        checks = {}
        env = dict(os.environ, RXSCI_REPO=mut, VERIF_EVIDENCE_DIR=os.path.join(scratch, 'ev'),
                   VERIF_REPLAY_DIR=os.path.join(scratch, 'rp'))
        for chk in props_for(meta['files']):
            q = subprocess.run([os.path.join(VERIF, 'bin', 'check'), chk, 'quick'], cwd=VERIF, env=env,
                               stdout=subprocess.PIPE, stderr=subprocess.STDOUT, text=True)
            viol = [l for l in q.stdout.splitlines() if l.startswith('VIOLATION')]
            notes = [l for l in q.stdout.splitlines() if l.startswith('NOTE')]
            checks[chk] = {'exit': q.returncode, 'first_violation': viol[0] if viol else None,
                           'notes': notes[:3], 'tail': q.stdout[-300:] if q.returncode == 2 else None}
            if viol:
                rp = viol[0].split('replay=')[1].split()[0]
                try:
                    checks[chk]['witness'] = json.load(open(rp))
                except Exception:
                    pass
        res['checks'] = checks
        alarms = [c for c, r in checks.items() if r['exit'] == 1]
        broken = [c for c, r in checks.items() if r['exit'] == 2]
        res['status'] = 'FALSE-ALARM' if alarms else ('MACHINERY' if broken else 'quiet')
        res['alarms'] = alarms
        return res
    finally:
        shutil.rmtree(scratch, ignore_errors=True)


def do_run(ids):
    ids = ids or sorted(os.listdir(BENIGN))
    import concurrent.futures as cf
    with cf.ThreadPoolExecutor(max_workers=int(os.environ.get('BENIGN_JOBS', '3'))) as ex:
        futs = [(b, ex.submit(run_one, b)) for b in ids if os.path.exists(os.path.join(BENIGN, b, 'meta.json'))]
        for b, fu in futs:
            r = fu.result()
            mp = os.path.join(BENIGN, b, 'meta.json')
            meta = json.load(open(mp))
            w = {c: v.pop('witness', None) for c, v in r.get('checks', {}).items()}
            meta['verification'] = r
            json.dump(meta, open(mp, 'w'), indent=1)
            print('%-5s %-12s tests=%s checks=%s alarms=%s' % (b, r.get('status'), r.get('tests_pass'),
                                                              sorted(r.get('checks', {})), r.get('alarms')), flush=True)
            for c, ww in w.items():
                if ww:
                    print('     witness', c, json.dumps(ww)[:600])


if __name__ == '__main__':
    if len(sys.argv) >= 4 and sys.argv[1] == 'import':
        do_import(sys.argv[2], sys.argv[3])
    elif len(sys.argv) >= 2 and sys.argv[1] == 'run':
        do_run(sys.argv[2:])
    else:
        print(__doc__)
