"""bin/check-extras: operators outside the listed properties (spec/Extras.tla).
TLC checks the statements on the model exhaustively, prints every behaviour of the bounded
space, and each behaviour is replayed on the real operator: the real outputs must equal
the model's.  Exit 0 / 1 like the checks; not registered in MANIFEST.json (no property)."""
import os
import sys

sys.path.insert(0, os.path.dirname(os.path.dirname(os.path.abspath(__file__))))
from harness import common as C  # noqa: E402


def run_wlf(hist, nchildren):
    import rxsci as rs
    from rx.subject import Subject
    parent = Subject()
    children = [Subject() for _ in range(nchildren)]
    out = []
    parent.pipe(rs.ops.with_latest_from(*children)).subscribe(on_next=lambda t: out.append(list(t)))
    for (k, i, v) in hist:
        if k == 'c':
            children[i - 1].on_next(v)
        else:
            parent.on_next(v)
    return out


def run_tts(hist, modulus, sampling):
    import rxsci as rs
    from rx.subject import Subject
    src = Subject()
    ratio = 0.0 if modulus == 0 else 1.0 / modulus
    if modulus == 0:
        return None
    train, test = rs.data.train_test_split(ratio, sampling_size=sampling)(src)
    a, b = [], []
    train.subscribe(on_next=a.append)
    test.subscribe(on_next=b.append)
    for (_, _, v) in hist:
        src.on_next(v)
    return [a, b]


def main():
    C.use_repo()
    bad = 0
    total = 0
    jobs = [('wlf', dict(Which='wlf', NChildren=2, Vals={1, 2}, Modulus=0, Sampling=1, MaxEvents=5), ['WlfStatement']),
            ('wlf', dict(Which='wlf', NChildren=1, Vals={1, 2, 3}, Modulus=0, Sampling=1, MaxEvents=5), ['WlfStatement'])]
    for m in (2, 3, 4):
        for s in (1, 2, 3):
            jobs.append(('tts', dict(Which='tts', NChildren=1, Vals={1, 2}, Modulus=m, Sampling=s, MaxEvents=7),
                         ['TtsStatement']))
    rs_ = C.par([lambda c=c, inv=inv: C.run_tlc('Extras', C.cfg(constants=c, invariants=inv + ['EmitBehaviour']),
                                                 workers=2) for (_, c, inv) in jobs])
    for (which, c, inv), r in zip(jobs, rs_):
        if r.violated:
            print('Extras model violates %s for %s' % (r.violated, c))
            return 2
        behs = C.extract_printed(r.stdout, 'BEH')
        for (_, w, hist, out) in behs:
            total += 1
            if w == 'wlf':
                real = run_wlf(hist, c['NChildren'])
            else:
                real = run_tts(hist, c['Modulus'], c['Sampling'])
            if real is not None and real != out:
                bad += 1
                if bad <= 5:
                    print('EXTRA-MISMATCH %s %s hist=%s model=%s real=%s' % (w, c, hist, out, real))
        print('%s %s: %d states, %d behaviours replayed' % (which, {k: c[k] for k in ('NChildren', 'Modulus', 'Sampling')},
                                                           r.distinct, len(behs)))
    print('extras: %d behaviours replayed on the real operators, %d mismatches' % (total, bad))
    return 1 if bad else 0


if __name__ == '__main__':
    sys.exit(main())
