"""bin/check-extras: operators outside the listed properties (spec/Extras.tla).
TLC checks the statements on the model exhaustively, prints every behaviour of the bounded
space, and each behaviour is replayed on the real operator: the real outputs must equal
the model's.  Exit 0 / 1 like the checks; not registered in MANIFEST.json (no property)."""
import os
import sys

sys.path.insert(0, os.path.dirname(os.path.dirname(os.path.abspath(__file__))))
from harness import common as C  # noqa: E402


def run_wlf(hist, nchildren):
    import rxsci as rs
    from rx.subject import Subject
    parent = Subject()
    children = [Subject() for _ in range(nchildren)]
    out = []
    parent.pipe(rs.ops.with_latest_from(*children)).subscribe(on_next=lambda t: out.append(list(t)))
    for (k, i, v) in hist:
        if k == 'c':
            children[i - 1].on_next(v)
        else:
            parent.on_next(v)
    return out


def run_tts(hist, modulus, sampling):
    import rxsci as rs
    from rx.subject import Subject
    src = Subject()
    ratio = 0.0 if modulus == 0 else 1.0 / modulus
    if modulus == 0:
        return None
    train, test = rs.data.train_test_split(ratio, sampling_size=sampling)(src)
    a, b = [], []
    train.subscribe(on_next=a.append)
    test.subscribe(on_next=b.append)
    for (_, _, v) in hist:
        src.on_next(v)
    return [a, b]


class _Boom(Exception):
    pass


class _ManualScheduler:
    """schedule() only stores the action: the subscription is returned to the subscriber
    before the first item is produced (as under a running trampoline or an event loop)"""

    def __init__(self):
        self.actions = []

    def schedule(self, action, state=None):
        from rx.disposable import Disposable
        self.actions.append((action, state))
        return Disposable()

    def run(self):
        for action, state in self.actions:
            action(self, state)


_RUN = [0]


def run_source(which, src, dispose_at, extend, str_items):
    """replay one behaviour of spec/Sources.tla on the real operator;
    returns (out, ids, acted) in the model's encoding"""
    import rx
    import rxsci as rs
    from rx.subject import Subject
    _RUN[0] += 1
    out, ids, acted = [], [], [0]

    def gen():
        for e in src:
            if e[0] == 'x':
                raise _Boom(e[1])
            yield e[1]

    if which == 'iter':
        sched = _ManualScheduler()
        sub = []
        count = [0]

        def on_next(v):
            out.append(['n', v])
            count[0] += 1
            if count[0] == dispose_at:
                sub[0].dispose()
        sub.append(rs.ops.from_iterable(gen(), scheduler=sched).subscribe(
            on_next=on_next, on_error=lambda e: out.append(['e', e.args[0]]),
            on_completed=lambda: out.append(['c'])))
        sched.run()
        return out, ids, 0
    if which == 'deque':
        subj = Subject()
        with C.quiet_stdout():
            subj.pipe(rs.data.to_deque(extend=extend)).subscribe(
                on_next=lambda v: out.append(['n', v]), on_error=lambda e: out.append(['e', e.args[0]]),
                on_completed=lambda: out.append(['c']))
            for e in src:
                if e[0] == 'x':
                    subj.on_error(_Boom(e[1]))
                    break
                subj.on_next(list(e[1]) if extend else e[1])
            else:
                subj.on_completed()
        return out, ids, 0
    if which == 'cache':
        # equal but distinct objects: tuples (or strings) built at run time
        def obj(v):
            if v == 0:
                return None
            return ('verif-item-%d-%d' % (_RUN[0], v)) if str_items else (v, 'x' * v)
        objs = [obj(e[1]) for e in src]
        subj = Subject()
        emitted = []
        subj.pipe(rs.data.cache()).subscribe(on_next=emitted.append, on_error=lambda e: out.append(['e', 1]),
                                             on_completed=lambda: out.append(['c']))
        val = lambda o: 0 if o is None else (int(o.rsplit('-', 1)[1]) if str_items else o[0])
        try:
            for o in objs:
                subj.on_next(o)
            subj.on_completed()
        except TypeError:
            pass
        res = [['n', val(o)] for o in emitted]
        if len(out) == 0 or out[-1] != ['c']:
            res.append(['e', 1])          # the exception escaped on_next: the stream is dead
        else:
            res.append(['c'])
        for o in emitted:
            ids.append(0 if o is None else next((j + 1 for j, s_ in enumerate(objs) if s_ is o), -1))
        return res, ids, 0
    if which == 'pandas':
        import pandas as pd
        rows = [tuple(e[1]) for e in src]
        df = pd.DataFrame(rows, columns=['a', 'b']) if rows else pd.DataFrame({'a': [], 'b': []})
        seen = []
        rs.ops.from_pandas(df).pipe(rs.ops.to_pandas()).subscribe(
            on_next=seen.append, on_error=lambda e: out.append(['e', 1]), on_completed=lambda: out.append(['c']))
        res = [['n', [list(map(int, r)) for r in f.itertuples(index=False)]] for f in seen] + out
        if any(list(f.columns) != ['a', 'b'] for f in seen):
            res.append(['columns-differ'])
        return res, ids, 0
    if which == 'run':
        try:
            r = rs.run(rs.ops.from_iterable(gen()))
            return ['r', 0 if r is None else r], ids, 0
        except _Boom as e:
            return ['e', e.args[0]], ids, 0
    if which == 'onsub':
        items = [e[1] for e in src]

        def action():
            acted[0] += 1
            out.append(['acted-after', len(out)])
        rx.from_(items).pipe(rs.ops.on_subscribe(action)).subscribe(
            on_next=lambda v: out.append(['n', v]), on_completed=lambda: out.append(['c']))
        marks = [o for o in out if o[0] == 'acted-after']
        plain = [o for o in out if o[0] != 'acted-after']
        if any(m[1] != 0 for m in marks):
            plain.append(['action-after-delivery'])
        return plain, ids, acted[0]
    raise C.MachineryError(which)


TREES = {1: {'': (['f1', 'f2'], [])},
         2: {'': (['f1'], ['a']), 'a': (['f2', 'f3'], [])},
         3: {'': ([], ['a']), 'a': (['f1'], ['b']), 'a/b': (['f2'], [])},
         4: {'': (['f1'], ['a', 'b']), 'a': (['f2'], []), 'b': (['f3', 'f4'], [])},
         5: {'': ([], [])},
         6: {'': (['f1'], ['a', 'b']), 'a': ([], ['c']), 'a/c': (['f2'], []), 'b': (['f3'], [])}}


def run_walk(tree_id):
    """the real rs.io.walk on the directory tree TreeId of spec/Sources.tla"""
    import rxsci as rs
    out = []
    with C.scratch('rxsci-verif.walk.') as top:
        for d, (files, dirs) in TREES[tree_id].items():
            os.makedirs(os.path.join(top, d), exist_ok=True)
            for f in files:
                open(os.path.join(top, d, f), 'w').close()
        rs.io.walk(top).subscribe(on_next=lambda p: out.append(['n', os.path.relpath(p, top).split(os.sep)]),
                                  on_error=lambda e: out.append(['e', 1]), on_completed=lambda: out.append(['c']))
    return out


def walk_phase():
    """every order the model allows is printed by TLC; the real walk must be one of them"""
    bad = total = 0
    for tid in sorted(TREES):
        c = dict(Which='walk', Vals={1}, MaxLen=0, Extend=False, StrItems=False, TreeId=tid)
        r = C.run_tlc('Sources', C.cfg(constants=c, invariants=['WalkStatement', 'EmitBehaviour']), workers=1)
        if r.violated:
            print('Sources model violates %s for %s' % (r.violated, c))
            return None, None
        allowed = [[list(e) if len(e) == 1 else [e[0], list(e[1])] for e in b[4]] for b in C.extract_printed(r.stdout, 'BEH')]
        real = run_walk(tid)
        total += 1
        if real not in allowed:
            bad += 1
            print('EXTRA-MISMATCH walk tree=%d real=%s not among the %d orders of the model' % (tid, real, len(allowed)))
        print('walk tree %d: %d states, %d allowed orders, real order is %s' % (
            tid, r.distinct, len(allowed), 'allowed' if real in allowed else 'NOT allowed'))
    return total, bad


def sources_phase():
    """spec/Sources.tla: TLC checks the statements and prints every behaviour; each is replayed"""
    jobs = []
    for which, inv in (('iter', 'IterStatement'), ('deque', 'DequeStatement'), ('cache', 'CacheStatement'),
                       ('run', 'RunStatement'), ('onsub', 'OnSubStatement'), ('pandas', 'PandasStatement')):
        variants = [dict(Extend=False, StrItems=False)]
        if which == 'deque':
            variants.append(dict(Extend=True, StrItems=False))
        if which == 'cache':
            variants.append(dict(Extend=False, StrItems=True))
        for v in variants:
            c = dict(Which=which, Vals={1, 2}, MaxLen=3 if v['Extend'] or which == 'pandas' else 4, TreeId=1, **v)
            jobs.append((which, c, inv))
    rs_ = C.par([lambda c=c, inv=inv: C.run_tlc('Sources', C.cfg(constants=c, invariants=[inv, 'EmitBehaviour']),
                                                 workers=2) for (_, c, inv) in jobs])
    bad = total = 0
    for (which, c, inv), r in zip(jobs, rs_):
        if r.violated:
            print('Sources model violates %s for %s' % (r.violated, c))
            return None, None
        behs = C.extract_printed(r.stdout, 'BEH')
        for (_, w, src, dispose_at, mout, mids, macted) in behs:
            total += 1
            real = run_source(w, [list(e) for e in src], dispose_at, c['Extend'], c['StrItems'])
            norm = lambda x: [list(e) if isinstance(e, (list, tuple)) else e for e in x]
            model = (norm(mout), list(mids), macted)
            got = (norm(real[0]), list(real[1]), real[2])
            if w != 'cache':
                model, got = (model[0], model[2]), (got[0], got[2])
            elif c['StrItems']:
                # interned strings: equal values are one object (which one is python's choice)
                same = lambda ids_: [[a == b for b in ids_] for a in ids_]
                model, got = (model[0], same(model[1])), (got[0], same(got[1]))
            if model != got:
                bad += 1
                if bad <= 5:
                    print('EXTRA-MISMATCH %s %s src=%s dispose_at=%s model=%s real=%s' % (w, c, src, dispose_at, model, got))
        print('%s %s: %d states, %d behaviours replayed' % (which, {k: c[k] for k in ('Extend', 'StrItems', 'MaxLen')},
                                                           r.distinct, len(behs)))
    return total, bad


def run_fileio(which, beh, tmpdir):
    """replay one behaviour of spec/FileIO.tla on rxsci.io.file; returns the model's tuple"""
    import io
    import rxsci as rs
    from rx.subject import Subject
    import rxsci.io.file as F
    path = os.path.join(tmpdir, 'f.bin')
    if which == 'read':
        _, _, content, size, dispose_at, _ = beh
        with open(path, 'wb') as f:
            f.write(bytes(content))
        out, sub, count = [], [], [0]
        sched = _ManualScheduler()

        def on_next(v):
            out.append(['n', list(v)])
            count[0] += 1
            if count[0] == dispose_at:
                sub[0].dispose()
        sub.append(F.read(path, mode='rb', size=size or None).subscribe(
            on_next=on_next, on_error=lambda e: out.append(['e', 1]), on_completed=lambda: out.append(['c']),
            scheduler=sched))
        sched.run()
        return out
    _, _, items, size, err_at, target, _, _, _, _ = beh
    if os.path.exists(path):
        os.remove(path)
    opened, out, state = [], [], {'closed': False, 'raised': False}
    sink = None

    def my_open(file, mode, encoding=None):
        f = open(file, mode)
        opened.append(f)
        return f
    cwd = None
    if target == 'path':
        tgt = path
    elif target == 'bare':
        cwd = os.getcwd()
        os.chdir(tmpdir)
        tgt = os.path.basename(path)
    elif target == 'object':
        tgt = sink = io.BytesIO()
    else:
        tgt = os.path.join(tmpdir, 'no-such-dir', 'f.bin')

    def ended(note):
        out.append(note)
        state['closed'] = opened[0].closed if opened else (sink.closed if sink is not None else False)
    subj = Subject()
    subj.pipe(F.write(tgt, open_obj=my_open)).subscribe(
        on_next=lambda v: out.append(['n', 0]),
        on_error=lambda e: ended(['e', 2 if isinstance(e, OSError) else e.args[0]]),
        on_completed=lambda: ended(['c']))
    try:
        for j, it in enumerate(items):
            if err_at == j:
                break
            subj.on_next(bytes(it))
        if err_at == -1:
            subj.on_completed()
        else:
            subj.on_error(_Boom(7))
    except AttributeError:
        state['raised'] = True
    finally:
        if cwd is not None:
            os.chdir(cwd)
    if target in ('path', 'bare'):
        written = list(open(path, 'rb').read())
    elif target == 'object':
        written = list(sink.getvalue())
    else:
        written = []
    if which == 'round':
        out2 = []
        F.read(path, mode='rb', size=size or None).subscribe(
            on_next=lambda v: out2.append(['n', list(v)]), on_error=lambda e: out2.append(['e', 1]),
            on_completed=lambda: out2.append(['c']))
        return out2, written
    return out, written, state['closed'], state['raised']


def fileio_phase():
    """spec/FileIO.tla: read / write / write-then-read of rxsci.io.file"""
    jobs = []
    for which, inv in (('read', ['ReadStatement', 'ReadPrefix']), ('write', ['WriteStatement']),
                       ('round', ['RoundStatement'])):
        c = dict(Which=which, Bytes={1, 2}, MaxLen=4 if which == 'read' else 2, MaxItems=3,
                 Sizes={0, 1, 2, 3, 5})
        jobs.append((which, c, inv))
    rs_ = C.par([lambda c=c, inv=inv: C.run_tlc('FileIO', C.cfg(constants=c, invariants=inv + ['EmitBehaviour']),
                                                 workers=2) for (_, c, inv) in jobs])
    bad = total = 0
    norm = lambda x: [[e[0], list(e[1])] if len(e) > 1 and isinstance(e[1], (list, tuple)) else list(e) for e in x]
    with C.scratch('rxsci-verif.fio.') as d:
        for (which, c, inv), r in zip(jobs, rs_):
            if r.violated:
                print('FileIO model violates %s for %s' % (r.violated, c))
                return None, None
            behs = C.extract_printed(r.stdout, 'BEH')
            for b in behs:
                total += 1
                if which == 'read':
                    model = norm(b[5])
                    real = run_fileio(which, b, d)
                elif which == 'write':
                    model = (norm(b[6]), list(b[7]), b[8], b[9])
                    real = run_fileio(which, b, d)
                else:
                    model = (norm(b[6]), list(b[7]))
                    real = run_fileio(which, b, d)
                if model != real:
                    bad += 1
                    if bad <= 5:
                        print('EXTRA-MISMATCH fileio %s beh=%s model=%s real=%s' % (which, b[2:6], model, real))
            print('fileio %s: %d states, %d behaviours replayed' % (which, r.distinct, len(behs)))
    return total, bad


def run_sections(nops, hist):
    """replay one behaviour of spec/Sections.tla: independent with_memory_store sections, each
    subscribed / fed / disposed / subscribed again as the history says"""
    import rx
    import rxsci as rs
    from rx.subject import Subject
    subj = [Subject() for _ in nops]
    obs = [subj[j].pipe(rs.state.with_memory_store(pipeline=rx.pipe(
        *[rs.ops.scan(lambda acc, i: acc + 1, seed=0) for _ in range(k)]))) for j, k in enumerate(nops)]
    outs = [[] for _ in nops]
    disp = [None for _ in nops]
    try:
        for (what, s) in hist:
            j = s - 1
            if what == 'sub':
                disp[j] = obs[j].subscribe(on_next=outs[j].append, on_error=lambda e, j=j: outs[j].append('error'))
            elif what == 'item':
                subj[j].on_next(0)
            else:
                disp[j].dispose()
    except Exception as e:
        return 'raised:' + type(e).__name__
    return outs


def sections_phase():
    """spec/Sections.tla: several store sections, re-subscription; the two deviations must be refuted"""
    table = [[1, 1], [1, 2], [2, 1], [2, 1, 1]]
    jobs = []
    for cid in (1, 2, 3, 4):
        jobs.append((cid, 'none', 6 if cid == 4 else 7))
    for dev in ('shared-manager', 'topology-per-application'):
        jobs.append((2, dev, 6))
    rs_ = C.par([lambda cid=cid, dev=dev, n=n: C.run_tlc(
        'Sections', C.cfg(constants=dict(CfgId=cid, Deviation=dev, MaxSteps=n),
                          invariants=['NoIndexError', 'Independent'] + (['EmitBehaviour'] if dev == 'none' else [])),
        workers=2) for (cid, dev, n) in jobs])
    bad = total = 0
    for (cid, dev, n), r in zip(jobs, rs_):
        if dev != 'none':
            if not r.violated:
                print('Sections: deviation %s is not refuted' % dev)
                return None, None
            print('sections: deviation %s refuted (%s)' % (dev, r.violated))
            continue
        if r.violated:
            print('Sections model violates %s for cfg %d' % (r.violated, cid))
            return None, None
        behs = C.extract_printed(r.stdout, 'BEH')
        for (_, hist, mout) in behs:
            total += 1
            real = run_sections(table[cid - 1], [(h[0], h[1]) for h in hist])
            model = [list(o) for o in mout]
            if real != model:
                bad += 1
                if bad <= 5:
                    print('EXTRA-MISMATCH sections cfg=%d hist=%s model=%s real=%s' % (cid, hist, model, real))
        print('sections cfg %d %s: %d states, %d behaviours replayed' % (cid, table[cid - 1], r.distinct, len(behs)))
    return total, bad


def run_router(nroutes, hist):
    """replay one behaviour of spec/Router.tla on rs.error.create_error_router()"""
    import rxsci as rs
    from rx.subject import Subject
    errors, route = rs.error.create_error_router()
    dl, raised = [], [0]
    attached = [None]
    subj = [Subject() for _ in range(nroutes)]
    down = [[] for _ in range(nroutes)]

    def sink(j):
        def on_next(i):
            if type(i) is rs.OnErrorMux:
                down[j].append(['e', i.error.args[0]])
            else:
                down[j].append(['n', 0])
        return on_next
    rdisp = []
    for j in range(nroutes):
        rdisp.append(subj[j].pipe(rs.cast_as_mux_observable(), route()).subscribe(
            on_next=sink(j), on_error=lambda e, j=j: down[j].append(['x', e.args[0]]),
            on_completed=lambda j=j: down[j].append(['c'])))
    nerr = 0
    for h in hist:
        what = h[0]
        if what == 'dlsub':
            try:
                refused = []
                d = errors.subscribe(on_next=lambda e: dl.append(['n', e.args[0]]),
                                     on_error=lambda e: (dl.append(['x', 0]), refused.append(1)),
                                     on_completed=lambda: dl.append(['c']))
                if not refused:
                    attached[0] = d
            except AssertionError:
                raised[0] += 1
        elif what == 'dldispose':
            attached[0].dispose()
        else:
            j = h[1] - 1
            if what == 'item':
                subj[j].on_next(rs.OnNextMux((0,), 0))
            elif what == 'error':
                nerr += 1
                subj[j].on_next(rs.OnErrorMux((0,), _Boom(nerr)))
            elif what == 'complete':
                subj[j].on_completed()
            elif what == 'routedispose':
                rdisp[j].dispose()
            else:
                subj[j].on_error(_Boom(99))
    return dl, down, raised[0]


def router_phase():
    """spec/Router.tla: the dead-letter subscription of a router shared by two routes"""
    bad = total = 0
    for (n, steps) in ((2, 5), (1, 6)):
        r = C.run_tlc('Router', C.cfg(constants=dict(NRoutes=n, MaxSteps=steps),
                                      invariants=['ExactlyOnce', 'DeadLetterProtocol', 'EmitBehaviour']), workers=4)
        if r.violated:
            print('Router model violates %s' % r.violated)
            return None, None
        behs = C.extract_printed(r.stdout, 'BEH')
        norm = lambda x: [list(e) for e in x]
        for (_, hist, mdl, mdown, mraised) in behs:
            total += 1
            real = run_router(n, [list(h) for h in hist])
            model = (norm(mdl), [norm(d) for d in mdown], mraised)
            if (real[0], real[1], real[2]) != model:
                bad += 1
                if bad <= 5:
                    print('EXTRA-MISMATCH router hist=%s model=%s real=%s' % (hist, model, real))
        print('router %d route(s), %d steps: %d states, %d behaviours replayed' % (n, steps, r.distinct, len(behs)))
    return total, bad


def run_topology(order, ops):
    """replay one subscription order of spec/Topology.tla on the real with_store: every
    operator of the model is a harness operator that answers the topology probe with
    create_state(<its name>) and records the id it was given"""
    import rx
    import rxsci as rs
    from rx.subject import Subject
    n = len(ops)
    got = [[None] * len(ops[s]) for s in range(n)]

    def probe_op(s, q, name):
        def _op(source):
            def on_subscribe(observer, scheduler):
                def on_next(i):
                    if type(i) is rs.state.ProbeStateTopology:
                        got[s][q] = i.topology.create_state(name=name, data_type='obj')
                    observer.on_next(i)
                return source.subscribe(on_next=on_next, on_error=observer.on_error,
                                        on_completed=observer.on_completed, scheduler=scheduler)
            return rs.MuxObservable(on_subscribe)
        return _op
    store = rs.state.StoreManager(store_factory=rs.state.MemoryStore)
    subjects = [Subject() for _ in range(n)]
    pipes = [[probe_op(s, q, name) for q, name in enumerate(ops[s])] for s in range(n)]
    if n == 1:
        obs = [subjects[0].pipe(rs.cast_as_mux_observable(), rs.state.with_store(store, rx.pipe(*pipes[0])))]
    else:
        muxed = rs.state.with_store(store, sources=[sj.pipe(rs.cast_as_mux_observable()) for sj in subjects])
        obs = [muxed[s].pipe(*pipes[s]) if pipes[s] else muxed[s] for s in range(n)]
    for s in order:
        obs[s - 1].subscribe(on_next=lambda i: None, on_error=lambda e: None)
    names = [st.name for st in store.topology.states] if store.topology is not None else None
    return got, names


def topology_phase():
    """spec/Topology.tla: unique, dense state ids for every subscription order; the deviation
    (a topology per source) must be refuted; every order is replayed on the real code"""
    total = bad = 0
    for cid in range(1, 7):
        c = dict(CfgId=cid, Deviation='none')
        r = C.run_tlc('Topology', C.cfg(constants=c, invariants=['UniqueIds', 'DenseIds', 'NamesUnique',
                                                                 'StoreComplete', 'EmitBehaviour']), workers=1)
        if r.violated:
            print('Topology model violates %s for configuration %d' % (r.violated, cid))
            return None, None
        behs = C.extract_printed(r.stdout, 'BEH')
        ops = [list(o) for o in behs[0][1]]
        if len(ops) > 1 and sum(1 for o in ops if o) > 1:
            d = C.run_tlc('Topology', C.cfg(constants=dict(c, Deviation='per-source-topology'),
                                            invariants=['UniqueIds']), workers=1)
            if d.violated != 'UniqueIds':
                print('Topology: the deviation per-source-topology is not refuted for %s' % (ops,))
                return None, None
        for (_, _ops, order, mids, mtopo) in behs:
            total += 1
            got, names = run_topology(list(order), ops)
            want_ids = [list(x) for x in mids]
            want_names = ['%s-%d' % (nm, k) for (nm, k) in mtopo]
            if got != want_ids or names != want_names:
                bad += 1
                print('EXTRA-MISMATCH topology ops=%s order=%s model=%s %s real=%s %s' % (
                    ops, list(order), want_ids, want_names, got, names))
        print('topology %s: %d states, %d subscription orders replayed' % (ops, r.distinct, len(behs)))
    return total, bad


def run_reentrant(op, items, fb):
    """replay one behaviour of spec/Reentrancy.tla: the subscriber pushes the next item from
    inside its on_next exactly where the model's subscriber did"""
    import rxsci as rs
    from rx.subject import Subject
    real = {'first': lambda: rs.ops.first(), 'take2': lambda: rs.ops.take(2),
            'count': lambda: rs.ops.count(), 'scan': lambda: rs.ops.scan(lambda a, i: a + i, seed=0),
            'lag1': lambda: rs.data.lag(1), 'lag2': lambda: rs.data.lag(2),
            'duc': lambda: rs.ops.distinct_until_changed()}[op]()
    src = Subject()
    out = []
    pos = [0]
    k = [0]

    def push():
        x = items[pos[0]]
        pos[0] += 1
        src.on_next(x)

    def on_next(v):
        out.append(list(v) if isinstance(v, tuple) else v)
        j = k[0]
        k[0] += 1
        if j < len(fb) and fb[j] and pos[0] < len(items):
            push()
    src.pipe(rs.state.with_memory_store([real])).subscribe(on_next=on_next, on_error=lambda e: out.append('error'))
    while pos[0] < len(items):
        push()
    return out


def reentrancy_phase():
    """spec/Reentrancy.tla: store-first is sequential for every pattern of nested pushes,
    emit-first is refuted; every behaviour is replayed on the real operators"""
    total = bad = 0
    for op in ('first', 'take2', 'count', 'scan', 'lag1', 'lag2', 'duc'):
        c = dict(Op=op, Vals={1, 2}, MaxLen=4, Order='store-first')
        r = C.run_tlc('Reentrancy', C.cfg(constants=c, invariants=['Sequential', 'EmitBehaviour']), workers=2)
        if r.violated:
            print('Reentrancy model violates %s for %s' % (r.violated, op))
            return None, None
        d = C.run_tlc('Reentrancy', C.cfg(constants=dict(c, Order='emit-first'), invariants=['Sequential']), workers=2)
        if d.violated != 'Sequential':
            print('Reentrancy: emit-first is not refuted for %s' % op)
            return None, None
        behs = C.extract_printed(r.stdout, 'BEH')
        for (_, _op, items, fb, mout) in behs:
            total += 1
            real = run_reentrant(op, list(items), list(fb))
            want = [list(o) if isinstance(o, (list, tuple)) else o for o in mout]
            if real != want:
                bad += 1
                if bad <= 5:
                    print('EXTRA-MISMATCH reentrancy %s items=%s pushes=%s model=%s real=%s' % (op, list(items), list(fb), want, real))
        print('reentrancy %s: %d states, %d behaviours replayed (emit-first refuted in %d states)' % (
            op, r.distinct, len(behs), d.distinct))
    return total, bad


def main():
    C.use_repo()
    bad = 0
    total = 0
    t5, b5 = reentrancy_phase()
    if t5 is None:
        return 2
    total += t5
    bad += b5
    t8, b8 = router_phase()
    if t8 is None:
        return 2
    total += t8
    bad += b8
    t7, b7 = sections_phase()
    if t7 is None:
        return 2
    total += t7
    bad += b7
    t6, b6 = fileio_phase()
    if t6 is None:
        return 2
    total += t6
    bad += b6
    t4, b4 = topology_phase()
    if t4 is None:
        return 2
    total += t4
    bad += b4
    t2, b2 = sources_phase()
    if t2 is None:
        return 2
    total += t2
    bad += b2
    t3, b3 = walk_phase()
    if t3 is None:
        return 2
    total += t3
    bad += b3
    jobs = [('wlf', dict(Which='wlf', NChildren=2, Vals={1, 2}, Modulus=0, Sampling=1, MaxEvents=5), ['WlfStatement']),
            ('wlf', dict(Which='wlf', NChildren=1, Vals={1, 2, 3}, Modulus=0, Sampling=1, MaxEvents=5), ['WlfStatement'])]
    for m in (2, 3, 4):
        for s in (1, 2, 3):
            jobs.append(('tts', dict(Which='tts', NChildren=1, Vals={1, 2}, Modulus=m, Sampling=s, MaxEvents=7),
                         ['TtsStatement']))
    rs_ = C.par([lambda c=c, inv=inv: C.run_tlc('Extras', C.cfg(constants=c, invariants=inv + ['EmitBehaviour']),
                                                 workers=2) for (_, c, inv) in jobs])
    for (which, c, inv), r in zip(jobs, rs_):
        if r.violated:
            print('Extras model violates %s for %s' % (r.violated, c))
            return 2
        behs = C.extract_printed(r.stdout, 'BEH')
        for (_, w, hist, out) in behs:
            total += 1
            if w == 'wlf':
                real = run_wlf(hist, c['NChildren'])
            else:
                real = run_tts(hist, c['Modulus'], c['Sampling'])
            if real is not None and real != out:
                bad += 1
                if bad <= 5:
                    print('EXTRA-MISMATCH %s %s hist=%s model=%s real=%s' % (w, c, hist, out, real))
        print('%s %s: %d states, %d behaviours replayed' % (which, {k: c[k] for k in ('NChildren', 'Modulus', 'Sampling')},
                                                           r.distinct, len(behs)))
    print('extras: %d behaviours replayed on the real operators, %d mismatches' % (total, bad))
    return 1 if bad else 0


if __name__ == '__main__':
    sys.exit(main())
