"""Generates the self-test mutant catalogue of the multiplexed-stream checks
(python3 selftest/make_mux_mutants.py).  Patches are produced against /repo's current
sources; see harness/selftest.py for how they are used."""
import os
import sys

sys.path.insert(0, os.path.dirname(os.path.dirname(os.path.abspath(__file__))))
from harness.mkmutant import add  # noqa: E402

M = []


def m(prop, name, expect, file, what, old, new, checks=None):
    M.append((prop, name, expect, file, what, old, new, checks))


# ---- C05 roll
m('C05', 'density-no-ceil', 'detect', 'rxsci/data/roll.py',
  'slot ring one short when window is not a multiple of stride',
  "    if window % stride:\n        density += 1\n", "    density = max(density, 1)\n", ['C05', 'C03'])
m('C05', 'close-one-early', 'detect', 'rxsci/data/roll.py', 'window closed one item early',
  "                            if count == window:\n                                i.store.set_state(state_w, (index, i.key), -1)",
  "                            if count + 1 == window:\n                                i.store.set_state(state_w, (index, i.key), -1)")
m('C05', 'tumbling-no-reset', 'detect', 'rxsci/data/roll.py', 'tumbling window counter not reset',
  "                    if count == window:\n                        i.store.set_state(state, i.key, 0)",
  "                    if count == window:\n                        i.store.set_state(state, i.key, count)")
m('C05', 'close-ring-order', 'detect', 'rxsci/data/roll.py', 'partial windows closed in ring order (the repaired defect)',
  "                    for _, index in sorted(pending):", "                    for _, index in pending:")
m('C05', 'deliver-reversed', 'benign', 'rxsci/data/roll.py',
  'items delivered to the open windows in reverse slot order (order among windows is free)',
  "                    for offset in range(density):\n                        index = i.key[0] * density + offset\n                        w_value = i.store.get_state(state_w, (index, i.key))\n                        if w_value != -1:\n                            observer.on_next(i._replace(key=(index, i.key)))                            ",
  "                    for offset in reversed(range(density)):\n                        index = i.key[0] * density + offset\n                        w_value = i.store.get_state(state_w, (index, i.key))\n                        if w_value != -1:\n                            observer.on_next(i._replace(key=(index, i.key)))                            ",
  ['C05', 'C03', 'C11'])
m('C05', 'no-counter-reset-on-complete', 'benign', 'rxsci/data/roll.py',
  'item counter not zeroed at completion (add_key re-initialises it anyway)',
  "                elif isinstance(i, rs.OnCompletedMux):                    \n                    kindex = i.key[0]\n                    i.store.set_state(state_n, (kindex, i.key), 0)\n",
  "                elif isinstance(i, rs.OnCompletedMux):                    \n                    kindex = i.key[0]\n",
  ['C05', 'C02'])

# ---- C06 split
m('C06', 'is-not', 'detect', 'rxsci/data/split.py', 'identity instead of equality of predicate values',
  "                    if new_predicate != current_predicate:", "                    if new_predicate is not current_predicate:")
m('C06', 'predicate-not-stored', 'detect', 'rxsci/data/split.py', 'new predicate value not stored at a boundary',
  "                    if new_predicate != current_predicate:\n                        i.store.set_state(state, i.key, new_predicate)\n",
  "                    if new_predicate != current_predicate:\n")
m('C06', 'no-close-on-completion', 'detect', 'rxsci/data/split.py', 'last segment not closed at key completion',
  "                elif isinstance(i, rs.OnCompletedMux):\n                    current_predicate = i.store.get_state(state, i.key)\n                    if current_predicate is not rs.state.markers.STATE_NOTSET:\n                        observer.on_next(i._replace(key=(i.key[0], i.key)))\n",
  "                elif isinstance(i, rs.OnCompletedMux):\n                    current_predicate = i.store.get_state(state, i.key)\n",
  ['C06', 'C03'])
m('C06', 'not-eq', 'benign', 'rxsci/data/split.py', '`not (a == b)` instead of `a != b`',
  "                    if new_predicate != current_predicate:", "                    if not (new_predicate == current_predicate):")

# ---- C07 time_split
m('C07', 'inactive-gt', 'detect', 'rxsci/data/time_split.py', 'inactive timeout boundary exclusive',
  "new >= last + inactive_timeout", "new > last + inactive_timeout")
m('C07', 'active-gt', 'detect', 'rxsci/data/time_split.py', 'active timeout boundary exclusive',
  "new >= start + active_timeout", "new > start + active_timeout")
m('C07', 'last-not-updated', 'detect', 'rxsci/data/time_split.py', 'last timestamp not updated by ordinary items',
  "                    else:\n                        i.store.set_state(state_last, i.key, new_timestamp)\n",
  "                    else:\n                        pass\n")
m('C07', 'closing-keeps-reference', 'detect', 'rxsci/data/time_split.py', 'closing item does not reset the reference timestamp',
  "                    elif closing_mapper is not None and closing_mapper(i.item) is True:\n                        i.store.set_state(state_start, i.key, new_timestamp)\n",
  "                    elif closing_mapper is not None and closing_mapper(i.item) is True:\n")
m('C07', 'flipped-comparison', 'benign', 'rxsci/data/time_split.py', 'same comparison written the other way round',
  "new >= start + active_timeout", "start + active_timeout <= new")

# ---- C04 group_by
m('C04', 'flush-reversed', 'detect', 'rxsci/operators/group_by.py', 'groups completed in reverse order at parent completion',
  "                elif type(i) is rs.OnCompletedMux:\n                    for k in i.store.iterate_map(state, i.key):",
  "                elif type(i) is rs.OnCompletedMux:\n                    for k in reversed(list(i.store.iterate_map(state, i.key))):")
m('C04', 'identity-lookup', 'detect', 'rxsci/state/memory_store.py', 'group lookup by object identity',
  "        self.values[key[0]][map_key] = index\n        return index\n\n    def get_map(self, key, map_key):\n        if not map_key in self.values[key[0]]:\n            return rs.state.markers.STATE_NOTSET\n        return self.values[key[0]][map_key]",
  "        self.values[key[0]][id(map_key)] = index\n        self._objs = getattr(self, '_objs', []) + [map_key]\n        return index\n\n    def get_map(self, key, map_key):\n        if not id(map_key) in self.values[key[0]]:\n            return rs.state.markers.STATE_NOTSET\n        return self.values[key[0]][id(map_key)]",
  ['C04'])
m('C04', 'no-flush', 'detect', 'rxsci/operators/group_by.py', 'groups not completed when the parent completes',
  "                elif type(i) is rs.OnCompletedMux:\n                    for k in i.store.iterate_map(state, i.key):\n                        index = i.store.get_map(state, i.key, k)\n                        observer.on_next(i._replace(key=(index, i.key)))\n                        i.store.del_map(state, i.key, k)\n",
  "                elif type(i) is rs.OnCompletedMux:\n", ['C04', 'C03'])
m('C04', 'iterate-copy', 'benign', 'rxsci/operators/group_by.py', 'iterating over a copy of the map keys',
  "                elif type(i) is rs.OnCompletedMux:\n                    for k in i.store.iterate_map(state, i.key):",
  "                elif type(i) is rs.OnCompletedMux:\n                    for k in list(i.store.iterate_map(state, i.key)):")

# ---- C08 tee_map
m('C08', 'reset-last-branch-only', 'detect', 'rxsci/operators/tee_map.py', 'join slots of the other branches not reset (the repaired defect)',
  "                        for index in range(n):\n                            queue[base_index+index] = None\n                            has_next[base_index+index] = False\n                return\n",
  "                        queue[base_index+i] = None\n                        has_next[base_index+i] = False\n                return\n",
  ['C08', 'C02'])
m('C08', 'zip-no-clear', 'detect', 'rxsci/operators/tee_map.py', 'zip does not clear the fresh flags after a tuple',
  "                            for index in range(n):\n                                has_next[base_index+index] = False\n                                queue[base_index+index] = None\n",
  "                            for index in range(n):\n                                queue[base_index+index] = queue[base_index+index]\n")
m('C08', 'complete-from-first-branch', 'detect', 'rxsci/operators/tee_map.py', 'key completion forwarded from the first branch',
  "            elif isinstance(x, rs.OnCompletedMux):\n                if i == n-1:", "            elif isinstance(x, rs.OnCompletedMux):\n                if i == 0:",
  ['C08', 'C03'])
m('C08', 'grow-with-extend', 'benign', 'rxsci/operators/tee_map.py', 'queue grown with extend instead of a loop',
  "                            for _ in range(append_count):\n                                queue.append(None)\n                                has_next.append(False)\n",
  "                            queue.extend([None] * append_count)\n                            has_next.extend([False] * append_count)\n")

# ---- C09 scan
m('C09', 'seed-shared', 'detect', 'rxsci/operators/scan.py', 'seed not copied per key on the multiplexed path',
  "                        if value is rs.state.markers.STATE_NOTSET:\n                            value = seed() if callable(seed) else copy.deepcopy(seed)\n                        acc = accumulator(value, i.item)",
  "                        if value is rs.state.markers.STATE_NOTSET:\n                            value = seed() if callable(seed) else seed\n                        acc = accumulator(value, i.item)",
  ['C09', 'C02'])
m('C09', 'count-from-one', 'detect', 'rxsci/operators/count.py', 'count seeded with 1',
  "lambda acc, i: acc + 1, 0, reduce=reduce", "lambda acc, i: acc + 1, 1, reduce=reduce")
m('C09', 'reduce-emits-seed-when-empty-dropped', 'detect', 'rxsci/operators/scan.py', 'reduce emits nothing for a key without items',
  "                    if reduce is True:\n                        value = i.store.get_state(state, i.key)\n                        if value is rs.state.markers.STATE_NOTSET:\n                            value = seed() if callable(seed) else copy.deepcopy(seed)\n                        observer.on_next(rs.OnNextMux(i.key, value, i.store))",
  "                    if reduce is True:\n                        value = i.store.get_state(state, i.key)\n                        if value is not rs.state.markers.STATE_NOTSET:\n                            observer.on_next(rs.OnNextMux(i.key, value, i.store))")
m('C09', 'terminator-on-streaming-dropped', 'detect', 'rxsci/operators/scan.py', 'terminator result not emitted in streaming mode',
  "                        acc = terminator(value)\n                        i.store.set_state(state, i.key, acc)\n                        if reduce is False:\n                            observer.on_next(rs.OnNextMux(i.key, acc, i.store))",
  "                        acc = terminator(value)\n                        i.store.set_state(state, i.key, acc)")
m('C09', 'to_list-seed-value', 'benign', 'rxsci/data/to_list.py', 'to_list seeded with a list value (deep-copied per key) instead of a factory',
  "seed=list, reduce=True", "seed=[], reduce=True")

# ---- C10 sequence operators
m('C10', 'first-no-flag', 'detect', 'rxsci/operators/first.py', 'first never records that it has emitted',
  "                        i.store.set_state(state, i.key, True)\n                        observer.on_next(i)", "                        observer.on_next(i)")
m('C10', 'take-off-by-one', 'detect', 'rxsci/operators/take.py', 'take emits one item too many',
  "                    if value > 0:", "                    if value >= 0:")
m('C10', 'lag-off-by-one', 'detect', 'rxsci/data/lag.py', 'lag window one short',
  "                    if len(q) > size:", "                    if len(q) >= size:")
m('C10', 'pad-end-one-more', 'detect', 'rxsci/data/pad.py', 'pad_end appends one item too many',
  "                        for _ in range(size):\n                            observer.on_next(rs.OnNextMux(i.key, v, i.store))",
  "                        for _ in range(size + 1):\n                            observer.on_next(rs.OnNextMux(i.key, v, i.store))")
m('C10', 'duc-leading-none', 'detect', 'rxsci/operators/distinct_until_changed.py', 'leading None dropped (the repaired defect)',
  "        if acc[3] is False or key != acc[2]:", "        if key != acc[2]:")
m('C10', 'batch-late', 'detect', 'rxsci/data/batch.py', 'batch following a full one not checked for fullness (the repaired defect)',
  "        return (b, len(b) == batch_size)", "        return (b, acc[1] is False and len(b) == batch_size)", ['C10', 'C11'])
m('C10', 'lag-general-path', 'benign', 'rxsci/data/lag.py', 'lag(1) served by the general implementation',
  "    if size == 1:\n        return _lag1\n", "")

# ---- C11 promptness
m('C11', 'scan-emits-at-completion', 'detect', 'rxsci/operators/scan.py', 'running values buffered until the key completes',
  ["            state = None\n\n            def on_next(i):\n                nonlocal state\n\n                if type(i) is rs.OnNextMux:\n                    try:",
   "                        i.store.set_state(state, i.key, acc)\n                        if reduce is False:\n                            observer.on_next(rs.OnNextMux(i.key, acc, i.store))\n                    except Exception as e:",
   "                elif type(i) is rs.OnCompletedMux:\n                    if terminator:"],
  ["            state = None\n            pending = {}\n\n            def on_next(i):\n                nonlocal state\n\n                if type(i) is rs.OnNextMux:\n                    try:",
   "                        i.store.set_state(state, i.key, acc)\n                        if reduce is False:\n                            pending.setdefault(i.key, []).append(acc)\n                    except Exception as e:",
   "                elif type(i) is rs.OnCompletedMux:\n                    for late in pending.pop(i.key, []):\n                        observer.on_next(rs.OnNextMux(i.key, late, i.store))\n                    if terminator:"],
  ['C11'])
m('C11', 'roll-closes-on-next-item', 'detect', 'rxsci/data/roll.py', 'tumbling window closed when the next item arrives instead of with its last item',
  "                    count = i.store.get_state(state, i.key)\n                    if count == 0:\n                        observer.on_next(rs.OnCreateMux((i.key[0], i.key), i.store))\n\n                    count += 1\n                    observer.on_next(i._replace(key=(i.key[0], i.key)))\n\n                    if count == window:\n                        i.store.set_state(state, i.key, 0)\n                        observer.on_next(rs.OnCompletedMux((i.key[0], i.key), i.store))\n                    else:\n                        i.store.set_state(state, i.key, count)",
  "                    count = i.store.get_state(state, i.key)\n                    if count == window:\n                        observer.on_next(rs.OnCompletedMux((i.key[0], i.key), i.store))\n                        count = 0\n                    if count == 0:\n                        observer.on_next(rs.OnCreateMux((i.key[0], i.key), i.store))\n\n                    count += 1\n                    observer.on_next(i._replace(key=(i.key[0], i.key)))\n                    i.store.set_state(state, i.key, count)",
  ['C11'])

# ---- C13 errors
m('C13', 'scan-state-lost-on-error', 'detect', 'rxsci/operators/scan.py', 'accumulator dropped when the user function raises',
  "                    except Exception as e:\n                        observer.on_next(rs.OnErrorMux(i.key, e, i.store))\n                elif type(i) is rs.OnCreateMux:\n                    i.store.add_key(state, i.key)",
  "                    except Exception as e:\n                        i.store.add_key(state, i.key)\n                        observer.on_next(rs.OnErrorMux(i.key, e, i.store))\n                elif type(i) is rs.OnCreateMux:\n                    i.store.add_key(state, i.key)")
m('C13', 'ignore-drops-lifecycle', 'detect', 'rxsci/error/ignore.py', 'ignore forwards items only',
  "                if type(i) is not rs.OnErrorMux:", "                if type(i) is rs.OnNextMux:", ['C13', 'C03'])
m('C13', 'dead-letter-never-completes', 'detect', 'rxsci/error/router.py', 'dead-letter observable not completed with the stream',
  "                def on_completed():\n                    if dead_letter_observer is not None:\n                        dead_letter_observer.on_completed()\n",
  "                def on_completed():\n")
m('C13', 'demux-swallows-error', 'detect', 'rxsci/operators/multiplex.py', 'unhandled mux error not surfaced by demux_observable',
  "                if type(i) is rs.OnNextMux:\n                    observer.on_next(i.item)\n                elif type(i) is rs.OnErrorMux:\n                    observer.on_error(i.error)",
  "                if type(i) is rs.OnNextMux:\n                    observer.on_next(i.item)")
m('C13', 'errmap-no-print', 'benign', 'rxsci/error/map.py', 'debug print removed',
  "                        print(\"error\")\n", "")

# ---- C03 protocol
m('C03', 'tee-create-from-every-branch', 'detect', 'rxsci/operators/tee_map.py', 'key creation forwarded by every branch',
  "            if isinstance(x, rs.OnCreateMux):\n                if i == 0:", "            if isinstance(x, rs.OnCreateMux):\n                if True:")
m('C03', 'root-not-completed', 'detect', 'rxsci/operators/multiplex.py', 'root key not completed before on_completed',
  "                try:\n                    observer.on_next(rs.OnCompletedMux((0,)))\n                except Exception as e:\n                    observer.on_error(e)\n                else:\n                    observer.on_completed()",
  "                observer.on_completed()")
m('C03', 'time-split-double-create', 'detect', 'rxsci/data/time_split.py', 'expiry creates the next window without completing the current one',
  "                        i.store.set_state(state_last, i.key, new_timestamp)\n                        observer.on_next(rs.OnCompletedMux((i.key[0], i.key), i.store))\n                        observer.on_next(rs.OnCreateMux((i.key[0], i.key), i.store))\n                    elif",
  "                        i.store.set_state(state_last, i.key, new_timestamp)\n                        observer.on_next(rs.OnCreateMux((i.key[0], i.key), i.store))\n                    elif",
  ['C03', 'C07'])

# ---- C02 state confinement
m('C02', 'add-key-keeps-marker', 'detect', 'rxsci/state/memory_store.py', 'add_key does not reset the slot marker',
  "        self.state[key[0]] = rs.state.markers.STATE_NOTSET.value()\n        self.keys[key[0]] = key\n        if self.is_mapper:",
  "        if self.state[key[0]] == rs.state.markers.STATE_CLEARED.value():\n            self.state[key[0]] = rs.state.markers.STATE_NOTSET.value()\n        self.keys[key[0]] = key\n        if self.is_mapper:",
  ['C02'])
m('C02', 'last-keeps-state', 'detect', 'rxsci/operators/last.py', 'last initialises its slot only the first time an index is seen',
  ["            state = None\n\n            def on_next(i):",
   "                elif type(i) is rs.OnCreateMux:\n                    i.store.add_key(state, i.key)\n                    observer.on_next(i)\n",
   "                    observer.on_next(i)\n                    i.store.del_key(state, i.key)\n\n                elif type(i) is rs.OnErrorMux:"],
  ["            state = None\n            seen = set()\n\n            def on_next(i):",
   "                elif type(i) is rs.OnCreateMux:\n                    if i.key[0] not in seen:\n                        seen.add(i.key[0])\n                        i.store.add_key(state, i.key)\n                    observer.on_next(i)\n",
   "                    observer.on_next(i)\n\n                elif type(i) is rs.OnErrorMux:"],
  ['C02'])

# ---- one composite operator object applied at two places (the defect repaired by ef5dce6)
m('C05', 'outer-observer-per-object', 'detect', 'rxsci/data/roll.py',
  'the Subject feeding the demultiplexer is created once per roll() object (the repaired defect)',
  "    def _roll_op(source):\n        # one outer observer per application of the operator\n        _roll, outer_obs = roll_mux(window, stride)\n",
  "    _roll, outer_obs = roll_mux(window, stride)\n\n    def _roll_op(source):\n", ['C05', 'C08'])
m('C06', 'outer-observer-per-object', 'detect', 'rxsci/data/split.py',
  'the Subject feeding the demultiplexer is created once per split() object (the repaired defect)',
  "    def _split_op(source):\n        # one outer observer per application of the operator\n        _split, outer_obs = split_mux(predicate)\n",
  "    _split, outer_obs = split_mux(predicate)\n\n    def _split_op(source):\n", ['C06'])
m('C04', 'outer-observer-per-object', 'detect', 'rxsci/operators/group_by.py',
  'the Subject feeding the demultiplexer is created once per group_by() object (the repaired defect)',
  "    def _group_by_op(source):\n        # one outer observer per application of the operator\n        _group_by, outer_obs = group_by_mux(key_mapper)\n",
  "    _group_by, outer_obs = group_by_mux(key_mapper)\n\n    def _group_by_op(source):\n", ['C04', 'C03'])
m('C05', 'copy-pipeline-list', 'benign', 'rxsci/data/roll.py',
  'the pipeline list is copied before it is piped',
  "    pipeline = rx.pipe(*pipeline) if type(pipeline) is list else pipeline\n\n    def _roll_op(source):",
  "    pipeline = rx.pipe(*list(pipeline)) if type(pipeline) is list else pipeline\n\n    def _roll_op(source):", ['C05', 'C03'])
m('C08', 'zip-is-not-none', 'detect', 'rxsci/operators/tee_map.py',
  'zip decides that a branch has produced from the value (None items) instead of the flag',
  "                    _next = has_next[base_index:base_index+n]\n                    if all(_next):",
  "                    _next = [v is not None for v in queue[base_index:base_index+n]]\n                    if all(_next):")

# ---- re-entrant delivery (the defects repaired by e90fac1 and 1ef0f4a)
m('C10', 'take-emits-before-state', 'detect', 'rxsci/operators/take.py',
  'take emits the item before it decrements its counter (the repaired defect)',
  "                        i.store.set_state(state, i.key, value - 1)\n                        observer.on_next(i)\n",
  "                        observer.on_next(i)\n                        i.store.set_state(state, i.key, value - 1)\n", ['C10', 'C01'])
m('C10', 'first-emits-before-state', 'detect', 'rxsci/operators/first.py',
  'first emits the item before it sets its flag (the repaired defect)',
  "                        i.store.set_state(state, i.key, True)\n                        observer.on_next(i)\n",
  "                        observer.on_next(i)\n                        i.store.set_state(state, i.key, True)\n", ['C10'])
m('C10', 'lag-emits-before-pop', 'detect', 'rxsci/data/lag.py',
  'lag(n) emits before it drops the oldest item (the repaired defect)',
  "                    lag_item = q[0]\n                    if len(q) > size:\n                        q.popleft()\n                    observer.on_next(i._replace(item=(lag_item, i.item)))\n",
  "                    observer.on_next(i._replace(item=(q[0], i.item)))\n                    if len(q) > size:\n                        q.popleft()\n", ['C10'])
m('C09', 'scan-emits-before-state', 'detect', 'rxsci/operators/scan.py',
  'scan emits the running value before it stores it',
  "                        acc = accumulator(value, i.item)\n                        i.store.set_state(state, i.key, acc)\n                        if reduce is False:\n                            observer.on_next(rs.OnNextMux(i.key, acc, i.store))\n",
  "                        acc = accumulator(value, i.item)\n                        if reduce is False:\n                            observer.on_next(rs.OnNextMux(i.key, acc, i.store))\n                        i.store.set_state(state, i.key, acc)\n", ['C09', 'C01'])
m('C15', 'lp-emits-before-buffer', 'detect', 'rxsci/framing/length_prefix.py',
  'length_prefix.unframe emits the frames before it stores the pending bytes (the repaired defect)',
  "                        frames.append(data)\n", "                        frames.append(data)\n                        observer.on_next(data)\n                        frames.pop()\n", ['C15'])
m('C15', 'lp-frames-comprehension', 'benign', 'rxsci/framing/length_prefix.py',
  'the frames are emitted from a copy of the list',
  "                for data in frames:\n                    observer.on_next(data)\n",
  "                for data in list(frames):\n                    observer.on_next(data)\n", ['C15'])


def main():
    for (prop, name, expect, file, what, old, new, checks) in M:
        add(prop, name, expect, file, what, old, new, checks)
    print('%d mutants written' % len(M))


if __name__ == '__main__':
    main()
