---------------------------- MODULE LengthPrefix ----------------------------
(***************************************************************************)
(* rxsci.framing.length_prefix: frame(prefix_size, byteorder) prepends the *)
(* payload length as a fixed-size integer, unframe() re-assembles payloads *)
(* from an arbitrarily chunked byte stream.  The carry-over buffer `acc`   *)
(* holds the bytes of the incomplete last frame.  An incomplete trailing   *)
(* frame is never delivered (C15).                                         *)
(***************************************************************************)
EXTENDS Integers, Sequences, TLC

CONSTANTS Bytes,      \* payload byte values explored by the model
          P,          \* prefix size in bytes
          Order,      \* "little" | "big"
          MaxItems, MaxLen, MaxChunk,
          KeepHist,
          Deviation    \* "none" | "gt-size": a slip re-introduced in the model (non-vacuity)

VARIABLES items, cutoff, pos, acc, out, done, hist

vars == <<items, cutoff, pos, acc, out, done, hist>>

SeqsUpTo(S, n) == UNION {[1..m -> S] : m \in 0..n}

RECURSIVE Concat(_)
Concat(ss) == IF ss = <<>> THEN <<>> ELSE Head(ss) \o Concat(Tail(ss))

(* int.to_bytes(prefix_size, byteorder) *)
RECURSIVE ToLE(_, _)
ToLE(n, k) == IF k = 0 THEN <<>> ELSE <<n % 256>> \o ToLE(n \div 256, k - 1)
ToBytes(n) ==
    LET le == ToLE(n, P)
    IN IF Order = "little" THEN le ELSE [j \in 1..P |-> le[P + 1 - j]]

(* int.from_bytes(b, byteorder); high bytes that are zero do not contribute, so
   8-byte prefixes of small sizes stay inside TLC's integers *)
RECURSIVE FromLE(_)
FromLE(b) == IF b = <<>> THEN 0
             ELSE IF \A j \in 1..Len(b) : b[j] = 0 THEN 0
             ELSE Head(b) + 256 * FromLE(Tail(b))
FromBytes(b) ==
    IF Order = "little" THEN FromLE(b) ELSE FromLE([j \in 1..Len(b) |-> b[Len(b) + 1 - j]])

FrameItem(i) == ToBytes(Len(i)) \o i
FrameAll(its) == Concat([j \in 1..Len(its) |-> FrameItem(its[j])])

(* the wire: all frames, the last one possibly truncated after `cutoff` bytes
   (cutoff = -1: no truncation) *)
WireOf(its, cut) ==
    IF cut = -1 \/ its = <<>> THEN FrameAll(its)
    ELSE FrameAll(SubSeq(its, 1, Len(its) - 1)) \o SubSeq(FrameItem(its[Len(its)]), 1, cut)

(* unframe().on_next: the parsing loop over acc + chunk.
       while bio_len - offset >= prefix_size:
           size = from_bytes(read(prefix_size))
           if bio_len - offset - prefix_size >= size: emit read(size); offset += size + prefix_size
           else: break
       acc = buffer[offset:]                                                  *)
RECURSIVE Parse(_, _)
Parse(buf, offset) ==   \* returns <<emitted payloads, final offset>>
    IF Len(buf) - offset >= P
    THEN LET size == FromBytes(SubSeq(buf, offset + 1, offset + P)) IN
         IF (IF Deviation = "gt-size" THEN Len(buf) - offset - P > size
             ELSE Len(buf) - offset - P >= size)
         THEN LET r == Parse(buf, offset + size + P) IN
              << <<SubSeq(buf, offset + P + 1, offset + P + size)>> \o r[1], r[2] >>
         ELSE << <<>>, offset >>
    ELSE << <<>>, offset >>

OnNextOut(a, chunk) == Parse(a \o chunk, 0)[1]
OnNextAcc(a, chunk) == LET b == a \o chunk IN SubSeq(b, Parse(b, 0)[2] + 1, Len(b))

(* specification of the result: the frames completely contained in a prefix *)
Expected(its, cut) ==
    IF cut = -1 \/ its = <<>> THEN its ELSE SubSeq(its, 1, Len(its) - 1)

-----------------------------------------------------------------------------
Init ==
    /\ items \in SeqsUpTo(SeqsUpTo(Bytes, MaxLen), MaxItems)
    /\ cutoff \in (IF items = <<>> THEN {-1} ELSE (-1)..(P + Len(items[Len(items)]) - 1))
    /\ pos = 0 /\ acc = <<>> /\ out = <<>> /\ done = FALSE /\ hist = <<>>

Feed(n) ==
    /\ ~done
    /\ pos + n <= Len(WireOf(items, cutoff))
    /\ LET chunk == SubSeq(WireOf(items, cutoff), pos + 1, pos + n) IN
         /\ acc' = OnNextAcc(acc, chunk)
         /\ out' = out \o OnNextOut(acc, chunk)
    /\ pos' = pos + n
    /\ hist' = IF KeepHist THEN Append(hist, n) ELSE hist
    /\ UNCHANGED <<items, cutoff, done>>

(* on_completed is forwarded as is: nothing is flushed *)
Complete ==
    /\ ~done
    /\ pos = Len(WireOf(items, cutoff))
    /\ done' = TRUE
    /\ UNCHANGED <<items, cutoff, pos, acc, out, hist>>

Next == (\E n \in 0..MaxChunk : Feed(n)) \/ Complete
Spec == Init /\ [][Next]_vars

-----------------------------------------------------------------------------
(* the frames that end at or before position p, and where the last of them ends *)
RECURSIVE FramesIn(_, _, _)
FramesIn(its, p, start) ==   \* <<items complete within p, end offset of the last>>
    IF its = <<>> THEN << <<>>, start >>
    ELSE LET e == start + P + Len(Head(its)) IN
         IF e <= p THEN LET r == FramesIn(Tail(its), p, e) IN << <<Head(its)>> \o r[1], r[2] >>
         ELSE << <<>>, start >>

Confluence ==
    LET w == WireOf(items, cutoff)
        f == FramesIn(Expected(items, cutoff), pos, 0)
    IN /\ out = f[1]
       /\ acc = SubSeq(w, f[2] + 1, pos)

RoundTrip == done => out = Expected(items, cutoff)

HistBound == Len(hist) <= Len(WireOf(items, cutoff)) + 2

EmitBehaviour == done => PrintT(<<"BEH", items, cutoff, hist>>)
=============================================================================
