------------------------------- MODULE FnLib -------------------------------
(***************************************************************************)
(* Tagged values and the finite library of user functions that pipelines   *)
(* under test may use.  The same library exists in python                  *)
(* (harness/fnlib.py); the two are cross-checked on their whole finite     *)
(* domain by bin/setup.                                                    *)
(*                                                                         *)
(* Values are records whose tag field `k` sorts first, so that TLC can     *)
(* compare values of different kinds without raising:                      *)
(*   [k|->"i",v|->3] int      [k|->"n"] None        [k|->"b",v|->TRUE]    *)
(*   [k|->"t",v|-><<..>>] tuple   [k|->"l",v|-><<..>>] list                *)
(*   [k|->"q",n|->1,d|->3] rational (normalised, d>1)                      *)
(*   [k|->"x",v|->7] exception token (VerifError(7))                       *)
(* A function descriptor is [n |-> name, c |-> integer parameter].         *)
(***************************************************************************)
EXTENDS Integers, Sequences, FiniteSets, TLC

IntV(n) == [k |-> "i", v |-> n]
None == [k |-> "n"]
BoolV(b) == [k |-> "b", v |-> b]
TupV(s) == [k |-> "t", v |-> s]
LstV(s) == [k |-> "l", v |-> s]
ErrV(c) == [k |-> "x", v |-> c]

IsErr(v)  == v.k = "x"
IsInt(v)  == v.k = "i"
IsNone(v) == v.k = "n"

RECURSIVE Gcd(_, _)
Gcd(a, b) == IF b = 0 THEN a ELSE Gcd(b, a % b)
Abs(a) == IF a < 0 THEN -a ELSE a

(* normalised rational n/d (d # 0); integral results are ints *)
RatV(n, d) ==
    LET s == IF d < 0 THEN -1 ELSE 1
        g == Gcd(Abs(n), Abs(d))
        nn == (s * n) \div g
        dd == (s * d) \div g
    IN IF dd = 1 THEN IntV(nn) ELSE [k |-> "q", n |-> nn, d |-> dd]

Num(v) == IF v.k = "i" THEN v.v ELSE v.n
Den(v) == IF v.k = "i" THEN 1 ELSE v.d
QAdd(a, b) == RatV(Num(a) * Den(b) + Num(b) * Den(a), Den(a) * Den(b))
QLess(a, b) == Num(a) * Den(b) < Num(b) * Den(a)

Fn(n, c) == [n |-> n, c |-> c]

-----------------------------------------------------------------------------
(* unary functions: mappers, key functions, terminators, error mappers *)
Apply(f, x) ==
    CASE f.n = "id"      -> x
      [] f.n = "addc"    -> IntV(x.v + f.c)
      [] f.n = "mulc"    -> IntV(x.v * f.c)
      [] f.n = "modc"    -> IntV(x.v % f.c)
      [] f.n = "divc"    -> IntV(x.v \div f.c)
      [] f.n = "constc"  -> IntV(f.c)
      [] f.n = "dup"     -> TupV(<<x, x>>)
      [] f.n = "fst"     -> x.v[1]
      [] f.n = "snd"     -> x.v[2]
      [] f.n = "noneIf"  -> IF x = IntV(f.c) THEN None ELSE x
      [] f.n = "failIf"  -> IF x = IntV(f.c) THEN ErrV(f.c) ELSE x
      [] f.n = "failMod" -> IF IsInt(x) /\ x.v % 3 = f.c THEN ErrV(x.v) ELSE x
      [] f.n = "list3"   -> LstV(<<x, IntV(x.v + 10), IntV(x.v + 20)>>)
      [] f.n = "listn"   -> LstV([j \in 1..(x.v % 3) |-> IntV(x.v * 10 + j)])
      [] f.n = "errcode" -> IntV(x.v)            \* error mapper: VerifError(c) -> c
      [] f.n = "errconst" -> IntV(f.c)

(* predicates: return TRUE / FALSE / an exception token *)
Test(p, x) ==
    CASE p.n = "true"    -> TRUE
      [] p.n = "false"   -> FALSE
      [] p.n = "even"    -> x.v % 2 = 0
      [] p.n = "ltc"     -> x.v < p.c
      [] p.n = "gec"     -> x.v >= p.c
      [] p.n = "nec"     -> x # IntV(p.c)
      [] p.n = "notNone" -> ~IsNone(x)
      [] p.n = "failIfP" -> IF x = IntV(p.c) THEN ErrV(p.c) ELSE TRUE
      [] p.n = "sndTrue" -> x.v[2] = BoolV(TRUE)

(* binary accumulators: acc, item -> acc  (or an exception token) *)
Apply2(f, a, x) ==
    CASE f.n = "add"       -> IntV(a.v + x.v)
      [] f.n = "cnt"       -> IntV(a.v + 1)
      [] f.n = "max"       -> IF IsNone(a) \/ x.v > a.v THEN x ELSE a
      [] f.n = "min"       -> IF IsNone(a) \/ x.v < a.v THEN x ELSE a
      [] f.n = "last"      -> x
      [] f.n = "appendMut" -> LstV(Append(a.v, x))
      [] f.n = "appendNew" -> LstV(Append(a.v, x))
      [] f.n = "failAdd"   -> IF x = IntV(f.c) THEN ErrV(f.c) ELSE IntV(a.v + x.v)
      [] f.n = "addsnd"    -> IntV(a.v + x.v[2].v)

(* binary predicates for assert_1: previous item, item *)
Test2(p, a, x) ==
    CASE p.n = "le"  -> a.v <= x.v
      [] p.n = "lt"  -> a.v < x.v
      [] p.n = "true" -> TRUE

(* binary mappers for starmap on 2-tuples *)
ApplyStar(f, x) ==
    CASE f.n = "add2" -> IntV(x.v[1].v + x.v[2].v)
      [] f.n = "swap" -> TupV(<<x.v[2], x.v[1]>>)
      [] f.n = "fst2" -> x.v[1]
=============================================================================
