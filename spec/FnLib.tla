------------------------------- MODULE FnLib -------------------------------
(***************************************************************************)
(* Tagged values and the finite library of user functions that pipelines   *)
(* under test may use.  The same library exists in python                  *)
(* (harness/fnlib.py); the two are cross-checked on their whole finite     *)
(* domain by bin/setup.                                                    *)
(*                                                                         *)
(* Values are tuples <<tag, payload>>: TLC compares tuples element by      *)
(* element, left to right, and by length first, so values of different     *)
(* kinds compare FALSE without TLC raising (records do not guarantee the   *)
(* field order of the comparison):                                         *)
(*   <<"i",3>> int    <<"n">> None    <<"b",TRUE>>    <<"s","abc">>         *)
(*   <<"t",<<..>>>> tuple   <<"l",<<..>>>> list                            *)
(*   <<"q",1,3>> rational (normalised, d>1)                                *)
(*   <<"x",7>> exception token (VerifError(7))   <<"f","repr">> other      *)
(* A function descriptor is [n |-> name, c |-> integer parameter].         *)
(***************************************************************************)
EXTENDS Integers, Sequences, FiniteSets, TLC

IntV(n) == <<"i", n>>
None == <<"n">>
BoolV(b) == <<"b", b>>
TupV(s) == <<"t", s>>
LstV(s) == <<"l", s>>
ErrV(c) == <<"x", c>>

Kind(v) == v[1]
V(v) == v[2]
IsErr(v)  == v[1] = "x"
IsInt(v)  == v[1] = "i"
IsNone(v) == v[1] = "n"
(* a float NaN: a value that is unequal to everything, itself included (python's !=) *)
NaN == <<"nan">>
IsNaN(v) == v[1] = "nan"
NeqV(a, b) == a # b \/ IsNaN(a) \/ IsNaN(b)
IsIntEq(v, c) == v[1] = "i" /\ v[2] = c

RECURSIVE Gcd(_, _)
Gcd(a, b) == IF b = 0 THEN a ELSE Gcd(b, a % b)
Abs(a) == IF a < 0 THEN -a ELSE a

(* normalised rational n/d (d # 0); integral results are ints *)
RatV(n, d) ==
    LET s == IF d < 0 THEN -1 ELSE 1
        g == Gcd(Abs(n), Abs(d))
        nn == (s * n) \div g
        dd == (s * d) \div g
    IN IF dd = 1 THEN IntV(nn) ELSE <<"q", nn, dd>>

Num(v) == v[2]
Den(v) == IF v[1] = "i" THEN 1 ELSE v[3]
QAdd(a, b) == RatV(Num(a) * Den(b) + Num(b) * Den(a), Den(a) * Den(b))
QLess(a, b) == Num(a) * Den(b) < Num(b) * Den(a)

Fn(n, c) == [n |-> n, c |-> c]

-----------------------------------------------------------------------------
(* unary functions: mappers, key functions, terminators, error mappers *)
Apply(f, x) ==
    CASE f.n = "id"      -> x
      [] f.n = "addc"    -> IntV(V(x) + f.c)
      [] f.n = "mulc"    -> IntV(V(x) * f.c)
      [] f.n = "modc"    -> IntV(V(x) % f.c)
      [] f.n = "divc"    -> IntV(V(x) \div f.c)
      [] f.n = "constc"  -> IntV(f.c)
      [] f.n = "dup"     -> TupV(<<x, x>>)
      [] f.n = "fst"     -> V(x)[1]
      [] f.n = "snd"     -> V(x)[2]
      [] f.n = "fstmodc" -> IntV(V(V(x)[1]) % f.c)
      [] f.n = "noneIf"  -> IF IsIntEq(x, f.c) THEN None ELSE x
      [] f.n = "nanIf"   -> IF IsIntEq(x, f.c) THEN NaN ELSE x
      [] f.n = "appendc" -> LstV(Append(V(x), IntV(f.c)))     \* (python: appends in place)
      [] f.n = "failIf"  -> IF IsIntEq(x, f.c) THEN ErrV(f.c) ELSE x
      [] f.n = "failMod" -> IF IsInt(x) /\ V(x) % 3 = f.c THEN ErrV(V(x)) ELSE x
      [] f.n = "list3"   -> LstV(<<x, IntV(V(x) + 10), IntV(V(x) + 20)>>)
      [] f.n = "listn"   -> LstV([j \in 1..(V(x) % 3) |-> IntV(V(x) * 10 + j)])
      [] f.n = "errcode" -> IntV(V(x))            \* error mapper: VerifError(c) -> c
      [] f.n = "errconst" -> IntV(f.c)
      [] f.n = "errnone"  -> None                 \* error mapper: a missing value in place of the failure

(* predicates: return BoolV(TRUE) / BoolV(FALSE) / an exception token *)
Test(p, x) ==
    CASE p.n = "true"    -> BoolV(TRUE)
      [] p.n = "false"   -> BoolV(FALSE)
      [] p.n = "even"    -> BoolV(V(x) % 2 = 0)
      [] p.n = "ltc"     -> BoolV(V(x) < p.c)
      [] p.n = "gec"     -> BoolV(V(x) >= p.c)
      [] p.n = "nec"     -> BoolV(~IsIntEq(x, p.c))
      [] p.n = "notNone" -> BoolV(~IsNone(x))
      [] p.n = "failIfP" -> IF IsIntEq(x, p.c) THEN ErrV(p.c) ELSE BoolV(TRUE)
      [] p.n = "sndTrue" -> BoolV(V(x)[2] = BoolV(TRUE))

(* binary accumulators: acc, item -> acc  (or an exception token) *)
Apply2(f, a, x) ==
    CASE f.n = "add"       -> IntV(V(a) + V(x))
      [] f.n = "cnt"       -> IntV(V(a) + 1)
      [] f.n = "max"       -> IF IsNone(a) \/ V(x) > V(a) THEN x ELSE a
      [] f.n = "min"       -> IF IsNone(a) \/ V(x) < V(a) THEN x ELSE a
      [] f.n = "last"      -> x
      [] f.n = "appendMut" -> LstV(Append(V(a), x))
      [] f.n = "appendNew" -> LstV(Append(V(a), x))
      [] f.n = "failAdd"   -> IF IsIntEq(x, f.c) THEN ErrV(f.c) ELSE IntV(V(a) + V(x))
      [] f.n = "addsnd"    -> IntV(V(a) + V(V(x)[2]))

(* binary predicates for assert_1: previous item, item *)
Test2(p, a, x) ==
    CASE p.n = "le"  -> V(a) <= V(x)
      [] p.n = "lt"  -> V(a) < V(x)
      [] p.n = "true" -> TRUE

(* binary mappers for starmap on 2-tuples *)
ApplyStar(f, x) ==
    CASE f.n = "add2" -> IntV(V(V(x)[1]) + V(V(x)[2]))
      [] f.n = "swap" -> TupV(<<V(x)[2], V(x)[1]>>)
      [] f.n = "fst2" -> V(x)[1]
      [] f.n = "failAdd2" -> IF V(V(x)[1]) + V(V(x)[2]) = f.c THEN ErrV(f.c)
                             ELSE IntV(V(V(x)[1]) + V(V(x)[2]))
=============================================================================
