------------------------------- MODULE FileIO -------------------------------
(***************************************************************************)
(* rxsci.io.file: read() and write(), the two ends of every dump_to_file / *)
(* load_from_file.  No listed property speaks about them alone (C18, C19   *)
(* use them with one read size); checked by bin/check-extras.              *)
(*                                                                         *)
(*   Which = "read"   read(file, size): the content of the file as chunks. *)
(*        size = None (0 here): exactly one item, the whole content, even  *)
(*        for an empty file.  size = n: the loop of the code -- read n,    *)
(*        emit while the chunk is not empty -- so every chunk but the last *)
(*        has n elements, no chunk is empty, an empty file gives no item.  *)
(*        A subscriber that disposes while it receives chunk k (take(k))   *)
(*        gets nothing more; the loop stops before the next read.          *)
(*   Which = "write"  source.pipe(write(file)): emits no item; the file    *)
(*        holds the concatenation of the items received; for a path the    *)
(*        file is closed *before* the completion (or the source's error)   *)
(*        is forwarded, a file object is left open (the caller owns it).   *)
(*        A path that cannot be opened gives on_error; as coded the source *)
(*        is subscribed nonetheless (with the path string as the "file"),  *)
(*        but the observer has stopped and rx.create disposes that         *)
(*        subscription at once: nothing is written, nothing is raised.     *)
(*   Which = "round"  write(path) then read(path, size): the chunks read   *)
(*        concatenate to the concatenation of the items written, whatever  *)
(*        the two cuts.                                                    *)
(***************************************************************************)
EXTENDS Integers, Sequences, FiniteSets, TLC

CONSTANTS Which,      \* "read" | "write" | "round"
          Bytes,      \* the elements of a content (small integers)
          MaxLen,     \* read: length of the content;  write/round: length of an item
          MaxItems,   \* write/round: number of items
          Sizes       \* read sizes (0 = None)

VARIABLES content,    \* read: what the file holds
          size,       \* read / round: the size argument
          disposeAt,  \* read: the subscriber disposes while receiving its k-th chunk (0: never)
          items,      \* write / round: the items of the source
          errAt,      \* write: the source fails after that many items (-1: it completes)
          target,     \* write: "path" | "bare" (a file name without directory part) | "object" | "unopenable"
          fpos,       \* read: elements consumed;  write: items consumed
          file,       \* write: what has been written
          fstate,     \* "none" | "open" | "closed"
          out,        \* notifications the subscriber received: <<"n", chunk>>, <<"c">>, <<"e", code>>
          closedAtEnd,\* write: the file was closed when the terminal notification was delivered
          raised,     \* write: an exception escaped into the source
          done

vars == <<content, size, disposeAt, items, errAt, target, fpos, file, fstate, out, closedAtEnd, raised, done>>

RECURSIVE SeqsUpTo(_, _)
SeqsUpTo(S, n) == IF n = 0 THEN {<<>>} ELSE SeqsUpTo(S, n - 1) \cup
                      {Append(s, x) : s \in {t \in SeqsUpTo(S, n - 1) : Len(t) = n - 1}, x \in S}

RECURSIVE Concat(_)
Concat(ss) == IF ss = <<>> THEN <<>> ELSE Head(ss) \o Concat(Tail(ss))

Min(a, b) == IF a < b THEN a ELSE b
NChunks(n, sz) == IF sz = 0 THEN 1 ELSE (n + sz - 1) \div sz

Init ==
    /\ fpos = 0 /\ file = <<>> /\ fstate = "none" /\ out = <<>> /\ done = FALSE
    /\ closedAtEnd = FALSE /\ raised = FALSE
    /\ IF Which = "read"
       THEN /\ content \in SeqsUpTo(Bytes, MaxLen)
            /\ size \in Sizes
            /\ disposeAt \in 0..NChunks(MaxLen, 1)
            /\ disposeAt <= NChunks(Len(content), size)
            /\ items = <<>> /\ errAt = -1 /\ target = "path"
       ELSE /\ items \in SeqsUpTo(SeqsUpTo(Bytes, MaxLen), MaxItems)
            /\ content = <<>> /\ disposeAt = 0
            /\ size \in (IF Which = "round" THEN Sizes ELSE {0})
            /\ errAt \in (IF Which = "write" THEN -1..Len(items) ELSE {-1})
            /\ target \in (IF Which = "write" THEN {"path", "bare", "object", "unopenable"} ELSE {"path"})

(* a str target: a path, or a bare file name relative to the working directory *)
IsPath == target \in {"path", "bare"}

Delivered == Cardinality({q \in 1..Len(out) : out[q][1] = "n"})

(* ------------------------------ read ------------------------------ *)
Open ==
    /\ Which = "read" /\ fstate = "none" /\ ~done
    /\ fstate' = "open"
    /\ UNCHANGED <<content, size, disposeAt, items, errAt, target, fpos, file, out, closedAtEnd, raised, done>>

ReadWhole ==        \* size is None: f.read(None), one on_next
    /\ Which = "read" /\ fstate = "open" /\ size = 0 /\ ~done /\ Delivered = 0
    /\ out' = Append(out, <<"n", content>>)
    /\ fpos' = Len(content)
    /\ done' = (disposeAt = 1)
    /\ UNCHANGED <<content, size, disposeAt, items, errAt, target, file, fstate, closedAtEnd, raised>>

ReadChunk ==        \* data = f.read(size); while not disposed and len(data) > 0: on_next(data)
    /\ Which = "read" /\ fstate = "open" /\ size > 0 /\ ~done /\ fpos < Len(content)
    /\ LET n == Min(size, Len(content) - fpos) IN
        /\ out' = Append(out, <<"n", SubSeq(content, fpos + 1, fpos + n)>>)
        /\ fpos' = fpos + n
    /\ done' = (disposeAt = Delivered + 1)
    /\ UNCHANGED <<content, size, disposeAt, items, errAt, target, file, fstate, closedAtEnd, raised>>

ReadEnd ==
    /\ Which = "read" /\ fstate = "open" /\ ~done
    /\ fpos = Len(content) /\ (size = 0 => Delivered = 1)
    /\ fstate' = "closed"
    /\ out' = Append(out, <<"c">>)
    /\ done' = TRUE
    /\ UNCHANGED <<content, size, disposeAt, items, errAt, target, fpos, file, closedAtEnd, raised>>

(* ------------------------------ write ------------------------------ *)
WOpen ==
    /\ Which \in {"write", "round"} /\ fstate = "none" /\ fpos = 0 /\ ~done /\ out = <<>>
    /\ IF target = "unopenable"
       THEN \* on_error(e) -- the code goes on to source.subscribe(...), disposed at once
            /\ out' = << <<"e", 2>> >>
            /\ done' = TRUE
            /\ UNCHANGED <<fstate, closedAtEnd, raised>>
       ELSE /\ fstate' = "open"
            /\ UNCHANGED <<out, raised, done, closedAtEnd>>
    /\ UNCHANGED <<content, size, disposeAt, items, errAt, target, fpos, file>>

WItem ==
    /\ Which \in {"write", "round"} /\ fstate = "open" /\ ~done
    /\ fpos < Len(items) /\ (errAt = -1 \/ fpos < errAt)
    /\ file' = file \o items[fpos + 1]
    /\ fpos' = fpos + 1
    /\ UNCHANGED <<content, size, disposeAt, items, errAt, target, fstate, out, closedAtEnd, raised, done>>

WEnd ==             \* the source completes or fails: close (a path only), then forward
    /\ Which = "write" /\ fstate = "open" /\ ~done
    /\ (errAt = -1 /\ fpos = Len(items)) \/ (errAt # -1 /\ fpos = errAt)
    /\ fstate' = IF IsPath THEN "closed" ELSE "open"
    /\ closedAtEnd' = IsPath
    /\ out' = Append(out, IF errAt = -1 THEN <<"c">> ELSE <<"e", 7>>)
    /\ done' = TRUE
    /\ UNCHANGED <<content, size, disposeAt, items, errAt, target, fpos, file, raised>>

(* round trip: the file that was written is read back by chunks *)
RoundRead ==
    /\ Which = "round" /\ fstate = "open" /\ ~done /\ fpos = Len(items)
    /\ LET n == Len(file)
           k == NChunks(n, size)
       IN out' = (IF size = 0 THEN << <<"n", file>> >>
                  ELSE [q \in 1..k |-> <<"n", SubSeq(file, (q - 1) * size + 1, Min(q * size, n))>>])
                 \o << <<"c">> >>
    /\ done' = TRUE
    /\ UNCHANGED <<content, size, disposeAt, items, errAt, target, fpos, file, fstate, closedAtEnd, raised>>

Next == Open \/ ReadWhole \/ ReadChunk \/ ReadEnd \/ WOpen \/ WItem \/ WEnd \/ RoundRead
Spec == Init /\ [][Next]_vars

-----------------------------------------------------------------------------
Chunks == [q \in 1..Delivered |-> out[q][2]]

ReadStatement ==
    (Which = "read" /\ done) =>
        LET all == NChunks(Len(content), size)
            k   == IF disposeAt = 0 THEN all ELSE disposeAt
        IN /\ Delivered = k
           /\ (disposeAt = 0) => (out[Len(out)] = <<"c">> /\ Concat(Chunks) = content)
           /\ (disposeAt # 0) => (Len(out) = k /\ Concat(Chunks) = SubSeq(content, 1, Len(Concat(Chunks))))
           /\ size > 0 => /\ \A q \in 1..k : Len(Chunks[q]) >= 1 /\ Len(Chunks[q]) <= size
                          /\ \A q \in 1..(k - 1) : Len(Chunks[q]) = size
           /\ size = 0 => k = 1

(* while the loop runs, what has been emitted is a prefix of the file, cut at multiples of size *)
ReadPrefix ==
    Which = "read" => /\ Concat(Chunks) = SubSeq(content, 1, fpos)
                      /\ size > 0 => fpos = Min(Delivered * size, Len(content))

WriteStatement ==
    /\ (Which = "write" /\ done /\ target = "unopenable") =>
          (out = << <<"e", 2>> >> /\ file = <<>> /\ ~raised)
    /\ (Which = "write" /\ done /\ target # "unopenable") =>
        LET k == IF errAt = -1 THEN Len(items) ELSE errAt IN
        /\ Delivered = 0
        /\ out = << (IF errAt = -1 THEN <<"c">> ELSE <<"e", 7>>) >>
        /\ file = Concat(SubSeq(items, 1, k))
        /\ closedAtEnd = IsPath
        /\ ~raised

RoundStatement ==
    (Which = "round" /\ done) =>
        /\ Concat(Chunks) = Concat(items)
        /\ out[Len(out)] = <<"c">>

EmitBehaviour ==
    done => IF Which = "read"
            THEN PrintT(<<"BEH", "read", content, size, disposeAt, out>>)
            ELSE PrintT(<<"BEH", Which, items, size, errAt, target, out, file, closedAtEnd, raised>>)
=============================================================================
