------------------------------ MODULE MathAgg ------------------------------
(***************************************************************************)
(* rxsci.math: sum, mean, min, max, variance, stddev (Welford, sample n-1), *)
(* formal.variance / formal.stddev (two-pass, population), each built on   *)
(* rs.ops.scan(accumulate, seed, reduce) followed by a map.                *)
(*                                                                         *)
(* TLC has no reals.  Every number the code handles is an exact rational   *)
(* <<num, den>> with den > 0 and gcd(num, den) = 1 (what python's Fraction *)
(* does), so this module decides the *algebra* of the operators; the       *)
(* floating-point clause of C12 is probed numerically by the harness       *)
(* against the definitions of part 2 evaluated exactly.                    *)
(*                                                                         *)
(* Part 1 (implementation-shaped): one state variable per accumulator,     *)
(* updated exactly as coded; for every operator a streaming instance       *)
(* (reduce=False, emits after every item) and a reduce instance            *)
(* (reduce=True, emits once at completion) run side by side on the same    *)
(* items.  formal.variance's map function clears the list that scan keeps  *)
(* as its state; FormalClears = TRUE is the code as it is, FALSE the       *)
(* repaired behaviour.                                                     *)
(* Part 2 (specification): Sum, Mean, SampleVar, PopVar, Min, Max of the   *)
(* whole history, as integer expressions over the multiset `bag` of the    *)
(* items received (unnormalised fractions, compared by                     *)
(* cross-multiplication); no folds over the stream, no recurrences.        *)
(*                                                                         *)
(* The history is kept as a multiset: the order of the items is recorded   *)
(* (hist) only for behaviour generation.  Two item sequences lead to the   *)
(* same TLC state only if every accumulator of the code is equal after     *)
(* them, so every sequence over Vals of length <= MaxLen is a path of the  *)
(* state graph and every invariant is checked after each of its prefixes;  *)
(* the number of *distinct* states is small because Welford's (m, s, k)    *)
(* and the folds forget the order (which the invariants prove).  The lists *)
(* of formal.variance remember it: runs that instantiate formal.* have one *)
(* state per sequence.                                                     *)
(*                                                                         *)
(* Items: the environment sends integers a; the item value is a / unit     *)
(* (unit = 1 while model checking; recorded executions may use halves).    *)
(***************************************************************************)
EXTENDS Integers, Sequences, FiniteSets, TLC

CONSTANTS VMax,          \* the environment offers the raw items -VMax..VMax
          MaxLen,        \* longest item sequence
          KAbs, KNeg, KAdd,  \* key_mapper = lambda r: kmul * r + kadd with kmul = +-KAbs,
                         \* kadd = KAdd (a cfg file cannot hold a negative number)
          FormalClears,  \* TRUE: formal._variance does acc.clear() (current code)
          POps,          \* operator instances subscribed (model checking)
          KeepHist       \* TRUE: record the item order (behaviour generation)

VARIABLES bag,      \* history: raw item (integer, in 1/unit) -> times received
          nrecv,    \* number of items received
          hist,     \* the raw items in order (only if KeepHist)
          unit,     \* common denominator of the raw items
          kmul, kadd, \* the key_mapper of this run (fixed at Init)
          inst,     \* operators instantiated in this run
          done,     \* completion delivered
          kmCalls,  \* number of key_mapper calls made by one operator instance
          sumAcc,   \* sum:      acc               (seed 0.0)
          meanAcc,  \* mean:     <<sum, count>>    (seed (0, 0))
          minAcc,   \* min:      None or value     (seed None)
          maxAcc,   \* max:      None or value     (seed None)
          wel,      \* variance: <<m, s, k>>       (seed (None, 0, 0))
          fAccS,    \* formal.variance, streaming instance: the list
          fAccR,    \* formal.variance, reduce instance: the list
          lastS,    \* [op -> value last emitted by the streaming instance | NoVal]
          lastR,    \* [op -> value last emitted by the reduce instance | NoVal]
          cntS,     \* emissions made by every streaming instance
          cntR,     \* emissions made by every reduce instance
          st        \* ghost: part-2 statistics of the whole history

vars == <<bag, nrecv, hist, unit, kmul, kadd, inst, done, kmCalls, sumAcc, meanAcc, minAcc, maxAcc, wel, fAccS, fAccR,
          lastS, lastR, cntS, cntR, st>>

Vals == (-VMax)..VMax
KMul == IF KNeg THEN -KAbs ELSE KAbs

Ops == {"sum", "mean", "min", "max", "variance", "stddev",
        "formal.variance", "formal.stddev"}
FormalOps == {"formal.variance", "formal.stddev"}

-----------------------------------------------------------------------------
(* exact rationals (python Fraction): normalised pairs *)
Abs(a) == IF a < 0 THEN -a ELSE a

RECURSIVE GCD(_, _)
GCD(a, b) == IF b = 0 THEN a ELSE GCD(b, a % b)

Norm(n, d) ==                       \* d > 0
    LET g == GCD(Abs(n), d) IN <<n \div g, d \div g>>

R(i)   == <<i, 1>>
Zero   == <<0, 1>>
None   == <<>>            \* python None
Undef  == <<0, 0>>        \* ZeroDivisionError / math domain error
NoVal  == <<0, 0, 0>>     \* nothing emitted yet

IsRat(p) == /\ Len(p) = 2 /\ p[2] > 0 /\ GCD(Abs(p[1]), p[2]) = 1
            /\ Abs(p[1]) < 32768 /\ p[2] < 32768    \* products stay inside 32 bits

RAdd(p, q)  == Norm(p[1] * q[2] + q[1] * p[2], p[2] * q[2])
RSub(p, q)  == Norm(p[1] * q[2] - q[1] * p[2], p[2] * q[2])
RMul(p, q)  == Norm(p[1] * q[1], p[2] * q[2])
RDivI(p, k) == IF k = 0 THEN Undef                 \* p / k, k an int >= 0
               ELSE Norm(p[1], p[2] * k)
RLt(p, q)   == p[1] * q[2] < q[1] * p[2]
(* p ** n for n in {1, 2}; a power of a normalised fraction is normalised *)
RPow(p, n)  == IF n = 1 THEN p ELSE <<p[1] * p[1], p[2] * p[2]>>

(* equality of (possibly unnormalised) fractions with positive denominators *)
REq(p, q) == Len(p) = 2 /\ Len(q) = 2 /\ p[2] > 0 /\ q[2] > 0 /\ p[1] * q[2] = q[1] * p[2]

(* math.sqrt is kept symbolic: <<n, d, 2>> stands for (n/d)^(1/2) *)
SqrtOf(q)  == IF q = None THEN None
              ELSE IF q[2] = 0 \/ q[1] < 0 THEN <<0, 0, 2>> ELSE <<q[1], q[2], 2>>
SquareOf(r) == <<r[1], r[2]>>

-----------------------------------------------------------------------------
(* PART 1 -- the code, transcribed                                         *)

KM(a, u) == Norm(kmul * a + kadd * u, u)            \* key_mapper(a / u)

(* sum.py: accumulate(acc, i) = acc + key_mapper(i); seed 0.0 *)
SumSeed == Zero
SumAccumulate(acc, i) == RAdd(acc, i)

(* mean.py: accumulate = (acc[0]+i, acc[1]+1); seed (0, 0);
   map: acc[0] / acc[1] if acc is not None else None *)
MeanSeed == <<Zero, 0>>
MeanAccumulate(acc, i) == <<RAdd(acc[1], i), acc[2] + 1>>
MeanMap(acc) == RDivI(acc[1], acc[2])

(* min.py / max.py: if acc is None or i < acc: acc = i; seed None *)
MinAccumulate(acc, i) == IF acc = None THEN i ELSE IF RLt(i, acc) THEN i ELSE acc
MaxAccumulate(acc, i) == IF acc = None THEN i ELSE IF RLt(acc, i) THEN i ELSE acc

(* variance.py: state (m, s, k), seed (None, 0, 0)
       k = acc[2] + 1
       if m is None: m = i
       else: m1 = m; m = m + (i - m) / k; s = s + (i - m1)*(i - m)
   map: 0.0 if acc[2] < 2 else acc[1] / (acc[2]-1) *)
WelSeed == <<None, Zero, 0>>
WelAccumulate(acc, i) ==
    LET m == acc[1]
        s == acc[2]
        k == acc[3] + 1
    IN IF m = None THEN <<i, s, k>>
       ELSE LET m1 == m
                m2 == RAdd(m, RDivI(RSub(i, m), k))
                s2 == RAdd(s, RMul(RSub(i, m1), RSub(i, m2)))
            IN <<m2, s2, k>>
WelMap(acc) == IF acc[3] < 2 THEN Zero ELSE RDivI(acc[2], acc[3] - 1)

(* formal/__init__.py:
   _moment(x, c, n) = sum([(x[i]-c)**n ...]) / len(x) if len(x) > 0 else None *)
RECURSIVE SumTo(_, _)
SumTo(f, k) == IF k = 0 THEN Zero ELSE RAdd(SumTo(f, k - 1), f[k])

Moment(x, c, n) ==
    IF Len(x) = 0 THEN None
    ELSE RDivI(SumTo([j \in 1..Len(x) |-> RPow(RSub(x[j], c), n)], Len(x)), Len(x))

(* formal/variance.py: accumulate appends to the list; seed [];
   map _variance(acc): 0.0 if empty else
       mean = _moment(acc, 0, 1); v = _moment(acc, mean, 2); acc.clear(); return v
   `acc` is the very list object scan keeps as its state (plain path: the closure
   variable, mux path: the object held by the store), so the clear empties the
   operator's state. *)
FormalSeed == <<>>
FormalAccumulate(acc, i) == Append(acc, i)
FormalValue(acc) == IF Len(acc) = 0 THEN Zero ELSE Moment(acc, Moment(acc, Zero, 1), 2)
FormalListAfterMap(acc) == IF Len(acc) = 0 THEN acc ELSE IF FormalClears THEN <<>> ELSE acc

(* the value an instance emits, from the accumulators it holds *)
MapValue(op, sm, me, mi, ma, w, fl) ==
    CASE op = "sum"             -> sm
      [] op = "mean"            -> MeanMap(me)
      [] op = "min"             -> mi
      [] op = "max"             -> ma
      [] op = "variance"        -> WelMap(w)
      [] op = "stddev"          -> SqrtOf(WelMap(w))
      [] op = "formal.variance" -> FormalValue(fl)
      [] op = "formal.stddev"   -> SqrtOf(FormalValue(fl))

Has(op) == op \in inst
HasWel == Has("variance") \/ Has("stddev")
HasFormal == Has("formal.variance") \/ Has("formal.stddev")

-----------------------------------------------------------------------------
(* PART 2 -- the specification: statistics of the multiset of mapped items.
   All integer; item values are v / unit for v in the sequence s.           *)

Val(a, u) == kmul * a + kadd * u          \* key_mapper(a / u) * u
Raws(b)   == DOMAIN b
Values(b, u) == {Val(a, u) : a \in Raws(b)}

RECURSIVE SetSum(_, _)               \* sum of f[a] over a in S
SetSum(S, f) ==
    IF S = {} THEN 0
    ELSE LET a == CHOOSE a \in S : TRUE IN f[a] + SetSum(S \ {a}, f)

NItems(b)  == SetSum(Raws(b), b)
SumN(b, u) == SetSum(Raws(b), [a \in Raws(b) |-> b[a] * Val(a, u)])
(* n^2 * (sum of squared deviations from the mean), kept integer:
   sum over the items of (n*v - SumN)^2 *)
DevN(b, u) == LET k == NItems(b)
                  t == SumN(b, u)
              IN SetSum(Raws(b), [a \in Raws(b) |->
                                    b[a] * (k * Val(a, u) - t) * (k * Val(a, u) - t)])
MinN(b, u) == CHOOSE m \in Values(b, u) : \A y \in Values(b, u) : m <= y
MaxN(b, u) == CHOOSE m \in Values(b, u) : \A y \in Values(b, u) : y <= m
(* sum of the squared pairwise differences (Lagrange: n * PairN = DevN) *)
PairN(b, u) ==
    LET P == {p \in Raws(b) \X Raws(b) : p[1] < p[2]}
    IN SetSum(P, [p \in P |-> b[p[1]] * b[p[2]] * (Val(p[1], u) - Val(p[2], u))
                                                * (Val(p[1], u) - Val(p[2], u))])

Stats(b, u) ==
    IF Raws(b) = {} THEN [n |-> 0, sum |-> 0, dev |-> 0, min |-> 0, max |-> 0]
    ELSE [n |-> NItems(b), sum |-> SumN(b, u), dev |-> DevN(b, u),
          min |-> MinN(b, u), max |-> MaxN(b, u)]

EmptyBag == [a \in {} |-> 0]
BagAdd(b, a) == IF a \in DOMAIN b THEN [b EXCEPT ![a] = @ + 1]
                ELSE [x \in DOMAIN b \cup {a} |-> IF x = a THEN 1 ELSE b[x]]

(* the statistics as (unnormalised) fractions, u = unit *)
Sum(t, u)       == <<t.sum, u>>
Mean(t, u)      == IF t.n = 0 THEN Undef ELSE <<t.sum, t.n * u>>
Min(t, u)       == IF t.n = 0 THEN None ELSE <<t.min, u>>
Max(t, u)       == IF t.n = 0 THEN None ELSE <<t.max, u>>
SumSqDev(t, u)  == IF t.n = 0 THEN Zero ELSE <<t.dev, t.n * t.n * u * u>>
SampleVar(t, u) == IF t.n < 2 THEN Zero ELSE <<t.dev, t.n * t.n * (t.n - 1) * u * u>>
PopVar(t, u)    == IF t.n = 0 THEN Zero ELSE <<t.dev, t.n * t.n * t.n * u * u>>

(* what C12 demands from `op` after items with statistics t *)
SpecValue(op, t, u) ==
    CASE op = "sum"             -> Sum(t, u)
      [] op = "mean"            -> Mean(t, u)
      [] op = "min"             -> Min(t, u)
      [] op = "max"             -> Max(t, u)
      [] op = "variance"        -> SampleVar(t, u)
      [] op = "stddev"          -> SqrtOf(SampleVar(t, u))
      [] op = "formal.variance" -> PopVar(t, u)
      [] op = "formal.stddev"   -> SqrtOf(PopVar(t, u))

(* does the emitted value v denote the specified value e ? *)
Denotes(v, e) ==
    IF Len(e) = 0 \/ Len(v) = 0 THEN v = e                  \* None
    ELSE IF Len(e) # Len(v) THEN FALSE
    ELSE /\ REq(<<v[1], v[2]>>, <<e[1], e[2]>>)
         /\ Len(e) = 3 => v[3] = e[3] /\ v[1] >= 0

-----------------------------------------------------------------------------
Init ==
    /\ bag = EmptyBag /\ nrecv = 0 /\ hist = <<>> /\ unit = 1 /\ inst = POps
    /\ kmul = KMul /\ kadd = KAdd /\ done = FALSE /\ kmCalls = 0
    /\ sumAcc = SumSeed /\ meanAcc = MeanSeed /\ minAcc = None /\ maxAcc = None
    /\ wel = WelSeed /\ fAccS = FormalSeed /\ fAccR = FormalSeed
    /\ lastS = [op \in Ops |-> NoVal] /\ lastR = [op \in Ops |-> NoVal]
    /\ cntS = 0 /\ cntR = 0
    /\ st = Stats(EmptyBag, 1)

(* on_next(a / unit) of every instantiated operator *)
Item(a) ==
    /\ ~done
    /\ LET i  == KM(a, unit)                 \* key_mapper applied once
           sm == IF Has("sum")  THEN SumAccumulate(sumAcc, i)   ELSE sumAcc
           me == IF Has("mean") THEN MeanAccumulate(meanAcc, i) ELSE meanAcc
           mi == IF Has("min")  THEN MinAccumulate(minAcc, i)   ELSE minAcc
           ma == IF Has("max")  THEN MaxAccumulate(maxAcc, i)   ELSE maxAcc
           w  == IF HasWel      THEN WelAccumulate(wel, i)      ELSE wel
           fl == IF HasFormal   THEN FormalAccumulate(fAccS, i) ELSE fAccS
       IN /\ sumAcc' = sm /\ meanAcc' = me /\ minAcc' = mi /\ maxAcc' = ma /\ wel' = w
          /\ fAccS' = IF HasFormal THEN FormalListAfterMap(fl)  \* streaming: map runs per item
                      ELSE fAccS
          /\ fAccR' = IF HasFormal THEN FormalAccumulate(fAccR, i) ELSE fAccR
          /\ lastS' = [op \in Ops |-> IF Has(op) THEN MapValue(op, sm, me, mi, ma, w, fl)
                                      ELSE NoVal]
    /\ cntS' = cntS + 1
    /\ kmCalls' = kmCalls + 1
    /\ bag' = BagAdd(bag, a) /\ nrecv' = nrecv + 1
    /\ hist' = IF KeepHist THEN Append(hist, a) ELSE hist
    /\ st' = Stats(BagAdd(bag, a), unit)
    /\ UNCHANGED <<unit, kmul, kadd, inst, done, lastR, cntR>>

(* on_completed(): streaming instances emit nothing (no terminator), reduce instances
   emit map(state) -- the state is the seed when no item was received *)
Complete ==
    /\ ~done
    /\ done' = TRUE
    /\ lastR' = [op \in Ops |-> IF Has(op)
                                THEN MapValue(op, sumAcc, meanAcc, minAcc, maxAcc, wel, fAccR)
                                ELSE NoVal]
    /\ cntR' = cntR + 1
    /\ fAccR' = IF HasFormal THEN FormalListAfterMap(fAccR) ELSE fAccR
    /\ UNCHANGED <<bag, nrecv, hist, unit, kmul, kadd, inst, kmCalls, sumAcc, meanAcc, minAcc, maxAcc, wel, fAccS,
                   lastS, cntS, st>>

Feed == \E a \in Vals : nrecv < MaxLen /\ Item(a)

Next == Feed \/ Complete

Spec == Init /\ [][Next]_vars

-----------------------------------------------------------------------------
(* invariants *)
N == nrecv

(* operators excused from the streaming clauses: the code as it is (FormalClears) is
   known not to satisfy them for formal.*; FormalReport collects the failures instead *)
Excused == IF FormalClears THEN FormalOps ELSE {}

TypeOK ==
    /\ done \in BOOLEAN /\ kmCalls \in 0..MaxLen /\ unit = 1 /\ inst = POps
    /\ kmul = KMul /\ kadd = KAdd
    /\ IsRat(sumAcc) /\ IsRat(meanAcc[1]) /\ meanAcc[2] \in 0..MaxLen
    /\ (minAcc = None \/ IsRat(minAcc)) /\ (maxAcc = None \/ IsRat(maxAcc))
    /\ (wel[1] = None \/ IsRat(wel[1])) /\ IsRat(wel[2]) /\ wel[3] \in 0..MaxLen
    /\ \A j \in 1..Len(fAccS) : IsRat(fAccS[j])
    /\ \A j \in 1..Len(fAccR) : IsRat(fAccR[j])
    /\ \A op \in inst : /\ lastS[op] = NoVal \/ lastS[op] = None \/ IsRat(SquareOf(lastS[op]))
                        /\ lastR[op] = NoVal \/ lastR[op] = None \/ lastR[op] = Undef
                           \/ IsRat(SquareOf(lastR[op]))

(* the specification's own definitions agree with each other *)
SpecConsistent ==
    /\ st = Stats(bag, unit) /\ st.n = N
    /\ N >= 1 => /\ N * PairN(bag, unit) = st.dev           \* Lagrange identity
                 /\ st.min * N <= st.sum /\ st.sum <= st.max * N
                 /\ st.dev >= 0
                 /\ (Cardinality(Values(bag, unit)) = 1 <=> st.dev = 0)
                 /\ st.min \in Values(bag, unit) /\ st.max \in Values(bag, unit)
    /\ KeepHist => /\ Len(hist) = N
                   /\ \A a \in Raws(bag) : bag[a] = Cardinality({j \in 1..N : hist[j] = a})

(* Welford: after k items m is their mean and s the sum of squared deviations *)
WelfordIdentity ==
    HasWel => /\ wel[3] = N
              /\ N = 0 => wel = WelSeed
              /\ N >= 1 => REq(wel[1], Mean(st, unit)) /\ REq(wel[2], SumSqDev(st, unit))

(* the folds of sum / mean / min / max and the lists of formal.variance *)
FoldIdentity ==
    /\ Has("sum")  => REq(sumAcc, Sum(st, unit))
    /\ Has("mean") => REq(meanAcc[1], Sum(st, unit)) /\ meanAcc[2] = N
    /\ Has("min")  => Denotes(minAcc, Min(st, unit))
    /\ Has("max")  => Denotes(maxAcc, Max(st, unit))
    /\ HasFormal   => /\ Len(fAccR) = (IF done /\ FormalClears THEN 0 ELSE N)
                      /\ Len(fAccS) = (IF FormalClears THEN 0 ELSE N)

Counts == cntS = N /\ cntR = (IF done THEN 1 ELSE 0)

KeyMapperOnce == kmCalls = N

(* every streaming instance emits the statistic of the items seen so far (checked in
   every reachable state, i.e. after every item of every sequence) *)
StreamingValue ==
    N >= 1 => \A op \in inst \ Excused : Denotes(lastS[op], SpecValue(op, st, unit))

VarianceValue ==
    (N >= 1 /\ Has("variance")) =>
        /\ Denotes(lastS["variance"], SampleVar(st, unit))
        /\ N < 2 => lastS["variance"] = Zero

(* stddev^2 = variance, exactly (squares are compared) *)
SqOK(sd, var) == Len(sd) = 3 /\ sd[3] = 2 /\ sd[2] > 0 /\ SquareOf(sd) = var
StdDevSquared ==
    /\ (N >= 1 /\ Has("stddev") /\ Has("variance")) => SqOK(lastS["stddev"], lastS["variance"])
    /\ (N >= 1 /\ FormalOps \subseteq inst) =>
           SqOK(lastS["formal.stddev"], lastS["formal.variance"])
    /\ (done /\ Has("stddev") /\ Has("variance")) => SqOK(lastR["stddev"], lastR["variance"])
    /\ (done /\ FormalOps \subseteq inst) =>
           SqOK(lastR["formal.stddev"], lastR["formal.variance"])

(* formal.variance after every item = population variance of the items so far.
   Expected to FAIL with FormalClears = TRUE (the code as it is). *)
FormalStreamingOK ==
    (N >= 1 /\ Has("formal.variance")) => Denotes(lastS["formal.variance"], PopVar(st, unit))
FormalStreaming == FormalStreamingOK

(* the same property as a collector: never stops TLC, prints every failing sequence *)
FormalReport ==
    FormalStreamingOK
    \/ PrintT(<<"FORMALBAD", hist, lastS["formal.variance"], Norm(st.dev, N * N * N)>>)

(* what the faithful model predicts for the code as it is: always 0 *)
FormalFaithfulZero ==
    (FormalClears /\ N >= 1 /\ FormalOps \subseteq inst) =>
        lastS["formal.variance"] = Zero /\ lastS["formal.stddev"] = <<0, 1, 2>>

ReduceValue ==
    (done /\ N >= 1) => \A op \in inst : Denotes(lastR[op], SpecValue(op, st, unit))

StreamEqualsReduce ==
    (done /\ N >= 1) => \A op \in inst \ Excused : lastR[op] = lastS[op]

(* length 0: sum 0, min/max None, variance 0 (the mean of nothing is outside C12:
   the code raises ZeroDivisionError) *)
EmptyValues ==
    (done /\ N = 0) =>
        /\ Has("sum") => lastR["sum"] = Zero
        /\ Has("min") => lastR["min"] = None
        /\ Has("max") => lastR["max"] = None
        /\ Has("variance") => lastR["variance"] = Zero
        /\ Has("stddev") => lastR["stddev"] = <<0, 1, 2>>
        /\ Has("formal.variance") => lastR["formal.variance"] = Zero
        /\ Has("formal.stddev") => lastR["formal.stddev"] = <<0, 1, 2>>
        /\ Has("mean") => lastR["mean"] = Undef
        /\ \A op \in inst \ {"mean"} : Denotes(lastR[op], SpecValue(op, st, unit))
        /\ \A op \in inst : lastS[op] = NoVal

(* behaviour generation: the raw item sequence at every terminal state *)
EmitBehaviour == done => PrintT(<<"BEH", hist>>)
=============================================================================
