------------------------------ MODULE MathAgg ------------------------------
(***************************************************************************)
(* rxsci.math: sum, mean, min, max, variance, stddev (Welford, sample n-1), *)
(* formal.variance / formal.stddev (two-pass, population), each built on   *)
(* rs.ops.scan(accumulate, seed, reduce) followed by a map.                *)
(*                                                                         *)
(* TLC has no reals.  Every number is an exact rational <<num, den>> with  *)
(* den > 0 and gcd(num, den) = 1, so that this module decides the *algebra*  *)
(* of the operators; the floating-point clause of C12 is probed            *)
(* numerically by the harness against the definitions of the second part   *)
(* of this module evaluated exactly.                                       *)
(*                                                                         *)
(* Part 1 (implementation-shaped): one state variable per accumulator,     *)
(* updated exactly as coded, the streaming instance (reduce=False, emits   *)
(* after every item) and the reduce instance (reduce=True, emits once at   *)
(* completion) side by side.  formal.variance's map function clears the    *)
(* list that scan keeps as its state; FormalClears = TRUE is the code as   *)
(* it is, FALSE the repaired behaviour.                                    *)
(* Part 2 (specification): Mean, SampleVar, PopVar, Sum, Min, Max of the   *)
(* whole history, written over the multiset of values and not as folds.    *)
(***************************************************************************)
EXTENDS Integers, Sequences, FiniteSets, TLC

CONSTANTS VMax,          \* the environment offers the raw integer items -VMax..VMax
          MaxLen,        \* longest item sequence
          KMul, KAdd,    \* key_mapper = lambda r: KMul * r + KAdd
          FormalClears,  \* TRUE: formal._variance does acc.clear() (current code)
          POps           \* operators for which the property is asserted

VARIABLES xs,       \* history: raw items received so far (rationals)
          done,     \* completion delivered
          kmCalls,  \* number of key_mapper calls made by one operator instance
          sumAcc,   \* sum:      acc               (seed 0.0)
          meanAcc,  \* mean:     <<sum, count>>    (seed (0, 0))
          minAcc,   \* min:      None or value     (seed None)
          maxAcc,   \* max:      None or value     (seed None)
          wel,      \* variance: <<m, s, k>>       (seed (None, 0, 0))
          fAccS,    \* formal.variance, streaming instance: the list
          fAccR,    \* formal.variance, reduce instance: the list
          outS,     \* [op -> values emitted by the streaming instance]
          outR      \* [op -> values emitted by the reduce instance]

vars == <<xs, done, kmCalls, sumAcc, meanAcc, minAcc, maxAcc, wel, fAccS, fAccR, outS, outR>>

Vals == (-VMax)..VMax

Ops == {"sum", "mean", "min", "max", "variance", "stddev",
        "formal.variance", "formal.stddev"}

-----------------------------------------------------------------------------
(* exact rationals *)
Abs(a) == IF a < 0 THEN -a ELSE a

RECURSIVE GCD(_, _)
GCD(a, b) == IF b = 0 THEN a ELSE GCD(b, a % b)

LCM(a, b) == (a \div GCD(a, b)) * b

Norm(n, d) ==                       \* d # 0
    LET s == IF d < 0 THEN -1 ELSE 1
        g == GCD(Abs(n), Abs(d))
    IN <<(s * n) \div g, (s * d) \div g>>

R(i)   == <<i, 1>>
Zero   == <<0, 1>>
None   == <<>>            \* python None
Undef  == <<0, 0>>        \* ZeroDivisionError / math domain error

IsRat(p) == /\ Len(p) = 2 /\ p[2] > 0 /\ GCD(Abs(p[1]), p[2]) = 1
            /\ Abs(p[1]) < 32768 /\ p[2] < 32768    \* products stay inside 32 bits

RAdd(p, q) == LET l == LCM(p[2], q[2])
              IN Norm(p[1] * (l \div p[2]) + q[1] * (l \div q[2]), l)
RNeg(p)    == <<-p[1], p[2]>>
RSub(p, q) == RAdd(p, RNeg(q))
RMul(p, q) == LET a == Norm(p[1], q[2])      \* cross-cancel first: smaller products
                  b == Norm(q[1], p[2])
              IN Norm(a[1] * b[1], a[2] * b[2])
RDiv(p, q) == IF q[1] = 0 THEN Undef ELSE RMul(p, Norm(q[2], q[1]))
RLt(p, q)  == p[1] * q[2] < q[1] * p[2]
RLe(p, q)  == p[1] * q[2] <= q[1] * p[2]
RSq(p)     == RMul(p, p)

(* math.sqrt is kept symbolic: <<n, d, 2>> stands for (n/d)^(1/2) *)
SqrtOf(q)  == IF q = None THEN None
              ELSE IF q[2] = 0 \/ q[1] < 0 THEN <<0, 0, 2>> ELSE <<q[1], q[2], 2>>
SquareOf(r) == <<r[1], r[2]>>

-----------------------------------------------------------------------------
(* PART 1 -- the code, transcribed                                         *)

KM(r) == RAdd(RMul(R(KMul), r), R(KAdd))            \* key_mapper(i)

(* sum.py: accumulate(acc, i) = acc + key_mapper(i); seed 0.0 *)
SumSeed == Zero
SumAccumulate(acc, i) == RAdd(acc, i)

(* mean.py: accumulate = (acc[0]+i, acc[1]+1); seed (0, 0);
   map: acc[0] / acc[1] if acc is not None else None *)
MeanSeed == <<Zero, 0>>
MeanAccumulate(acc, i) == <<RAdd(acc[1], i), acc[2] + 1>>
MeanMap(acc) == RDiv(acc[1], R(acc[2]))

(* min.py / max.py: if acc is None or i < acc: acc = i; seed None *)
MinAccumulate(acc, i) == IF acc = None THEN i ELSE IF RLt(i, acc) THEN i ELSE acc
MaxAccumulate(acc, i) == IF acc = None THEN i ELSE IF RLt(acc, i) THEN i ELSE acc

(* variance.py: state (m, s, k), seed (None, 0, 0)
       k = acc[2] + 1
       if m is None: m = i
       else: m1 = m; m = m + (i - m) / k; s = s + (i - m1)*(i - m)
   map: 0.0 if acc[2] < 2 else acc[1] / (acc[2]-1) *)
WelSeed == <<None, Zero, 0>>
WelAccumulate(acc, i) ==
    LET m == acc[1]
        s == acc[2]
        k == acc[3] + 1
    IN IF m = None THEN <<i, s, k>>
       ELSE LET m1 == m
                m2 == RAdd(m, RDiv(RSub(i, m), R(k)))
                s2 == RAdd(s, RMul(RSub(i, m1), RSub(i, m2)))
            IN <<m2, s2, k>>
WelMap(acc) == IF acc[3] < 2 THEN Zero ELSE RDiv(acc[2], R(acc[3] - 1))

(* formal/__init__.py: _moment(x, c, n) = sum((x[i]-c)**n) / len(x) if len(x) > 0 else None *)
RECURSIVE RPow(_, _)
RPow(p, n) == IF n = 0 THEN R(1) ELSE RMul(p, RPow(p, n - 1))

RECURSIVE SeqSum(_)
SeqSum(s) == IF s = <<>> THEN Zero ELSE RAdd(Head(s), SeqSum(Tail(s)))

Moment(x, c, n) ==
    IF Len(x) = 0 THEN None
    ELSE RDiv(SeqSum([j \in 1..Len(x) |-> RPow(RSub(x[j], c), n)]), R(Len(x)))

(* formal/variance.py: accumulate appends to the list; seed [];
   map _variance(acc): 0.0 if empty else
       mean = _moment(acc, 0, 1); v = _moment(acc, mean, 2); acc.clear(); return v
   `acc` is the very list object scan keeps as its state (plain: closure variable,
   mux: the object held by the store), so the clear empties the operator's state. *)
FormalSeed == <<>>
FormalAccumulate(acc, i) == Append(acc, i)
FormalValue(acc) == IF Len(acc) = 0 THEN Zero ELSE Moment(acc, Moment(acc, Zero, 1), 2)
FormalListAfterMap(acc) == IF Len(acc) = 0 THEN acc ELSE IF FormalClears THEN <<>> ELSE acc

(* the value each streaming instance emits after an item, from the new accumulators *)
StreamValue(op, sm, me, mi, ma, w, fl) ==
    CASE op = "sum"             -> sm
      [] op = "mean"            -> MeanMap(me)
      [] op = "min"             -> mi
      [] op = "max"             -> ma
      [] op = "variance"        -> WelMap(w)
      [] op = "stddev"          -> SqrtOf(WelMap(w))
      [] op = "formal.variance" -> FormalValue(fl)
      [] op = "formal.stddev"   -> SqrtOf(FormalValue(fl))

Init ==
    /\ xs = <<>> /\ done = FALSE /\ kmCalls = 0
    /\ sumAcc = SumSeed /\ meanAcc = MeanSeed /\ minAcc = None /\ maxAcc = None
    /\ wel = WelSeed /\ fAccS = FormalSeed /\ fAccR = FormalSeed
    /\ outS = [op \in Ops |-> <<>>] /\ outR = [op \in Ops |-> <<>>]

(* on_next(r) of every operator; r is a rational *)
Item(r) ==
    /\ ~done
    /\ LET i  == KM(r)                       \* key_mapper applied once
           sm == SumAccumulate(sumAcc, i)
           me == MeanAccumulate(meanAcc, i)
           mi == MinAccumulate(minAcc, i)
           ma == MaxAccumulate(maxAcc, i)
           w  == WelAccumulate(wel, i)
           fl == FormalAccumulate(fAccS, i)
       IN /\ sumAcc' = sm /\ meanAcc' = me /\ minAcc' = mi /\ maxAcc' = ma /\ wel' = w
          /\ fAccS' = FormalListAfterMap(fl)      \* streaming: the map runs after every item
          /\ fAccR' = FormalAccumulate(fAccR, i)  \* reduce: nothing emitted, nothing cleared
          /\ outS' = [op \in Ops |-> Append(outS[op], StreamValue(op, sm, me, mi, ma, w, fl))]
    /\ kmCalls' = kmCalls + 1
    /\ xs' = Append(xs, r)
    /\ UNCHANGED <<done, outR>>

(* on_completed(): streaming instances emit nothing (no terminator), reduce instances
   emit map(state) -- the state is the seed when no item was received *)
Complete ==
    /\ ~done
    /\ done' = TRUE
    /\ outR' = [op \in Ops |->
                  Append(outR[op], StreamValue(op, sumAcc, meanAcc, minAcc, maxAcc, wel, fAccR))]
    /\ fAccR' = FormalListAfterMap(fAccR)
    /\ UNCHANGED <<xs, kmCalls, sumAcc, meanAcc, minAcc, maxAcc, wel, fAccS, outS>>

Next == (\E x \in Vals : Len(xs) < MaxLen /\ Item(R(x))) \/ Complete

Spec == Init /\ [][Next]_vars

-----------------------------------------------------------------------------
(* PART 2 -- the specification: statistics of the multiset of mapped items *)

Mapped(h) == [j \in 1..Len(h) |-> KM(h[j])]
Range(s)  == {s[j] : j \in 1..Len(s)}
Count(v, s) == Cardinality({j \in 1..Len(s) : s[j] = v})
Prefix(s, j) == SubSeq(s, 1, j)
Last(s) == s[Len(s)]

(* sum over the distinct values v of count(v) * w[v] *)
RECURSIVE WSum(_, _, _)
WSum(S, s, w) ==
    IF S = {} THEN Zero
    ELSE LET v == CHOOSE v \in S : TRUE
         IN RAdd(RMul(R(Count(v, s)), w[v]), WSum(S \ {v}, s, w))

Sum(s)  == WSum(Range(s), s, [v \in Range(s) |-> v])
Mean(s) == IF s = <<>> THEN Undef ELSE RDiv(Sum(s), R(Len(s)))
SumSqDev(s) == LET mu == Mean(s)
               IN WSum(Range(s), s, [v \in Range(s) |-> RSq(RSub(v, mu))])
SampleVar(s) == IF Len(s) < 2 THEN Zero ELSE RDiv(SumSqDev(s), R(Len(s) - 1))
PopVar(s)    == IF Len(s) = 0 THEN Zero ELSE RDiv(SumSqDev(s), R(Len(s)))
Min(s) == IF s = <<>> THEN None ELSE CHOOSE m \in Range(s) : \A y \in Range(s) : RLe(m, y)
Max(s) == IF s = <<>> THEN None ELSE CHOOSE m \in Range(s) : \A y \in Range(s) : RLe(y, m)

(* sum of the squared pairwise differences (Lagrange: = n * SumSqDev) *)
PairSq(s) == SeqSum([p \in 1..(Len(s) * Len(s)) |->
                 LET i == ((p - 1) \div Len(s)) + 1
                     j == ((p - 1) % Len(s)) + 1
                 IN IF i < j THEN RSq(RSub(s[i], s[j])) ELSE Zero])

(* what C12 demands from `op` after the (mapped) items s *)
SpecValue(op, s) ==
    CASE op = "sum"             -> Sum(s)
      [] op = "mean"            -> Mean(s)
      [] op = "min"             -> Min(s)
      [] op = "max"             -> Max(s)
      [] op = "variance"        -> SampleVar(s)
      [] op = "stddev"          -> SqrtOf(SampleVar(s))
      [] op = "formal.variance" -> PopVar(s)
      [] op = "formal.stddev"   -> SqrtOf(PopVar(s))

-----------------------------------------------------------------------------
(* invariants *)
M == Mapped(xs)
N == Len(xs)

TypeOK ==
    /\ done \in BOOLEAN /\ kmCalls \in 0..MaxLen
    /\ IsRat(sumAcc) /\ IsRat(meanAcc[1]) /\ meanAcc[2] \in 0..MaxLen
    /\ (minAcc = None \/ IsRat(minAcc)) /\ (maxAcc = None \/ IsRat(maxAcc))
    /\ (wel[1] = None \/ IsRat(wel[1])) /\ IsRat(wel[2]) /\ wel[3] \in 0..MaxLen
    /\ \A j \in 1..Len(fAccS) : IsRat(fAccS[j])
    /\ \A j \in 1..Len(fAccR) : IsRat(fAccR[j])

(* the specification's own definitions agree with each other *)
SpecConsistent ==
    /\ N >= 1 => /\ RMul(R(N), SumSqDev(M)) = PairSq(M)
                 /\ RLe(Min(M), Mean(M)) /\ RLe(Mean(M), Max(M))
                 /\ RMul(R(N), PopVar(M)) = SumSqDev(M)
                 /\ RLe(Zero, PopVar(M)) /\ RLe(PopVar(M), SampleVar(M))
    /\ N >= 2 => RMul(R(N - 1), SampleVar(M)) = SumSqDev(M)
    /\ (N >= 1 /\ Cardinality(Range(M)) = 1) => PopVar(M) = Zero /\ SampleVar(M) = Zero

(* Welford: after k items m is their mean and s the sum of squared deviations *)
WelfordIdentity ==
    /\ wel[3] = N
    /\ N = 0 => wel = WelSeed
    /\ N >= 1 => wel[1] = Mean(M) /\ wel[2] = SumSqDev(M)

(* the folds of sum / mean / min / max *)
FoldIdentity ==
    /\ sumAcc = Sum(M)
    /\ meanAcc = <<Sum(M), N>>
    /\ minAcc = Min(M) /\ maxAcc = Max(M)
    /\ fAccR = (IF done /\ FormalClears THEN <<>> ELSE M)

Counts ==
    \A op \in Ops : Len(outS[op]) = N /\ Len(outR[op]) = (IF done THEN 1 ELSE 0)

KeyMapperOnce == kmCalls = N

(* every streaming instance emits the statistic of the items seen so far (the earlier
   emissions were checked in the predecessor states: outS only grows by Append) *)
StreamingValue ==
    N >= 1 => \A op \in POps : Last(outS[op]) = SpecValue(op, M)

(* the same for every prefix; used at small bounds and along recorded traces *)
StreamingAll ==
    \A op \in POps : \A j \in 1..N : outS[op][j] = SpecValue(op, Prefix(M, j))

VarianceValue ==
    N >= 1 => /\ Last(outS["variance"]) = SampleVar(M)
              /\ N < 2 => Last(outS["variance"]) = Zero

(* stddev^2 = variance, exactly (squares are compared) *)
StdDevSquared ==
    /\ \A j \in 1..N : /\ Len(outS["stddev"][j]) = 3
                       /\ SquareOf(outS["stddev"][j]) = outS["variance"][j]
                       /\ outS["stddev"][j][2] > 0
                       /\ SquareOf(outS["formal.stddev"][j]) = outS["formal.variance"][j]
                       /\ outS["formal.stddev"][j][2] > 0
    /\ done => /\ SquareOf(outR["stddev"][1]) = outR["variance"][1]
               /\ SquareOf(outR["formal.stddev"][1]) = outR["formal.variance"][1]

(* formal.variance after every item = population variance of the prefix.
   Expected to FAIL with FormalClears = TRUE (the code as it is). *)
FormalStreamingOK == N >= 1 => Last(outS["formal.variance"]) = PopVar(M)
FormalStreaming == FormalStreamingOK

(* the same property as a collector: never stops TLC, prints every failing sequence *)
FormalReport ==
    FormalStreamingOK \/ PrintT(<<"FORMALBAD", xs, Last(outS["formal.variance"]), PopVar(M)>>)

(* what the faithful model predicts for the code as it is: always 0 *)
FormalFaithfulZero ==
    FormalClears => \A j \in 1..N : outS["formal.variance"][j] = Zero
                                    /\ outS["formal.stddev"][j] = <<0, 1, 2>>

ReduceValue ==
    (done /\ N >= 1) => \A op \in Ops : outR[op] = <<SpecValue(op, M)>>

StreamEqualsReduce ==
    (done /\ N >= 1) => \A op \in POps : outR[op] = <<Last(outS[op])>>

(* length 0: sum 0, min/max None, variance 0 (mean of nothing is outside C12) *)
EmptyValues ==
    (done /\ N = 0) => /\ outR["sum"] = <<Zero>>
                       /\ outR["min"] = <<None>> /\ outR["max"] = <<None>>
                       /\ outR["variance"] = <<Zero>> /\ outR["stddev"] = <<(<<0, 1, 2>>)>>
                       /\ outR["formal.variance"] = <<Zero>>
                       /\ outR["formal.stddev"] = <<(<<0, 1, 2>>)>>
                       /\ outR["mean"] = <<Undef>>
                       /\ \A op \in Ops \ {"mean"} : outR[op] = <<SpecValue(op, <<>>)>>

(* behaviour generation: the raw item sequence at every terminal state *)
EmitBehaviour == done => PrintT(<<"BEH", [j \in 1..N |-> xs[j][1]]>>)
=============================================================================
