------------------------- MODULE LengthPrefixTrace -------------------------
(***************************************************************************)
(* Trace validation for rxsci.framing.length_prefix (one batch per         *)
(* (prefix size, byte order), given as the constants P and Order).         *)
(*   [{items, cutoff, wire, chunks, outs, ended}, ...]   bytes = 0..255    *)
(* Verdict (C15): real frame() output = FrameAll(items); the payloads      *)
(* emitted by the real unframe() over all chunks = the complete frames;    *)
(* the stream completed.  Emission time is only reported (insync).         *)
(***************************************************************************)
EXTENDS LengthPrefix, Json, IOUtils

Traces == JsonDeserialize(IOEnv.TRACE_FILE)

VARIABLES tid, l, st, real, insync

tvars == <<vars, tid, l, st, real, insync>>

T == Traces[tid]

TraceInit ==
    /\ tid \in 1..Len(Traces)
    /\ l = 0 /\ st = "run" /\ real = <<>> /\ insync = TRUE
    /\ items = Traces[tid].items /\ cutoff = Traces[tid].cutoff
    /\ pos = 0 /\ acc = <<>> /\ out = <<>> /\ done = FALSE /\ hist = <<>>

Reject(step, clause) ==
    /\ PrintT(<<"VERDICT", tid, "REJECT", step, clause>>)
    /\ st' = "end"
    /\ UNCHANGED <<vars, tid, l, real, insync>>

TraceFeed ==
    /\ st = "run" /\ l < Len(T.chunks)
    /\ LET c == T.chunks[l + 1] IN
        IF l = 0 /\ T.wire # WireOf(items, cutoff) THEN Reject(0, "frame")
        ELSE IF SubSeq(WireOf(items, cutoff), pos + 1, pos + Len(c)) # c
             THEN Reject(l + 1, "model-harness-chunk")
        ELSE /\ Feed(Len(c))
             /\ real' = real \o T.outs[l + 1]
             /\ insync' = (insync /\ T.outs[l + 1] = OnNextOut(acc, c))
             /\ l' = l + 1
             /\ UNCHANGED <<tid, st>>

TraceComplete ==
    /\ st = "run" /\ l = Len(T.chunks)
    /\ IF T.wire # WireOf(items, cutoff) THEN Reject(0, "frame")
       ELSE IF pos # Len(WireOf(items, cutoff)) THEN Reject(l, "model-harness-short")
       ELSE IF out # Expected(items, cutoff) THEN Reject(l, "model-roundtrip")
       ELSE IF T.ended # "completed" THEN Reject(l + 1, "completion")
       ELSE IF real \o T.final # Expected(items, cutoff) THEN Reject(l + 1, "roundtrip")
       ELSE /\ Complete
            /\ PrintT(<<"VERDICT", tid, "ACCEPT", l + 1, insync /\ T.final = <<>> >>)
            /\ st' = "end"
            /\ UNCHANGED <<tid, l, real, insync>>

TraceNext == TraceFeed \/ TraceComplete
TraceSpec == TraceInit /\ [][TraceNext]_tvars
=============================================================================
