----------------------------- MODULE StoreTrace -----------------------------
(***************************************************************************)
(* Trace validation for rxsci.state.MemoryStore (property C14).            *)
(*                                                                         *)
(* A batch of recorded call sequences is read from IOEnv.TRACE_FILE:       *)
(*   [{dt, dflt: {t,v}, calls: [{op, i, k, a: {t,v}, mk, r: {t,v}, rl}]}]   *)
(* one trace per store instance (= per state id).  `r`/`rl` is the value   *)
(* the real store returned (scalar / list), see harness/c14_recstore.py.   *)
(*                                                                         *)
(* Every call is replayed through the actions of Store: C_<op> (the model  *)
(* of the code) and A_<op> (the dictionary).  Verdict (C14): the observed  *)
(* return value of every call agrees (Match) with what the dictionary      *)
(* returns; the REJECT clause is the name of the call.  Array contents are *)
(* never looked at.  Equality of the observed value with the result of the *)
(* code model (C_<op>) is reported only (insync).                          *)
(*                                                                         *)
(* A call outside the documented contract (get/set/del_key/…_map on a slot *)
(* that is not live, is_set beyond the largest index ever added) is not    *)
(* judged: it is noted (ooc), the index is tainted - the dictionary says   *)
(* nothing about it until it is added again - and validation goes on.      *)
(***************************************************************************)
EXTENDS Store, Json, IOUtils

Traces == JsonDeserialize(IOEnv.TRACE_FILE)

VARIABLES tid, l, st, insync, taint, ooc, mtaint

tvars == <<vars, tid, l, st, insync, taint, ooc, mtaint>>

T == Traces[tid]

KnownOps == {"add_key", "del_key", "clear", "is_cleared", "is_set", "get", "set", "iterate",
             "add_map", "get_map", "del_map", "iterate_map"}

TraceInit ==
    /\ tid \in 1..Len(Traces)
    /\ l = 0 /\ st = "run" /\ insync = TRUE /\ taint = {} /\ ooc = <<>> /\ mtaint = {}
    /\ dt = Traces[tid].dt /\ dflt = Traces[tid].dflt
    /\ InitStore

InContract(c) ==
    CASE c.op = "add_key"                 -> c.i >= 0
      [] c.op \in {"iterate", "clear"}    -> TRUE
      [] c.op \in {"is_set", "is_cleared"} -> c.i >= 0 /\ c.i < ahi /\ c.i \notin taint
      [] c.op \in {"get", "set"}          -> ~IsMapper /\ Live(c.i)
      [] c.op = "del_key"                 -> Live(c.i)
      [] OTHER                            -> IsMapper /\ Live(c.i)

(* what the dictionary / the code model return for call c in the current state *)
ARet(c) ==
    CASE c.op = "is_cleared"  -> R(AR_IsCleared(c.i))
      [] c.op = "is_set"      -> R(AR_IsSet(c.i))
      [] c.op = "get"         -> R(AR_Get(c.i))
      [] c.op = "iterate"     -> AR_Iterate
      [] c.op = "add_map"     -> AR_AddMap
      [] c.op \in {"get_map", "del_map"} -> R(AR_GetMap(c.i, c.mk))
      [] c.op = "iterate_map" -> AR_IterateMap(c.i)
      [] OTHER                -> R(None)

CRet(c) ==
    CASE c.op = "is_cleared"  -> R(CR_IsCleared(c.i))
      [] c.op = "is_set"      -> R(CR_IsSet(c.i))
      [] c.op = "get"         -> R(CR_Get(c.i))
      [] c.op = "iterate"     -> CR_Iterate
      [] c.op = "add_map"     -> R(V("int", NewIndex.index))
      [] c.op \in {"get_map", "del_map"} -> R(CR_GetMap(c.i, c.mk))
      [] c.op = "iterate_map" -> CR_IterateMap(c.i)
      [] OTHER                -> R(None)

DoC(c) ==
    CASE c.op = "add_key"     -> C_AddKey(c.i, c.k)
      [] c.op = "del_key"     -> C_DelKey(c.i)
      [] c.op = "clear"       -> C_Clear
      [] c.op = "is_cleared"  -> C_IsCleared(c.i)
      [] c.op = "is_set"      -> C_IsSet(c.i)
      [] c.op = "get"         -> C_Get(c.i)
      [] c.op = "set"         -> C_Set(c.i, c.k, c.a)
      [] c.op = "iterate"     -> C_Iterate
      [] c.op = "add_map"     -> C_AddMap(c.i, c.mk)
      [] c.op = "get_map"     -> C_GetMap(c.i, c.mk)
      [] c.op = "del_map"     -> C_DelMap(c.i, c.mk)
      [] c.op = "iterate_map" -> C_IterateMap(c.i)

DoA(c) ==
    CASE c.op = "add_key"     -> A_AddKey(c.i, c.k)
      [] c.op = "del_key"     -> A_DelKey(c.i)
      [] c.op = "clear"       -> A_Clear
      [] c.op = "is_cleared"  -> A_IsCleared(c.i)
      [] c.op = "is_set"      -> A_IsSet(c.i)
      [] c.op = "get"         -> A_Get(c.i)
      [] c.op = "set"         -> A_Set(c.i, c.k, c.a)
      [] c.op = "iterate"     -> A_Iterate
      [] c.op = "add_map"     -> A_AddMap(c.i, c.mk, c.r.v)   \* the index really handed out
      [] c.op = "get_map"     -> A_GetMap(c.i, c.mk)
      [] c.op = "del_map"     -> A_DelMap(c.i, c.mk)
      [] c.op = "iterate_map" -> A_IterateMap(c.i)

(* the observed result; enumerated entries of tainted indices are not judged *)
Obs(c) ==
    LET lst == IF c.op = "iterate" /\ taint # {}
               THEN SelectSeq(c.rl, LAMBDA e : e.i \notin taint) ELSE c.rl
    IN [t |-> c.r.t, v |-> IF c.r.t = "#list" THEN Len(lst) ELSE c.r.v, l |-> lst]

Reject(step, clause) ==
    /\ PrintT(<<"VERDICT", tid, "REJECT", step, clause>>)
    /\ st' = "end"
    /\ UNCHANGED <<vars, tid, l, insync, taint, ooc, mtaint>>

(* the model of the code follows an out-of-contract call when that is well defined *)
CDefined(c) == /\ c.op \in {"set", "get", "del_key", "is_set", "is_cleared"}
               /\ c.i >= 0 /\ c.i < Len(state)
               /\ ~IsMapper \/ c.op \in {"del_key", "is_set", "is_cleared"}

OutOfContract(c) ==
    /\ IF CDefined(c) THEN DoC(c) ELSE UNCHANGED <<conc, ret>>
    /\ aslot' = Without(aslot, c.i) /\ aret' = R(None) /\ UNCHANGED ahi
    /\ Book(c.op, c.i, 0, None, -1)
    /\ taint' = taint \cup {c.i}
    /\ ooc' = IF Len(ooc) < 5 THEN Append(ooc, l + 1) ELSE ooc   \* keeps the verdict on one line
    /\ l' = l + 1
    /\ UNCHANGED <<tid, st, insync, mtaint>>

(* del_map is not among the operations C14 speaks about (today it is a lookup that
   keeps the mapping; a store that really deleted the mapping would be as good): its
   result is not judged, and what the maps of that index answer is not judged any more
   until the index is added again (mtaint).  Everything else keeps being judged. *)
TraceStep ==
    /\ st = "run" /\ l < Len(T.calls)
    /\ LET c == T.calls[l + 1] IN
        IF c.op \notin KnownOps THEN Reject(l + 1, "model-unknown-op")
        ELSE IF ~InContract(c) THEN OutOfContract(c)
        ELSE IF ~(c.op = "del_map" \/ (c.op \in {"get_map", "iterate_map", "add_map"} /\ c.i \in mtaint))
                /\ ~Match(c.op, Obs(c), ARet(c)) THEN Reject(l + 1, c.op)
        ELSE /\ DoC(c) /\ DoA(c)
             /\ Book(c.op, c.i, 0, None, -1)
             /\ insync' = (insync /\ (ooc # <<>> \/ Obs(c) = CRet(c)))
             /\ taint' = IF c.op = "add_key" THEN taint \ {c.i}
                         ELSE IF c.op = "clear" THEN {} ELSE taint
             /\ mtaint' = IF c.op = "del_map" THEN mtaint \cup {c.i}
                          ELSE IF c.op = "add_key" THEN mtaint \ {c.i}
                          ELSE IF c.op = "clear" THEN {} ELSE mtaint
             /\ l' = l + 1
             /\ UNCHANGED <<tid, st, ooc>>

TraceEnd ==
    /\ st = "run" /\ l = Len(T.calls)
    /\ PrintT(<<"VERDICT", tid, "ACCEPT", l, insync, ooc>>)
    /\ st' = "end"
    /\ UNCHANGED <<vars, tid, l, insync, taint, ooc, mtaint>>

TraceNext == TraceStep \/ TraceEnd

TraceSpec == TraceInit /\ [][TraceNext]_tvars

(* the design-level invariants must also hold along every real trace (as long as the
   model of the code and the real code agree) *)
TraceInvariants ==
    (st = "run" /\ insync /\ ooc = <<>> /\ mtaint = {}) =>
        /\ RetEqualsModel /\ AllocatorFresh
        /\ Len(state) <= 50 => Refines      \* (quadratic on the long arrays of sparse indices)
=============================================================================
