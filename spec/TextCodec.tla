----------------------------- MODULE TextCodec -----------------------------
(***************************************************************************)
(* rxsci.data.codec: encode() turns strings into bytes with one Python     *)
(* incremental encoder per subscription, decode() turns an arbitrarily     *)
(* chunked byte stream back into text with one incremental decoder per     *)
(* subscription and a final flush at completion.                           *)
(*                                                                         *)
(* Python's codecs are black boxes; they are axiomatised:                  *)
(*  - a character (a code point) occupies WidthOf(cp) bytes of the wire,   *)
(*  - the incremental encoder of utf-16/utf-32 writes a byte-order mark    *)
(*    in front of the output of its *first* encode() call (whatever the    *)
(*    text, even ''), the stateless str.encode() writes one per call,      *)
(*  - the incremental decoder keeps the bytes of an incomplete unit        *)
(*    (character or BOM) and releases a character when its last byte has   *)
(*    arrived; the first unit of a utf-16/32 stream, a BOM, is consumed    *)
(*    silently, any later BOM unit is the character U+FEFF,                *)
(*  - decode(b'', final=True) raises if an incomplete unit is buffered.    *)
(* The axioms are validated on recorded executions (TextCodecTrace).       *)
(*                                                                         *)
(* A wire byte is not a value 0..255 but a tag: which unit it belongs to   *)
(* and its position in the unit.  The environment cuts the wire anywhere   *)
(* (Feed(n), n may be 0, inside a character, inside the BOM) and may end   *)
(* the stream inside a unit (AllowTrunc).                                  *)
(*                                                                         *)
(* Property C17: the decoded text is a function of the delivered prefix    *)
(* only (Confluence), equals the input at completion (RoundTrip), there is *)
(* exactly one BOM on the wire (OneBOM); nothing lost/duplicated/replaced. *)
(***************************************************************************)
EXTENDS Integers, Sequences, TLC

CONSTANTS Enc,        \* encoding family: "utf-8" | "utf-16" | "utf-32" | "latin-1"
          BomLen,     \* bytes of BOM the codec writes/consumes: 0 | 2 | 4
          Palette,    \* code points explored by the model
          MaxStrings, MaxLen, MaxChunk,
          IncModes,   \* subset of BOOLEAN: values of encode(incremental=...) explored
          AllowTrunc, \* TRUE: the environment may end the stream inside a unit
          MaxZeros,   \* behaviour generation: empty chunks per behaviour
          KeepHist    \* TRUE: record the cut vector (behaviour generation)

ASSUME /\ Enc \in {"utf-8", "utf-16", "utf-32", "latin-1"}
       /\ BomLen \in {0, 2, 4}
       /\ BomLen > 0 => (Enc = "utf-16" /\ BomLen = 2) \/ (Enc = "utf-32" /\ BomLen = 4)

VARIABLES strings,  \* the input: a sequence of strings (sequences of code points)
          encinc,   \* encode(incremental=encinc)
          ph,       \* "enc" (encoder running) | "dec" (decoder running) | "done"
          ei,       \* encode(): number of strings received
          bomdone,  \* encode(): the incremental encoder has written its BOM
          wire,     \* concatenated encoder output: sequence of tagged bytes
          pos,      \* number of wire bytes delivered to decode()
          pending,  \* decode(): bytes buffered inside the incremental decoder
          bomseen,  \* decode(): the decoder has consumed the leading BOM
          out,      \* decode(): concatenation of the text emitted so far
          ended,    \* "open" | "completed" | "error"
          hist      \* history: sizes of the chunks fed (only if KeepHist)

vars == <<strings, encinc, ph, ei, bomdone, wire, pos, pending, bomseen, out, ended, hist>>

BOMCP == 65279      \* U+FEFF

SeqsUpTo(S, n) == UNION {[1..m -> S] : m \in 0..n}

(* concatenation / sum over an index range, by halving (recursion depth log n) *)
RECURSIVE ConcatR(_, _, _)
ConcatR(f, lo, hi) ==
    IF lo > hi THEN <<>>
    ELSE IF lo = hi THEN f[lo]
    ELSE LET mid == (lo + hi) \div 2 IN ConcatR(f, lo, mid) \o ConcatR(f, mid + 1, hi)
Concat(ss) == ConcatR(ss, 1, Len(ss))

RECURSIVE SumR(_, _, _)
SumR(f, lo, hi) ==
    IF lo > hi THEN 0
    ELSE IF lo = hi THEN f[lo]
    ELSE LET mid == (lo + hi) \div 2 IN SumR(f, lo, mid) + SumR(f, mid + 1, hi)

-----------------------------------------------------------------------------
(* axiom: bytes per character *)
WidthOf(cp) ==
    CASE Enc = "utf-8"   -> IF cp < 128 THEN 1 ELSE IF cp < 2048 THEN 2
                            ELSE IF cp < 65536 THEN 3 ELSE 4
      [] Enc = "utf-16"  -> IF cp < 65536 THEN 2 ELSE 4
      [] Enc = "utf-32"  -> 4
      [] Enc = "latin-1" -> 1

(* tagged wire bytes: k = "c" (character) | "b" (byte-order mark), c = code point,
   i = index of the character in the whole input, p = position in the unit, w = unit size *)
CharBytes(cp, idx) ==
    [p \in 1..WidthOf(cp) |-> [k |-> "c", c |-> cp, i |-> idx, p |-> p, w |-> WidthOf(cp)]]
BomBytes ==
    [p \in 1..BomLen |-> [k |-> "b", c |-> BOMCP, i |-> 0, p |-> p, w |-> BomLen]]
StrBytes(s, base) == Concat([j \in 1..Len(s) |-> CharBytes(s[j], base + j)])

(* IncrementalEncoder.encode(s): BOM in front of the first output *)
EncoderEncode(written, s, base) ==
    (IF BomLen > 0 /\ ~written THEN BomBytes ELSE <<>>) \o StrBytes(s, base)
(* str.encode(encoding): independent data, BOM every time *)
StatelessEncode(s, base) == BomBytes \o StrBytes(s, base)

(* IncrementalDecoder.decode(chunk): complete units are consumed, the rest is kept.
   The units of `buf` are contiguous and buf starts at a unit boundary. *)
IsLast(b) == b.p = b.w
UnitsIn(buf) == SelectSeq(buf, IsLast)
DecRelease(buf, seen) ==
    LET u == UnitsIn(buf)
        v == IF ~seen /\ u # <<>> /\ u[1].k = "b" THEN Tail(u) ELSE u
    IN [j \in 1..Len(v) |-> v[j].c]
DecRest(buf) ==
    IF buf = <<>> THEN <<>>
    ELSE LET b == buf[Len(buf)] IN
         IF IsLast(b) THEN <<>> ELSE SubSeq(buf, Len(buf) - b.p + 1, Len(buf))
DecSeen(buf, seen) == seen \/ UnitsIn(buf) # <<>>

-----------------------------------------------------------------------------
(* specification-level definitions: the text, and positions computed from the widths.
   TLC re-evaluates a definition at every use, so the invariants bind Input once
   with LET and pass it on. *)
Input    == Concat(strings)
NChars   == Len(Input)
WidthsOf(inp) == [j \in 1..Len(inp) |-> WidthOf(inp[j])]
EndOffIn(inp, m) == BomLen + SumR(WidthsOf(inp), 1, m)   \* wire offset where character m ends
EndOff(m) == LET inp == Input IN EndOffIn(inp, m)
(* what the documented "independent data" mode (incremental=False) produces when
   decoded incrementally: every BOM but the first becomes U+FEFF *)
IndependentText ==
    Concat([j \in 1..Len(strings) |->
               (IF BomLen > 0 /\ j > 1 THEN <<BOMCP>> ELSE <<>>) \o strings[j]])

-----------------------------------------------------------------------------
Init ==
    /\ strings \in SeqsUpTo(SeqsUpTo(Palette, MaxLen), MaxStrings)
    /\ encinc \in IncModes
    /\ ph = "enc" /\ ei = 0 /\ bomdone = FALSE /\ wire = <<>>
    /\ pos = 0 /\ pending = <<>> /\ bomseen = (BomLen = 0) /\ out = <<>>
    /\ ended = "open" /\ hist = <<>>

CharsBefore(j) == SumR([q \in 1..Len(strings) |-> Len(strings[q])], 1, j)

(* encode().on_next(i): incremental -> encoder.encode(i), else i.encode(encoding) *)
EncNext ==
    /\ ph = "enc" /\ ei < Len(strings)
    /\ LET s == strings[ei + 1]
           data == IF encinc THEN EncoderEncode(bomdone, s, CharsBefore(ei))
                   ELSE StatelessEncode(s, CharsBefore(ei))
       IN wire' = wire \o data
    /\ bomdone' = (bomdone \/ encinc)
    /\ ei' = ei + 1
    /\ UNCHANGED <<strings, encinc, ph, pos, pending, bomseen, out, ended, hist>>

(* encode().on_completed(): incremental -> emit encoder.encode('', final=True) *)
EncComplete ==
    /\ ph = "enc" /\ ei = Len(strings)
    /\ wire' = wire \o (IF encinc THEN EncoderEncode(bomdone, <<>>, NChars) ELSE <<>>)
    /\ bomdone' = (bomdone \/ encinc)
    /\ ph' = "dec"
    /\ UNCHANGED <<strings, encinc, ei, pos, pending, bomseen, out, ended, hist>>

(* decode().on_next(chunk): emit decoder.decode(chunk) *)
Feed(n) ==
    /\ ph = "dec"
    /\ pos + n <= Len(wire)
    /\ LET buf == pending \o SubSeq(wire, pos + 1, pos + n) IN
         /\ out' = out \o DecRelease(buf, bomseen)
         /\ pending' = DecRest(buf)
         /\ bomseen' = DecSeen(buf, bomseen)
    /\ pos' = pos + n
    /\ hist' = IF KeepHist THEN Append(hist, n) ELSE hist
    /\ UNCHANGED <<strings, encinc, ph, ei, bomdone, wire, ended>>

(* decode().on_completed(): emit decoder.decode(b'', final=True) -- it is '' when
   nothing is buffered and raises otherwise -- then complete.  The environment ends
   the stream after the whole wire, or (AllowTrunc) inside a unit. *)
Complete ==
    /\ ph = "dec"
    /\ pos = Len(wire) \/ (AllowTrunc /\ pending # <<>>)
    /\ ended' = IF pending = <<>> THEN "completed" ELSE "error"
    /\ ph' = "done"
    /\ UNCHANGED <<strings, encinc, ei, bomdone, wire, pos, pending, bomseen, out, hist>>

Next == EncNext \/ EncComplete \/ (\E n \in 0..MaxChunk : Feed(n)) \/ Complete

Spec == Init /\ [][Next]_vars

-----------------------------------------------------------------------------
TypeOK ==
    /\ ph \in {"enc", "dec", "done"} /\ ended \in {"open", "completed", "error"}
    /\ pos \in 0..Len(wire) /\ ei \in 0..Len(strings)
    /\ encinc \in BOOLEAN /\ bomdone \in BOOLEAN /\ bomseen \in BOOLEAN
    /\ Len(pending) <= 3

(* exactly one BOM, at the very start, whenever the encoder ran (incremental mode) *)
BomPositions == {j \in 1..Len(wire) : wire[j].k = "b"}
OneBOMAlways == ph # "enc" => /\ BomPositions = 1..BomLen
                              /\ Len(wire) = EndOff(NChars)
OneBOM == encinc => OneBOMAlways

(* chunk-boundary independence: decoder state = function of the delivered prefix.
   m characters are out; they are exactly those that end at or before pos. *)
ConfluenceAlways ==
    ph = "dec" =>
        LET inp == Input
            m == Len(out)
            endm == EndOffIn(inp, m)
            b == IF m = 0 /\ pos < BomLen THEN 0 ELSE endm       \* last unit boundary <= pos
        IN /\ m <= Len(inp)
           /\ out = SubSeq(inp, 1, m)
           /\ b <= pos
           /\ m < Len(inp) => endm + WidthOf(inp[m + 1]) > pos
           /\ pending = SubSeq(wire, b + 1, pos)
Confluence == encinc => ConfluenceAlways

(* nothing is emitted before it has been completely received; nothing is replaced *)
NoEarlyOutput == encinc /\ Len(out) > 0 =>
                    LET inp == Input IN Len(out) <= Len(inp) /\ EndOffIn(inp, Len(out)) <= pos
PrefixOK == encinc => LET inp == Input IN Len(out) <= Len(inp) /\ out = SubSeq(inp, 1, Len(out))

(* the final flush has nothing to flush on a well-formed stream *)
FlushEmpty == encinc /\ ph = "dec" /\ pos = Len(wire) => pending = <<>>

RoundTripAlways ==
    ph = "done" =>
        IF pos = Len(wire) THEN ended = "completed" /\ out = Input
        ELSE ended = "error"          \* a stream cut inside a unit is flagged, not shortened
RoundTrip == encinc => RoundTripAlways

(* outside C17: the documented behaviour of incremental=False *)
IndependentMode == ~encinc /\ ph = "done" /\ pos = Len(wire) => out = IndependentText

(* bound for behaviour generation: empty chunks would otherwise repeat for ever *)
Zeros(h) == Len(SelectSeq(h, LAMBDA x : x = 0))
HistBound == Zeros(hist) <= MaxZeros

(* behaviour generation: print the input and the environment choices at the end *)
EmitBehaviour ==
    ph = "done" => PrintT(<<"BEH", strings, encinc, hist, pos < Len(wire)>>)
=============================================================================
