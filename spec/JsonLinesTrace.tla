-------------------------- MODULE JsonLinesTrace --------------------------
(***************************************************************************)
(* Trace validation for rxsci.container.json dump_to_file/load_from_file.  *)
(* A batch of recorded executions of the real code is read from            *)
(* IOEnv.TRACE_FILE.  One recorded execution:                              *)
(*                                                                         *)
(*   nobjs      number of objects dumped (object ids are 1..nobjs)         *)
(*   comp       0 / 1 (codec: "none" | "gzip" | "zstd", informational)     *)
(*   rawnl      a raw newline occurs inside a line produced by dump()      *)
(*   linebytes, linechars   real length of every dumped line               *)
(*   realreads  real size of every non-empty read                          *)
(*   realdeliv  real number of plain bytes the bytes read so far determine *)
(*              (= bytes read; with compression: what a reference          *)
(*              decompressor fed with the same reads has released)         *)
(*   replayable the written file is the concatenation of the dumped lines; *)
(*              then the following *down-scaled* image of the execution    *)
(*              is given: the order of all line ends, read / release       *)
(*              boundaries and of the characters cut by a boundary is      *)
(*              preserved, runs of other characters are collapsed:         *)
(*     objs       text of every line in model symbols                      *)
(*     wire       compressed file in model units (HDR, data units, TRL)    *)
(*     reads      size of every read in model units                        *)
(*   timed      emission times were observed (reads went through a file    *)
(*              object of the harness)                                     *)
(*   emitted    ids of the items emitted after every read; final: after    *)
(*              the empty read.  id 0 = an item that is no dumped object   *)
(*   badvalue   ids whose loaded value differs from the dumped one         *)
(*   ended      "completed" or "error:..."                                 *)
(*                                                                         *)
(* TLC replays the execution read by read through the stage models of      *)
(* JsonLines (Deliver, Complete) and prints one verdict per trace.         *)
(* Verdict (C19), clauses:                                                 *)
(*   completion                  error on a well-formed file               *)
(*   roundtrip-duplicate / -missing / -order / -value                      *)
(*   framing-broken-by-newline   any of the above when rawnl               *)
(*   early-output                an item emitted before the bytes that     *)
(*                               contain the end of its line were read     *)
(* Emission *time* (which read) is compared with the model too but only    *)
(* reported (insync).  Clauses model-* flag an inconsistent harness/spec.   *)
(***************************************************************************)
EXTENDS JsonLines, Json, IOUtils

Traces == JsonDeserialize(IOEnv.TRACE_FILE)

VARIABLES tid, l, st, real, insync

tvars == <<vars, tid, l, st, real, insync>>

T == Traces[tid]
N == T.nobjs

RECURSIVE SumSeq(_)
SumSeq(s) == IF s = <<>> THEN 0 ELSE Head(s) + SumSeq(Tail(s))

TraceInit ==
    /\ tid \in 1..Len(Traces)
    /\ l = 0 /\ st = "run" /\ real = <<>> /\ insync = TRUE
    /\ objs = (IF Traces[tid].replayable THEN Traces[tid].objs ELSE <<>>)
    /\ comp = Traces[tid].comp
    /\ kind = "obj" /\ R = 0
    /\ text = TextOfAll(objs)
    /\ plain = PlainOf(objs)
    /\ file = (IF comp = 1 /\ Traces[tid].replayable THEN Traces[tid].wire ELSE plain)
    /\ pos = 0 /\ rel = 0 /\ eof = FALSE /\ pend = <<>> /\ acc = <<>> /\ loaded = <<>>
    /\ done = FALSE /\ err = "none" /\ hist = <<>>

Reject(step, clause) ==
    /\ PrintT(<<"VERDICT", tid, "REJECT", step, clause>>)
    /\ st' = "end"
    /\ UNCHANGED <<vars, tid, l, real, insync>>

(* the recorded numbers are consistent with each other and with the down-scaled image *)
HarnessOK ==
    /\ Len(T.emitted) = Len(T.reads)
    /\ Len(T.realreads) = Len(T.reads) /\ Len(T.realdeliv) = Len(T.reads)
    /\ Len(T.linebytes) = N /\ Len(T.linechars) = N
    /\ \A j \in 1..N : T.linechars[j] <= T.linebytes[j]
    /\ \A j \in 1..Len(T.reads) : T.reads[j] > 0 /\ T.realreads[j] > 0
    /\ T.replayable =>
        /\ Len(objs) = N
        /\ SumSeq(T.reads) <= Len(file)
        /\ \A j \in 1..N :
             /\ objs[j] # <<>> /\ \A q \in 1..Len(objs[j]) : objs[j][q] # NL
             /\ ByteLen(objs[j]) + 1 <= T.linebytes[j]
             /\ Len(objs[j]) + 1 <= T.linechars[j]
        /\ comp = 1 => /\ Len(file) >= 2 /\ file[1] = HDR /\ file[Len(file)] = TRL
                       /\ \A j \in 1..Len(file) : file[j] >= TRL
                       /\ Cap(Len(file)) = Len(plain)
                       /\ FrameComplete(Len(file)) /\ ~FrameComplete(Len(file) - 1)

RealLinesWithin(d) == CountWithin(T.linebytes, 1, 0, d)

TraceRead ==
    /\ st = "run" /\ l < Len(T.reads)
    /\ IF l = 0 /\ ~HarnessOK THEN Reject(0, "model-harness")
       ELSE IF ~T.replayable
       THEN /\ real' = real \o T.emitted[l + 1]
            /\ insync' = FALSE
            /\ l' = l + 1
            /\ UNCHANGED <<vars, tid, st>>
       ELSE LET n   == T.reads[l + 1]
                r   == IF comp = 1 THEN Cap(pos + n) ELSE pos + n
                got == T.emitted[l + 1]
                was == Len(loaded)
            IN IF T.timed /\ \E q \in 1..Len(got) :
                                got[q] \in 1..N /\ got[q] > LinesWithin(Avail(pos + n))
               THEN Reject(l + 1, "early-output")
               ELSE IF LinesWithin(r) # RealLinesWithin(T.realdeliv[l + 1])
               THEN Reject(l + 1, "model-downscale")
               ELSE /\ Deliver(n, r)
                    /\ real' = real \o got
                    /\ insync' = (insync /\ (~T.timed \/
                           got = [q \in 1..(Len(loaded') - was) |-> was + q]))
                    /\ l' = l + 1
                    /\ UNCHANGED <<tid, st, hist>>

(* the observable outcome, judged against the dumped objects 1..N *)
Outcome(all) ==
    LET ids     == {all[q] : q \in 1..Len(all)}
        dup     == \E q1, q2 \in 1..Len(all) : q1 < q2 /\ all[q1] = all[q2] /\ all[q1] \in 1..N
        missing == \E i \in 1..N : i \notin ids
        alien   == \E q \in 1..Len(all) : all[q] \notin 1..N
        c0 == IF T.ended # "completed" THEN "completion"
              ELSE IF dup THEN "roundtrip-duplicate"
              ELSE IF missing THEN "roundtrip-missing"
              ELSE IF alien THEN "roundtrip-value"
              ELSE IF all # [q \in 1..N |-> q] THEN "roundtrip-order"
              ELSE IF T.badvalue # <<>> THEN "roundtrip-value"
              ELSE "ok"
    IN IF c0 # "ok" /\ T.rawnl THEN "framing-broken-by-newline" ELSE c0

TraceComplete ==
    /\ st = "run" /\ l = Len(T.reads)
    /\ LET all      == real \o T.final
           whole    == T.replayable /\ pos = Len(file)   \* the model can complete as well
           modelout == LoadLines(LF!OnCompletedOut(acc))
       IN IF l = 0 /\ ~HarnessOK THEN Reject(0, "model-harness")
          ELSE IF whole /\ ~(loaded \o modelout = objs /\ pend = <<>> /\ (comp = 1 => eof))
          THEN Reject(l, "model-roundtrip")
          ELSE IF Outcome(all) # "ok" THEN Reject(l + 1, Outcome(all))
          ELSE /\ IF whole THEN Complete ELSE UNCHANGED vars
               /\ PrintT(<<"VERDICT", tid, "ACCEPT", l + 1,
                           insync /\ whole /\ (~T.timed \/ T.final = modelout)>>)
               /\ st' = "end"
               /\ UNCHANGED <<tid, l, real, insync>>

TraceNext == TraceRead \/ TraceComplete

TraceSpec == TraceInit /\ [][TraceNext]_tvars

(* the design-level invariants must also hold along every replayed execution *)
TraceConfluence ==
    st = "run" /\ T.replayable =>
        /\ ConfluenceRead /\ ConfluenceDecompress /\ ConfluenceLoad /\ PrefixOfDumped
        /\ NoEarlyOutput /\ NoError
        /\ Len(plain) <= 200 => ConfluenceDecode /\ ConfluenceUnframe
=============================================================================
