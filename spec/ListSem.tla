------------------------------ MODULE ListSem ------------------------------
(***************************************************************************)
(* Layer A: list semantics.  For one key lifetime with input items xs,     *)
(*   R(op, xs)  = what the operator has emitted once xs has been consumed  *)
(*                (prefix-monotone: R(xs \o <<x>>) extends R(xs)),         *)
(*   F(op, xs)  = what it emits at the key's completion.                   *)
(* Outputs are values; an exception token stands for a mux error event.    *)
(* For the key-creating operators, Plan(op, xs) is the partition of the    *)
(* parent's items into child lifetimes (windows, runs, groups, sessions).  *)
(* Nothing here looks like the implementation: no store, no slots.         *)
(***************************************************************************)
EXTENDS FnLib

Min2(a, b) == IF a < b THEN a ELSE b
Max2(a, b) == IF a > b THEN a ELSE b
Take(xs, n) == SubSeq(xs, 1, Min2(n, Len(xs)))
Last(xs) == xs[Len(xs)]
Rep(v, n) == [j \in 1..n |-> v]

RECURSIVE Flatten(_)
Flatten(ss) == IF ss = <<>> THEN <<>> ELSE Head(ss) \o Flatten(Tail(ss))

RECURSIVE SumSeq(_)
SumSeq(ns) == IF ns = <<>> THEN 0 ELSE Head(ns) + SumSeq(Tail(ns))

(* --------------------------------------------------------------------- *)
(* scan: running left fold; a raising accumulator yields an error entry   *)
(* and leaves the accumulator unchanged                                   *)
RECURSIVE ScanRun(_, _, _)      \* -> <<outputs, final accumulator>>
ScanRun(f, acc, xs) ==
    IF xs = <<>> THEN << <<>>, acc >>
    ELSE LET r == Apply2(f, acc, Head(xs)) IN
         IF IsErr(r)
         THEN LET t == ScanRun(f, acc, Tail(xs)) IN << <<r>> \o t[1], t[2] >>
         ELSE LET t == ScanRun(f, r, Tail(xs)) IN << <<r>> \o t[1], t[2] >>

ScanR(op, xs) ==
    LET run == ScanRun(op.f, op.seed, xs)[1]
    IN IF op.reduce THEN SelectSeq(run, IsErr) ELSE run

ScanF(op, xs) ==
    LET acc == ScanRun(op.f, op.seed, xs)[2]
    IN IF op.term.n # "none" THEN <<Apply(op.term, acc)>>
       ELSE IF op.reduce THEN <<acc>> ELSE <<>>

(* mappers applied item-wise; an exception token replaces the item *)
MapSeq(f, xs) == [j \in 1..Len(xs) |-> Apply(f, xs[j])]

RECURSIVE FilterSeq(_, _)
FilterSeq(p, xs) ==
    IF xs = <<>> THEN <<>>
    ELSE LET r == Test(p, Head(xs)) IN
         IF r = BoolV(TRUE) THEN <<Head(xs)>> \o FilterSeq(p, Tail(xs))
         ELSE IF r = BoolV(FALSE) THEN FilterSeq(p, Tail(xs))
         ELSE <<r>> \o FilterSeq(p, Tail(xs))

(* "seqc" is a key function that is not a function of the item: the j-th call returns
   (j - 1) % c (a round-robin dispatcher).  It is evaluated once per item, in order; only used
   where the operator sees a single key lifetime, so that j is the item's position. *)
KeysOf(f, xs) == [j \in 1..Len(xs) |-> IF f.n = "seqc" THEN IntV((j - 1) % f.c) ELSE Apply(f, xs[j])]

PrefixSums(ns) == [j \in 1..Len(ns) |-> SumSeq(SubSeq(ns, 1, j))]

RECURSIVE RunMin(_, _)
RunMin(ns, j) == IF j = 1 THEN ns[1] ELSE Min2(RunMin(ns, j - 1), ns[j])
RECURSIVE RunMax(_, _)
RunMax(ns, j) == IF j = 1 THEN ns[1] ELSE Max2(RunMax(ns, j - 1), ns[j])

ClipV(op, x) ==
    LET a == IF IsNone(op.hi) THEN V(x) ELSE Min2(V(x), V(op.hi))
        b == IF IsNone(op.lo) THEN a ELSE Max2(a, V(op.lo))
    IN IntV(b)

(* assert_: items up to (excluding) the first failing one *)
RECURSIVE AssertPrefix(_, _)
AssertPrefix(p, xs) ==
    IF xs = <<>> THEN <<>>
    ELSE IF Test(p, Head(xs)) = BoolV(TRUE) THEN <<Head(xs)>> \o AssertPrefix(p, Tail(xs))
    ELSE <<>>

RECURSIVE Assert1Len(_, _, _)   \* number of items that pass
Assert1Len(p, xs, j) ==
    IF j > Len(xs) THEN Len(xs)
    ELSE IF j = 1 \/ Test2(p, xs[j - 1], xs[j]) = TRUE THEN Assert1Len(p, xs, j + 1)
    ELSE j - 1

(* --------------------------------------------------------------------- *)
(* stable sort by key (python sorted(): equal keys keep their arrival order, also
   with reverse=True) *)
RECURSIVE InsertSorted(_, _, _, _)
InsertSorted(sorted, x, kf, rev) ==
    \* insert x after every element that is not strictly "after" it
    IF sorted = <<>> THEN <<x>>
    ELSE LET h == Head(sorted)
             kh == V(Apply(kf, h))
             kx == V(Apply(kf, x))
             xBeforeH == IF rev THEN kx > kh ELSE kx < kh
         IN IF xBeforeH THEN <<x>> \o sorted
            ELSE <<h>> \o InsertSorted(Tail(sorted), x, kf, rev)

RECURSIVE StableSort(_, _, _)
StableSort(xs, kf, rev) ==
    IF xs = <<>> THEN <<>>
    ELSE InsertSorted(StableSort(SubSeq(xs, 1, Len(xs) - 1), kf, rev), xs[Len(xs)], kf, rev)

R(op, xs) ==
    LET n == Len(xs) IN
    CASE op.op = "map"       -> MapSeq(op.f, xs)
      [] op.op = "starmap"   -> [j \in 1..n |-> ApplyStar(op.f, xs[j])]
      [] op.op = "filter"    -> FilterSeq(op.p, xs)
      [] op.op = "flat_map"  -> Flatten([j \in 1..n |-> V(xs[j])])
      [] op.op \in {"identity", "do_action", "progress", "ignore", "errmap", "router"} -> xs
      [] op.op = "clip"      -> [j \in 1..n |-> ClipV(op, xs[j])]
      [] op.op = "fill_none" -> [j \in 1..n |-> IF IsNone(xs[j]) THEN op.v ELSE xs[j]]
      [] op.op = "scan"      -> ScanR(op, xs)
      [] op.op = "count"     -> IF op.reduce THEN <<>> ELSE [j \in 1..n |-> IntV(j)]
      [] op.op = "sum"       -> IF op.reduce THEN <<>>
                                ELSE LET ps == PrefixSums([j \in 1..n |-> V(Apply(op.f, xs[j]))])
                                     IN [j \in 1..n |-> IntV(ps[j])]
      [] op.op = "mean"      -> IF op.reduce THEN <<>>
                                ELSE LET ps == PrefixSums([j \in 1..n |-> V(Apply(op.f, xs[j]))])
                                     IN [j \in 1..n |-> RatV(ps[j], j)]
      [] op.op = "min"       -> IF op.reduce THEN <<>>
                                ELSE LET ks == [j \in 1..n |-> V(Apply(op.f, xs[j]))]
                                     IN [j \in 1..n |-> IntV(RunMin(ks, j))]
      [] op.op = "max"       -> IF op.reduce THEN <<>>
                                ELSE LET ks == [j \in 1..n |-> V(Apply(op.f, xs[j]))]
                                     IN [j \in 1..n |-> IntV(RunMax(ks, j))]
      [] op.op = "first"     -> Take(xs, 1)
      [] op.op = "take"      -> Take(xs, op.n)
      [] op.op \in {"last", "to_list", "to_array", "pad_end", "sort", "dist"} ->
             IF op.op = "pad_end" THEN xs ELSE <<>>
      [] op.op = "distinct"  -> LET ks == KeysOf(op.f, xs) IN
             SelectSeq([j \in 1..n |-> <<j, xs[j]>>],
                       LAMBDA e : \A q \in 1..(e[1] - 1) : ks[q] # ks[e[1]])
      [] op.op = "duc"       -> LET ks == KeysOf(op.f, xs) IN
             SelectSeq([j \in 1..n |-> <<j, xs[j]>>],
                       LAMBDA e : e[1] = 1 \/ NeqV(ks[e[1]], ks[e[1] - 1]))
      [] op.op = "lag"       -> [j \in 1..n |-> TupV(<<xs[Max2(1, j - op.n)], xs[j]>>)]
      [] op.op = "pad_start" -> IF n = 0 THEN <<>>
                                ELSE Rep(IF IsNone(op.v) THEN xs[1] ELSE op.v, op.n) \o xs
      [] op.op = "start_with" -> IF n = 0 THEN <<>> ELSE op.p \o xs
      [] op.op = "batch"     -> [j \in 1..(n \div op.n) |->
                                    LstV(SubSeq(xs, (j - 1) * op.n + 1, j * op.n))]
      [] op.op = "assert"    -> AssertPrefix(op.p, xs)
      [] op.op = "assert1"   -> SubSeq(xs, 1, Assert1Len(op.p, xs, 1))

(* distinct / duc return <<index, item>> pairs above: strip the index *)
RR(op, xs) ==
    IF op.op \in {"distinct", "duc"} THEN LET r == R(op, xs) IN [j \in 1..Len(r) |-> r[j][2]]
    ELSE R(op, xs)

F(op, xs) ==
    LET n == Len(xs) IN
    CASE op.op = "scan"     -> ScanF(op, xs)
      [] op.op = "count"    -> IF op.reduce THEN <<IntV(n)>> ELSE <<>>
      [] op.op = "sum"      -> IF op.reduce
                               THEN <<IntV(SumSeq([j \in 1..n |-> V(Apply(op.f, xs[j]))]))>> ELSE <<>>
      [] op.op = "mean"     -> IF op.reduce /\ n > 0
                               THEN <<RatV(SumSeq([j \in 1..n |-> V(Apply(op.f, xs[j]))]), n)>> ELSE <<>>
      [] op.op = "min"      -> IF ~op.reduce THEN <<>> ELSE IF n = 0 THEN <<None>>
                               ELSE <<IntV(RunMin([j \in 1..n |-> V(Apply(op.f, xs[j]))], n))>>
      [] op.op = "max"      -> IF ~op.reduce THEN <<>> ELSE IF n = 0 THEN <<None>>
                               ELSE <<IntV(RunMax([j \in 1..n |-> V(Apply(op.f, xs[j]))], n))>>
      [] op.op = "last"     -> IF n = 0 THEN <<>> ELSE <<xs[n]>>
      [] op.op \in {"to_list", "to_array"} -> <<LstV(xs)>>
      [] op.op = "sort"     -> StableSort(xs, op.f, op.reverse)
      (* math.dist.update(reduce=True) summarised as (count, min, max): the distribution
         of exactly this lifetime's items *)
      [] op.op = "dist"     -> IF n = 0 THEN <<TupV(<<IntV(0), None, None>>)>>
                               ELSE LET ks == [j \in 1..n |-> V(xs[j])] IN
                                    <<TupV(<<IntV(n), IntV(RunMin(ks, n)), IntV(RunMax(ks, n))>>)>>
      [] op.op = "pad_end"  -> IF n = 0 THEN <<>>
                               ELSE Rep(IF IsNone(op.v) THEN xs[n] ELSE op.v, op.n)
      [] op.op = "batch"    -> IF n % op.n = 0 THEN <<>>
                               ELSE <<LstV(SubSeq(xs, (n \div op.n) * op.n + 1, n))>>
      [] OTHER -> <<>>

(* what consuming x adds to the output after history h *)
Delta(op, h, x) ==
    LET a == RR(op, h)
        b == RR(op, Append(h, x))
    IN SubSeq(b, Len(a) + 1, Len(b))

(* fatal condition (assert_, assert_1): does consuming x after h kill the stream? *)
Fatal(op, h, x) ==
    CASE op.op = "assert"  -> Len(AssertPrefix(op.p, h)) = Len(h) /\ Test(op.p, x) # BoolV(TRUE)
      [] op.op = "assert1" -> Assert1Len(op.p, h, 1) = Len(h) /\ Len(h) > 0
                              /\ Test2(op.p, Last(h), x) # TRUE
      [] OTHER -> FALSE

(* --------------------------------------------------------------------- *)
(* Partitions of a parent lifetime's items xs (1-based indices) into child *)
(* lifetimes.  A child is [start, items, close]: created in the step of    *)
(* item `start`, receives the items with the listed indices, is completed  *)
(* in the step of item `close` (0: at the parent's completion).            *)
Child(s, its, c) == [start |-> s, items |-> its, close |-> c]
Range1(a, b) == [j \in 1..(b - a + 1) |-> a + j - 1]

Windows(w, s, n) ==
    [m \in 1..((n + s - 1) \div s) |->
        LET st == (m - 1) * s + 1
            en == Min2(st + w - 1, n)
        IN Child(st, Range1(st, en), IF st + w - 1 <= n THEN st + w - 1 ELSE 0)]

RunStarts(pv) == SelectSeq(Range1(1, Len(pv)), LAMBDA j : j = 1 \/ NeqV(pv[j], pv[j - 1]))

(* A criterion that is unequal to itself (NaN) starts a run with every item.  As the very
   first criterion of a key it also differs from "the criterion of the first item", with
   which split initialises its state: the code then opens a segment, closes it at once and
   opens the next one - an empty child created and closed in the step of item 1, modelled
   here as it is. *)
Runs(pv) ==
    LET ss == RunStarts(pv) n == Len(pv)
        runs == [q \in 1..Len(ss) |->
                   LET en == IF q < Len(ss) THEN ss[q + 1] - 1 ELSE n
                   IN Child(ss[q], Range1(ss[q], en), IF q < Len(ss) THEN ss[q + 1] ELSE 0)]
    IN IF n > 0 /\ IsNaN(pv[1]) THEN <<Child(1, <<>>, 1)>> \o runs ELSE runs

Groups(kv) ==
    LET firsts == SelectSeq(Range1(1, Len(kv)), LAMBDA j : \A q \in 1..(j - 1) : kv[q] # kv[j])
    IN [g \in 1..Len(firsts) |->
          Child(firsts[g],
                SelectSeq(Range1(1, Len(kv)), LAMBDA j : kv[j] = kv[firsts[g]]), 0)]

(* time_split sessions.  ts: timestamps, cl: closing flags.  op.active /
   op.inactive = -1 when absent.  Children that receive no item are not part
   of the partition (the property only says where items go). *)
Expired(op, ref, last, t) ==
    \/ op.active >= 0 /\ t >= ref + op.active
    \/ op.inactive >= 0 /\ t >= last + op.inactive

(* The closing mapper is consulted only for an item that does not expire the window.  The
   mapper "every2" is not a function of the item: it accepts every second *consultation*
   (a budget); `calls` counts the consultations so far. *)
Closes(op, x, calls) ==
    IF op.closing.n = "none" THEN FALSE
    ELSE IF op.closing.n = "every2" THEN (calls + 1) % 2 = 0
    ELSE Test(op.closing, x) = BoolV(TRUE)

RECURSIVE SessFold(_, _, _, _, _, _, _, _, _, _)
SessFold(op, ts, xs, i, ref, last, curStart, cur, acc, calls) ==
    \* cur: indices in the open session, curStart: step in which it was opened
    IF i > Len(ts) THEN (IF cur = <<>> THEN acc ELSE Append(acc, Child(curStart, cur, 0)))
    ELSE LET t == ts[i]
             calls2 == IF op.closing.n = "none" THEN calls ELSE calls + 1 IN
      IF Expired(op, ref, last, t)     \* also the first item: with a zero timeout it is
                                       \* already "at least 0 after" its own reference
      THEN SessFold(op, ts, xs, i + 1, t, t, i, <<i>>,
                    IF cur = <<>> THEN acc ELSE Append(acc, Child(curStart, cur, i)), calls)
      ELSE IF Closes(op, xs[i], calls)
      THEN IF op.incl
           THEN SessFold(op, ts, xs, i + 1, t, t, i, <<>>,
                         Append(acc, Child(curStart, Append(cur, i), i)), calls2)
           ELSE SessFold(op, ts, xs, i + 1, t, t, i, <<i>>,
                         IF cur = <<>> THEN acc ELSE Append(acc, Child(curStart, cur, i)), calls2)
      ELSE SessFold(op, ts, xs, i + 1, ref, t, curStart, Append(cur, i), acc, calls2)

Sessions(op, xs) ==
    LET ts == [j \in 1..Len(xs) |-> V(Apply(op.tm, xs[j]))]
    IN IF xs = <<>> THEN <<>> ELSE SessFold(op, ts, xs, 1, ts[1], ts[1], 1, <<>>, <<>>, 0)

Plan(op, xs) ==
    CASE op.op = "roll"       -> Windows(op.w, op.s, Len(xs))
      [] op.op = "split"      -> Runs(KeysOf(op.f, xs))
      [] op.op = "group_by"   -> Groups(KeysOf(op.f, xs))
      [] op.op = "time_split" -> Sessions(op, xs)

(* every item is in exactly one child, children are contiguous/in order where
   the operator promises it: sanity theorems about the partitions themselves
   (checked by TLC in ListSemCheck) *)
IsPartition(plan, n) ==
    /\ \A j \in 1..n : Cardinality({c \in 1..Len(plan) :
                                     \E q \in 1..Len(plan[c].items) : plan[c].items[q] = j}) = 1
    /\ \A c \in 1..Len(plan) : \A q \in 1..Len(plan[c].items) : plan[c].items[q] \in 1..n
=============================================================================
