------------------------------ MODULE MuxTrace ------------------------------
(***************************************************************************)
(* Layer C: trace validation of the multiplexed-stream core.               *)
(*                                                                         *)
(* A batch of executions recorded from the real rxsci code                 *)
(* (IOEnv.TRACE_FILE) is judged by the layer-A contracts.  One trace is    *)
(*   [pipe  |-> pipeline descriptor (same data as in the model),           *)
(*    mode  |-> "mux" (events pushed directly on a MuxObservable) |        *)
(*              "src" (plain source through with_memory_store/multiplex),  *)
(*    taps  |-> <<[p |-> boundary path, evs |-> log]>>,                    *)
(*    out   |-> items delivered to the final (plain) subscriber,           *)
(*    dl    |-> dead-letter items, dlend |-> ordinal of its completion,    *)
(*    end   |-> [t |-> "completed" | "error" | "open", v, o]]              *)
(* One TLC step = one source event (an event of boundary <<0>>): after     *)
(* step l the contracts are evaluated on everything emitted before the     *)
(* next source event, so a late or early emission is rejected at the step  *)
(* where it happens.  Exactly one verdict line is printed per trace.       *)
(***************************************************************************)
EXTENDS MuxModel, Json, IOUtils

CONSTANT Stepwise   \* TRUE: evaluate the contracts after every source event (locates the
                    \* first failing step); FALSE: once, on the complete logs (the causal
                    \* indices in the contracts make the two equivalent for the verdict)

Traces == JsonDeserialize(IOEnv.TRACE_FILE)

VARIABLES tid, l, st

vars == <<tid, l, st>>

Tr == Traces[tid]

LogsOf(t) ==
    [p \in {t.taps[q].p : q \in 1..Len(t.taps)} |->
        t.taps[CHOOSE q \in 1..Len(t.taps) : t.taps[q].p = p].evs]

MinOf(S) == CHOOSE x \in S : \A y \in S : x <= y

(* ordinals of the events that must end the stream with on_error *)
AllFatal(t, logs) ==
    FatalOrds(t.pipe, <<>>, logs)
    \cup (IF t.mode = "src"
          THEN LET Lg == logs[<<Len(t.pipe)>>] IN
               {Lg[q].o : q \in {r \in 1..Len(Lg) : Lg[r].t = "e"}}
          ELSE {})

(* the value the stream's on_error must carry for the fatal event at ordinal f *)
RECURSIVE FatalTokens(_, _, _, _)
FatalTokens(pipe, pre, logs, f) ==
    UNION {LET op == pipe[i] IN
           IF op.op \in {"assert", "assert1"}
           THEN (IF f \in AssertFatal(op, logs[pre \o <<i - 1>>], 1, EmptyFn) THEN {ErrV(-2)} ELSE {})
           ELSE IF IsKeyer(op)
           THEN LET Tl == logs[pre \o <<i, 1, Len(op.inner)>>] IN
                {Tl[q].v : q \in {r \in 1..Len(Tl) : Tl[r].t = "e" /\ Tl[r].o = f}}
                \cup FatalTokens(op.inner, pre \o <<i, 1>>, logs, f)
           ELSE IF IsTee(op)
           THEN UNION {FatalTokens(op.branches[b], pre \o <<i, b>>, logs, f)
                       : b \in 1..Len(op.branches)}
           ELSE {} : i \in 1..Len(pipe)}

RootTokens(t, logs, f) ==
    IF t.mode = "src"
    THEN LET Lg == logs[<<Len(t.pipe)>>] IN
         {Lg[q].v : q \in {r \in 1..Len(Lg) : Lg[r].t = "e" /\ Lg[r].o = f}}
    ELSE {}

(* root of a plain source: rxsci's mux_observable creates key <<0>> at
   subscription and completes it before on_completed; demux_observable forwards
   the items of the last boundary *)
RootViol(t, logs) ==
    IF t.mode # "src" THEN {}
    ELSE LET B0 == logs[<<0>>]
             Lg == logs[<<Len(t.pipe)>>]
             items == SelectSeq(Lg, LAMBDA e : e.t = "n")
         IN (IF /\ Len(B0) >= 1 /\ B0[1].t = "c" /\ B0[1].k = <<0>>
                /\ \A q \in 2..Len(B0) : B0[q].k = <<0>> /\ B0[q].t \in {"n", "d"}
                /\ (t.end.t = "completed" => B0[Len(B0)].t = "d")
             THEN {} ELSE {"root-lifecycle"})
            \cup (IF /\ Len(t.out) = Len(items)
                     /\ \A q \in 1..Len(items) :
                          /\ t.out[q].v = items[q].v
                          /\ (Len(t.pipe) = 0     \* (no operator: the item *is* the source event)
                              \/ Cause(B0, t.out[q].o) = Cause(B0, items[q].o))
                  THEN {} ELSE {"root-demux-output"})

(* error router (top level only): dead letters are the errors entering it, in
   order, each in its own step; the dead-letter stream completes with the stream *)
RouterViol(t, logs) ==
    LET B0 == logs[<<0>>]
        rs == {i \in 1..Len(t.pipe) : t.pipe[i].op = "router"} IN
    IF rs = {} THEN {}
    ELSE LET i == CHOOSE x \in rs : TRUE
             errs == SelectSeq(logs[<<i - 1>>], LAMBDA e : e.t = "e")
         IN (IF /\ Len(t.dl) = Len(errs)
                /\ \A q \in 1..Len(errs) :
                     /\ t.dl[q].v = errs[q].v
                     /\ Cause(B0, t.dl[q].o) = Cause(B0, errs[q].o)
             THEN {} ELSE {"router-dead-letter"})
            \cup (IF (t.end.t = "completed") = (t.dlend > 0) THEN {}
                  ELSE {"router-dead-letter-completion"})

-----------------------------------------------------------------------------
TraceInit == tid \in 1..Len(Traces) /\ l = 0 /\ st = "run"

Reject(step, clauses) ==
    /\ PrintT(<<"VERDICT", tid, "REJECT", step, clauses>>)
    /\ st' = "end" /\ UNCHANGED <<tid, l>>

(* ---- binding of the implementation model (layer B) to the same execution: the model
   is run on the recorded source events and must produce the recorded logs, event for
   event and ordinal for ordinal, at every boundary.  Reported with the verdict
   (TRUE / FALSE / "n/a" when the pipeline uses an operator the model does not have);
   never a reason to reject: the verdict is the contracts'. ---- *)
ModelOps == {"map", "starmap", "filter", "flat_map", "identity", "do_action", "progress", "clip",
             "fill_none", "scan", "count", "sum", "mean", "min", "max", "first", "last", "take",
             "distinct", "duc", "lag", "pad_start", "pad_end", "start_with", "batch", "to_list",
             "to_array", "assert", "assert1", "ignore", "errmap", "router", "roll", "split",
             "group_by", "time_split", "tee"}

RECURSIVE Modelled(_)
Modelled(pipe) ==
    \A i \in 1..Len(pipe) :
        /\ pipe[i].op \in ModelOps
        \* user functions that are not functions of the item are outside the implementation model
        /\ ("f" \in DOMAIN pipe[i] => pipe[i].f.n # "seqc")
        /\ ("closing" \in DOMAIN pipe[i] => pipe[i].closing.n # "every2")
        /\ (IsKeyer(pipe[i]) => Modelled(pipe[i].inner))
        /\ (IsTee(pipe[i]) => \A b \in 1..Len(pipe[i].branches) : Modelled(pipe[i].branches[b]))

RECURSIVE RunModel(_, _, _, _)
RunModel(top, B0, i, S) ==
    IF i > Len(B0) \/ S.dead THEN S
    ELSE RunModel(top, B0, i + 1, Push(top, MEv(B0[i].t, B0[i].k, B0[i].v), S))

InSync(t, logs) ==
    IF ~Modelled(t.pipe) THEN "n/a"
    ELSE LET S == RunModel(t.pipe, logs[<<0>>], 1, [InitS(t.pipe) EXCEPT !.src = (t.mode = "src")])
             Strip3(L) == [q \in 1..Len(L) |-> <<L[q].t, L[q].k, L[q].v>>]
         IN (* with a plain source the final subscriber is served between the events (its
               deliveries take ordinals in the recording): compare without ordinals there *)
            /\ \A p \in DOMAIN logs :
                  IF t.mode = "mux" THEN S.logs[p] = logs[p] ELSE Strip3(S.logs[p]) = Strip3(logs[p])
            /\ S.dead = (t.end.t = "error")
            /\ [q \in 1..Len(S.dl) |-> S.dl[q].v] = [q \in 1..Len(t.dl) |-> t.dl[q].v]

Accept(steps) ==
    /\ PrintT(<<"VERDICT", tid, "ACCEPT", steps, InSync(Tr, LogsOf(Tr))>>)
    /\ st' = "end" /\ UNCHANGED <<tid, l>>

TraceStep ==
    /\ st = "run"
    /\ LET logs == LogsOf(Tr)
           B0 == logs[<<0>>]
           FS == AllFatal(Tr, logs)
           f == IF FS = {} THEN 0 ELSE MinOf(FS)
           fs == IF FS = {} THEN 0 ELSE Cause(B0, f + 1)    \* step of the fatal event
           nsteps == IF fs = 0 THEN Len(B0) ELSE fs - 1
       IN
       IF l < nsteps
       THEN IF ~Stepwise THEN l' = nsteps /\ UNCHANGED <<tid, st>>
            ELSE LET bad == Violations(Tr.pipe, Restrict(logs, NextOrd(B0, l + 1)), FALSE) IN
                 IF bad = {} THEN l' = l + 1 /\ UNCHANGED <<tid, st>>
                 ELSE Reject(l + 1, bad)
       ELSE IF fs = 0
       THEN LET closed == Tr.end.t = "completed"
                bad == Violations(Tr.pipe, logs, closed)
                       \cup RootViol(Tr, logs) \cup RouterViol(Tr, logs)
                       \cup (IF Tr.end.t = "error" THEN {"unexpected-stream-error"} ELSE {})
            IN IF bad = {} THEN Accept(l) ELSE Reject(l + 1, bad)
       ELSE LET toks == FatalTokens(Tr.pipe, <<>>, logs, f) \cup RootTokens(Tr, logs, f) IN
            IF Tr.end.t # "error" THEN Reject(fs, {"fatal-error-not-raised"})
            ELSE IF Tr.end.v \notin toks \/ Cause(B0, Tr.end.o) # fs
            THEN Reject(fs, {"fatal-error-wrong"})
            ELSE Accept(l)

TraceSpec == TraceInit /\ [][TraceStep]_vars
=============================================================================
