----------------------------- MODULE Contracts -----------------------------
(***************************************************************************)
(* Layer A: the contracts of the multiplexed-stream operators, stated over *)
(* boundary logs.                                                          *)
(*                                                                         *)
(* A boundary is a position between two operators (or the head/tail of an  *)
(* inner pipeline or tee branch).  Its log is the sequence of mux events   *)
(* observed there: [t, k, v, o] with t in "c" (create) "n" (item)          *)
(* "e" (item-level error) "d" (completed), k the key flattened top-first   *)
(* (<<child, parent, ..., root>>; k[1] is the slot index), v the item and  *)
(* o the global emission ordinal.  rxsci is synchronous and single         *)
(* threaded, so everything an input event causes is emitted before the     *)
(* next input event: the events caused by input event j of a boundary I    *)
(* are exactly those whose ordinal lies between I[j].o and I[j+1].o.  That *)
(* makes promptness (C11) checkable: every contract below compares events  *)
(* together with the index of the input event that caused them.            *)
(*                                                                         *)
(* Violations(pipe, logs) returns the set of violated clauses (strings     *)
(* prefixed with the boundary path).  It is used unchanged (a) as an       *)
(* invariant of the implementation model MuxModel under TLC and (b) to     *)
(* judge executions recorded from the real code (MuxTrace).                *)
(*                                                                         *)
(* Paths: a pipeline located at prefix `pre` has boundaries pre \o <<j>>,  *)
(* j = 0..Len(pipe); the inner pipeline b of its i-th operator has prefix  *)
(* pre \o <<i, b>>.                                                        *)
(***************************************************************************)
EXTENDS ListSem

INF == 1000000000
EmptyFn == [x \in {} |-> 0]
IsKeyer(op) == op.op \in {"roll", "split", "group_by", "time_split"}
IsTee(op) == op.op = "tee"

Cause(I, o) == Cardinality({j \in 1..Len(I) : I[j].o < o})
NextOrd(I, j) == IF j < Len(I) THEN I[j + 1].o ELSE INF

XEv(t, k, v, j) == [t |-> t, k |-> k, v |-> v, j |-> j]
Strip(es) == [q \in 1..Len(es) |-> [t |-> es[q].t, k |-> es[q].k, v |-> es[q].v]]
(* events of log O, each with the index of the event of I that caused it *)
Act(I, O) == [q \in 1..Len(O) |-> XEv(O[q].t, O[q].k, O[q].v, Cause(I, O[q].o))]
ValEvs(vals, k, j) ==
    [q \in 1..Len(vals) |-> XEv(IF IsErr(vals[q]) THEN "e" ELSE "n", k, vals[q], j)]
Without(f, k) == [q \in (DOMAIN f) \ {k} |-> f[q]]

Tag(pre, i, s) == ToString(pre \o <<i>>) \o ":" \o s

-----------------------------------------------------------------------------
(* C03: key lifecycle at one boundary *)
RECURSIVE ProtoFold(_, _, _, _)
ProtoFold(L, i, live, bad) ==
    IF i > Len(L) THEN <<live, bad>>
    ELSE LET e == L[i] IN
      CASE e.t = "c" ->
             ProtoFold(L, i + 1, live \cup {e.k},
                 bad \cup (IF e.k \in live THEN {"proto-double-create"} ELSE {})
                     \cup (IF \E k2 \in live : k2 # e.k /\ k2[1] = e.k[1]
                           THEN {"proto-slot-clash"} ELSE {}))
        [] e.t = "d" ->
             ProtoFold(L, i + 1, live \ {e.k},
                 bad \cup (IF e.k \notin live THEN {"proto-orphan-completion"} ELSE {}))
        [] OTHER ->
             ProtoFold(L, i + 1, live,
                 bad \cup (IF e.k \notin live THEN {"proto-orphan-item"} ELSE {}))

ProtoViol(L, closed) ==
    LET r == ProtoFold(L, 1, {}, {})
    IN r[2] \cup (IF closed /\ r[1] # {} THEN {"proto-unclosed-at-end"} ELSE {})

-----------------------------------------------------------------------------
(* key lifetimes of a log: [k, c: index of create, d: index of completion or 0,
   its: indices of its item events], in creation order *)
RECURSIVE LivesFold(_, _, _, _)
LivesFold(L, i, cur, acc) ==
    IF i > Len(L) THEN acc
    ELSE LET e == L[i] IN
      CASE e.t = "c" ->
             LivesFold(L, i + 1, (e.k :> (Len(acc) + 1)) @@ cur,
                       Append(acc, [k |-> e.k, c |-> i, d |-> 0, its |-> <<>>]))
        [] e.t = "d" /\ e.k \in DOMAIN cur ->
             LivesFold(L, i + 1, Without(cur, e.k), [acc EXCEPT ![cur[e.k]].d = i])
        [] e.t = "n" /\ e.k \in DOMAIN cur ->
             LivesFold(L, i + 1, cur, [acc EXCEPT ![cur[e.k]].its = Append(@, i)])
        [] OTHER -> LivesFold(L, i + 1, cur, acc)

Lives(L) == LivesFold(L, 1, EmptyFn, <<>>)

-----------------------------------------------------------------------------
(* key-preserving operators: output = list semantics of each lifetime, emitted
   in the step of the event that determines it (C09 C10 C11 C13, C02) *)
ErrOut(op, e, i) ==
    CASE op.op \in {"ignore", "router"} -> <<>>
      [] op.op = "errmap" -> <<XEv("n", e.k, Apply(op.f, e.v), i)>>
      [] OTHER -> <<XEv("e", e.k, e.v, i)>>

RECURSIVE PrimFold(_, _, _, _, _)
PrimFold(op, I, i, hist, acc) ==
    IF i > Len(I) THEN acc
    ELSE LET e == I[i]
             h == IF e.k \in DOMAIN hist THEN hist[e.k] ELSE <<>> IN
      CASE e.t = "c" ->
             PrimFold(op, I, i + 1, (e.k :> <<>>) @@ hist, Append(acc, XEv("c", e.k, None, i)))
        [] e.t = "n" ->
             PrimFold(op, I, i + 1, (e.k :> Append(h, e.v)) @@ hist,
                      acc \o ValEvs(Delta(op, h, e.v), e.k, i))
        [] e.t = "d" ->
             PrimFold(op, I, i + 1, Without(hist, e.k),
                      acc \o ValEvs(F(op, h), e.k, i) \o <<XEv("d", e.k, None, i)>>)
        [] OTHER ->
             PrimFold(op, I, i + 1, hist, acc \o ErrOut(op, e, i))

PrimViol(op, I, O, pre, i) ==
    LET ex == PrimFold(op, I, 1, EmptyFn, <<>>)
        ac == Act(I, O)
    IN IF ex = ac THEN {}
       ELSE IF Strip(ex) = Strip(ac) THEN {Tag(pre, i, op.op \o "-timing")}
       ELSE {Tag(pre, i, op.op \o "-output")}

-----------------------------------------------------------------------------
(* key-creating operators: the child lifetimes at the head of the inner
   pipeline are the partition Plan(op, items of the parent lifetime)
   (C04 C05 C06 C07); child indices are free (only C03 constrains them) *)
KidViol(op, I, H, P, xs, kid, pl) ==
    LET itemsOK == [q \in 1..Len(kid.its) |-> H[kid.its[q]].v]
                   = [q \in 1..Len(pl.items) |-> xs[pl.items[q]]]
        stepsOK == \A q \in 1..Len(kid.its) :
                      Cause(I, H[kid.its[q]].o) = P.its[pl.items[q]]
        createOK == op.op = "time_split" \/ Cause(I, H[kid.c].o) = P.its[pl.start]
        closeOK == IF pl.close # 0
                   THEN kid.d # 0 /\ Cause(I, H[kid.d].o) = P.its[pl.close]
                   ELSE IF P.d = 0 THEN kid.d = 0
                   ELSE kid.d # 0 /\ Cause(I, H[kid.d].o) = P.d
    IN (IF ~itemsOK THEN {"-child-items"}
        ELSE IF ~stepsOK THEN {"-child-item-step"} ELSE {})
       \cup (IF ~createOK THEN {"-child-create-step"} ELSE {})
       \cup (IF ~closeOK THEN {"-child-close-step"} ELSE {})

ParentViol(op, I, H, P, CL) ==
    LET lo == I[P.c].o
        hi == IF P.d = 0 THEN INF ELSE NextOrd(I, P.d)
        kids0 == SelectSeq(CL, LAMBDA c : Tail(c.k) = P.k /\ H[c.c].o > lo /\ H[c.c].o < hi)
        kids == IF op.op = "time_split" THEN SelectSeq(kids0, LAMBDA c : c.its # <<>>)
                ELSE kids0
        xs == [q \in 1..Len(P.its) |-> I[P.its[q]].v]
        plan == Plan(op, xs)
        (* without aligning children and plan: a child is closed only in a step in which
           the plan closes one, or at the parent's completion (promptness, C11) *)
        planCloses == {P.its[plan[m].close] : m \in {m2 \in 1..Len(plan) : plan[m2].close # 0}}
                      \cup (IF P.d = 0 THEN {} ELSE {P.d})
        kidCloses == {Cause(I, H[kids[m].d].o) : m \in {m2 \in 1..Len(kids) : kids[m2].d # 0}}
    IN IF Len(kids) # Len(plan)
       THEN {"-child-count"} \cup (IF kidCloses \subseteq planCloses THEN {} ELSE {"-child-close-step"})
       ELSE UNION {KidViol(op, I, H, P, xs, kids[m], plan[m]) : m \in 1..Len(plan)}
            \cup (IF \E m1, m2 \in 1..Len(kids) :
                       m1 < m2 /\ kids[m1].d # 0 /\ kids[m2].d # 0
                       /\ H[kids[m1].d].o > H[kids[m2].d].o
                  THEN {"-close-order"} ELSE {})

KeyerViol(op, I, H, pre, i) ==
    LET PL == Lives(I)
        CL == Lives(H)
        stray == \E c \in 1..Len(CL) :
                    ~\E p \in 1..Len(PL) :
                        /\ Tail(CL[c].k) = PL[p].k
                        /\ H[CL[c].c].o > I[PL[p].c].o
                        /\ H[CL[c].c].o < (IF PL[p].d = 0 THEN INF ELSE NextOrd(I, PL[p].d))
        (* every event at the head belongs to a child lifetime: no item or completion
           for a window / segment / group that is not open *)
        owned == UNION {{CL[c].c, CL[c].d} \cup {CL[c].its[q] : q \in 1..Len(CL[c].its)}
                        : c \in 1..Len(CL)}
        strayEv == \E q \in 1..Len(H) : H[q].t \in {"n", "d"} /\ q \notin owned
        bad == UNION {ParentViol(op, I, H, PL[p], CL) : p \in 1..Len(PL)}
               \cup (IF stray THEN {"-stray-child"} ELSE {})
               \cup (IF strayEv THEN {"-stray-event"} ELSE {})
    IN {Tag(pre, i, op.op \o s) : s \in bad}

(* demultiplexing: the operator's output carries the parent lifecycle events and
   the items of the inner tail with the child component stripped, each in the
   step that produced it *)
RECURSIVE DemuxFold(_, _, _, _)
DemuxFold(I, Tl, i, acc) ==
    IF i > Len(I) THEN acc
    ELSE LET e == I[i]
             hi == NextOrd(I, i)
             inner == SelectSeq(Tl, LAMBDA x : x.t = "n" /\ x.o > e.o /\ x.o < hi)
             mapped == [q \in 1..Len(inner) |-> XEv("n", Tail(inner[q].k), inner[q].v, i)]
         IN DemuxFold(I, Tl, i + 1,
                acc \o (IF e.t = "c" THEN <<XEv("c", e.k, None, i)>> ELSE <<>>)
                    \o mapped
                    \o (IF e.t = "d" THEN <<XEv("d", e.k, None, i)>> ELSE <<>>)
                    \* an error event of the parent key goes round the inner pipeline as well
                    \o (IF e.t = "e" THEN <<XEv("e", e.k, e.v, i)>> ELSE <<>>))

DemuxViol(op, I, Tl, O, pre, i) ==
    LET ex == DemuxFold(I, Tl, 1, <<>>)
        ac == Act(I, O)
    IN IF ex = ac THEN {}
       ELSE IF Strip(ex) = Strip(ac) THEN {Tag(pre, i, op.op \o "-demux-timing")}
       ELSE {Tag(pre, i, op.op \o "-demux-output")}

-----------------------------------------------------------------------------
(* tee_map: every branch sees the source events; the output is the join of the
   branch outputs, with a join state per key lifetime (C08, C02) *)
RECURSIVE MergeByOrd(_)
MergeByOrd(ss) ==   \* ss: sequence of <<branch, log>>; -> seq of [b, e] sorted by e.o
    LET ne == {q \in 1..Len(ss) : ss[q][2] # <<>>} IN
    IF ne = {} THEN <<>>
    ELSE LET m == CHOOSE q \in ne : \A r \in ne : Head(ss[q][2]).o <= Head(ss[r][2]).o
         IN <<[b |-> ss[m][1], e |-> Head(ss[m][2])]>>
            \o MergeByOrd([ss EXCEPT ![m] = <<ss[m][1], Tail(ss[m][2])>>])

FreshJoin(n) == [latest |-> Rep(None, n), fresh |-> Rep(FALSE, n)]

RECURSIVE JoinFold(_, _, _, _, _, _)
JoinFold(mode, n, E, i, st, acc) ==
    IF i > Len(E) THEN acc
    ELSE LET e == E[i].e
             b == E[i].b
             s == IF e.k \in DOMAIN st THEN st[e.k] ELSE FreshJoin(n) IN
      CASE e.t = "c" ->
             IF b = 1 THEN JoinFold(mode, n, E, i + 1, (e.k :> FreshJoin(n)) @@ st,
                                    Append(acc, XEv("c", e.k, None, i)))
             ELSE JoinFold(mode, n, E, i + 1, st, acc)
        [] e.t = "d" ->
             IF b = n THEN JoinFold(mode, n, E, i + 1, Without(st, e.k),
                                    Append(acc, XEv("d", e.k, None, i)))
             ELSE JoinFold(mode, n, E, i + 1, st, acc)
        [] e.t = "n" ->
             IF mode = "merge"
             THEN JoinFold(mode, n, E, i + 1, st, Append(acc, XEv("n", e.k, e.v, i)))
             ELSE LET lat == [s.latest EXCEPT ![b] = e.v]
                      fr == [s.fresh EXCEPT ![b] = TRUE] IN
                  IF mode = "combine_latest"
                  THEN JoinFold(mode, n, E, i + 1, (e.k :> [latest |-> lat, fresh |-> fr]) @@ st,
                                Append(acc, XEv("n", e.k, TupV(lat), i)))
                  ELSE IF \A q \in 1..n : fr[q]
                  THEN JoinFold(mode, n, E, i + 1, (e.k :> FreshJoin(n)) @@ st,
                                Append(acc, XEv("n", e.k, TupV(lat), i)))
                  ELSE JoinFold(mode, n, E, i + 1, (e.k :> [latest |-> lat, fresh |-> fr]) @@ st,
                                acc)
        [] OTHER -> JoinFold(mode, n, E, i + 1, st, Append(acc, XEv("e", e.k, e.v, i)))

TeeViol(op, I, heads, tails, O, pre, i) ==
    LET n == Len(op.branches)
        headBad == \E b \in 1..n :
                      \/ Strip(Act(I, heads[b])) # Strip(Act(I, I))
                      \/ \E q \in 1..Len(heads[b]) : Cause(I, heads[b][q].o) # q
        E == MergeByOrd([b \in 1..n |-> <<b, tails[b]>>])
        Elog == [q \in 1..Len(E) |-> E[q].e]
        ex == JoinFold(op.join, n, E, 1, EmptyFn, <<>>)
        ac == Act(Elog, O)
    IN (IF headBad THEN {Tag(pre, i, "tee-branch-input")} ELSE {})
       \cup (IF ex = ac THEN {}
             ELSE IF Strip(ex) = Strip(ac) THEN {Tag(pre, i, "tee-join-timing")}
             ELSE {Tag(pre, i, "tee-join-output")})
       \* an error produced inside a branch leaves the tee_map exactly once, whichever branch
       \* it is (C13: an error is produced once, and surfaces where the stream is demultiplexed)
       \cup (LET IsE(x) == x.t = "e" IN
             IF Strip(SelectSeq(ex, IsE)) = Strip(SelectSeq(ac, IsE)) THEN {}
             ELSE {Tag(pre, i, "tee-error-passage")})

-----------------------------------------------------------------------------
(* composition: every operator against its adjacent boundaries, the protocol at
   every boundary, recursively through inner pipelines and branches *)
RECURSIVE PipeViol(_, _, _, _)
OpViol(op, pre, i, logs, closed) ==
    LET I == logs[pre \o <<i - 1>>]
        O == logs[pre \o <<i>>]
    IN IF IsKeyer(op)
       THEN LET H == logs[pre \o <<i, 1, 0>>]
                Tl == logs[pre \o <<i, 1, Len(op.inner)>>]
            IN KeyerViol(op, I, H, pre, i) \cup DemuxViol(op, I, Tl, O, pre, i)
               \cup PipeViol(op.inner, pre \o <<i, 1>>, logs, closed)
       ELSE IF IsTee(op)
       THEN LET n == Len(op.branches)
                heads == [b \in 1..n |-> logs[pre \o <<i, b, 0>>]]
                tails == [b \in 1..n |-> logs[pre \o <<i, b, Len(op.branches[b])>>]]
            IN TeeViol(op, I, heads, tails, O, pre, i)
               \cup UNION {PipeViol(op.branches[b], pre \o <<i, b>>, logs, closed) : b \in 1..n}
       ELSE PrimViol(op, I, O, pre, i)

PipeViol(pipe, pre, logs, closed) ==
    UNION {OpViol(pipe[i], pre, i, logs, closed) : i \in 1..Len(pipe)}
    \cup UNION {{Tag(pre, j, s) : s \in ProtoViol(logs[pre \o <<j>>], closed)}
                : j \in 0..Len(pipe)}

(* closed: the stream has completed, so every key must have been completed *)
Violations(pipe, logs, closed) == PipeViol(pipe, <<>>, logs, closed)

RECURSIVE Paths(_, _)
Paths(pipe, pre) ==
    {pre \o <<j>> : j \in 0..Len(pipe)}
    \cup UNION {IF IsKeyer(pipe[i]) THEN Paths(pipe[i].inner, pre \o <<i, 1>>)
                ELSE IF IsTee(pipe[i])
                THEN UNION {Paths(pipe[i].branches[b], pre \o <<i, b>>)
                            : b \in 1..Len(pipe[i].branches)}
                ELSE {} : i \in 1..Len(pipe)}

-----------------------------------------------------------------------------
(* fatal stream errors: an assertion that fails, or an item-level error that
   reaches a demultiplexer unhandled.  Returns the set of ordinals of the events
   that must kill the stream. *)
RECURSIVE AssertFatal(_, _, _, _)
AssertFatal(op, I, i, hist) ==
    IF i > Len(I) THEN {}
    ELSE LET e == I[i]
             h == IF e.k \in DOMAIN hist THEN hist[e.k] ELSE <<>> IN
      CASE e.t = "c" -> AssertFatal(op, I, i + 1, (e.k :> <<>>) @@ hist)
        [] e.t = "n" -> (IF Fatal(op, h, e.v) THEN {e.o} ELSE {})
                        \cup AssertFatal(op, I, i + 1, (e.k :> Append(h, e.v)) @@ hist)
        [] e.t = "d" -> AssertFatal(op, I, i + 1, Without(hist, e.k))
        [] OTHER -> AssertFatal(op, I, i + 1, hist)

RECURSIVE FatalOrds(_, _, _)
FatalOrds(pipe, pre, logs) ==
    UNION {LET op == pipe[i] IN
           IF op.op \in {"assert", "assert1"}
           THEN AssertFatal(op, logs[pre \o <<i - 1>>], 1, EmptyFn)
           ELSE IF IsKeyer(op)
           THEN LET Tl == logs[pre \o <<i, 1, Len(op.inner)>>] IN
                {Tl[q].o : q \in {r \in 1..Len(Tl) : Tl[r].t = "e"}}
                \cup FatalOrds(op.inner, pre \o <<i, 1>>, logs)
           ELSE IF IsTee(op)
           THEN UNION {FatalOrds(op.branches[b], pre \o <<i, b>>, logs)
                       : b \in 1..Len(op.branches)}
           ELSE {} : i \in 1..Len(pipe)}

(* logs restricted to the events emitted before ordinal `lim` *)
Restrict(logs, lim) ==
    [p \in DOMAIN logs |-> SelectSeq(logs[p], LAMBDA e : e.o < lim)]
=============================================================================
