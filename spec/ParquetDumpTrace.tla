------------------------- MODULE ParquetDumpTrace -------------------------
(***************************************************************************)
(* Trace validation for rxsci.container.parquet (property C20).  A batch   *)
(* of recorded executions of the real dump_to_file / load_from_file is     *)
(* read from IOEnv.TRACE_FILE:                                             *)
(*                                                                         *)
(*   [{N, b, m, file, loaded, recs, nrecs, ended, ...}, ...]               *)
(*                                                                         *)
(* Every source row carries a unique id 1..N.  Each row read back is       *)
(* mapped by the harness to the id of the source row it is *equal* to (all *)
(* columns compared), or to 0 when it equals no source row.  An id         *)
(* sequence is logged run-length encoded as maximal runs of consecutive    *)
(* ascending ids:  [n |-> number of rows, nr |-> number of runs,           *)
(* r |-> <<<<first, last>>, ...>>] with r capped to the first runs (the    *)
(* encoding is injective and the expected sequence 1..N is the single run  *)
(* <<1, N>>, so the accept decision is exact even when r is capped; only   *)
(* the name of the clause is then derived from the visible runs and n).    *)
(*   file   = pyarrow.parquet.read_table(written file).to_pylist()         *)
(*   loaded = items emitted by load_from_file(written file, batch_size=m)  *)
(*   recs   = sizes of the record batches handed to the ParquetWriter      *)
(*                                                                         *)
(* The Row / Complete actions of ParquetDump are replayed (n = N, b, m     *)
(* from the trace).  Verdict (C20):                                        *)
(*   completion      dump or load did not complete                         *)
(*   corrupt-rows    the file holds a row that equals no source row        *)
(*   duplicate-rows  a source row is in the file more than once            *)
(*   missing-rows    a source row is not in the file                       *)
(*   order           all rows once, but not in source order                *)
(*   loader-mismatch load_from_file did not return the rows of the file    *)
(* The model's file and record batch sizes (for the variant selected by    *)
(* FixBatch / FixBuffer) are compared with the observed ones too, but only *)
(* reported (insync): C20 does not constrain how rows are grouped.         *)
(***************************************************************************)
EXTENDS ParquetDump, Json, IOUtils

Traces == JsonDeserialize(IOEnv.TRACE_FILE)

VARIABLES tid, l, st

tvars == <<vars, tid, l, st>>

T == Traces[tid]

TraceInit ==
    /\ tid \in 1..Len(Traces)
    /\ l = 0 /\ st = "run"
    /\ n = Traces[tid].N /\ b = Traces[tid].b /\ m = Traces[tid].m
    /\ sent = 0 /\ phase = "dump"
    /\ hasState = FALSE /\ acc = NoAcc /\ heap = <<>> /\ batches = <<>>
    /\ colbuf = <<>> /\ recs = <<>> /\ file = <<>>
    /\ lpos = 0 /\ out = <<>>

-----------------------------------------------------------------------------
(* judging an id sequence given run-length encoded *)
Expected == IF n = 0 THEN <<>> ELSE << <<1, n>> >>

IsExpected(o) == o.nr = Len(Expected) /\ o.r = Expected

Overlap(r, i, j) == r[i][1] <= r[j][2] /\ r[j][1] <= r[i][2]

HasDuplicate(o) ==
    \/ o.n > n
    \/ \E i \in 1..Len(o.r) : \E j \in (i + 1)..Len(o.r) : Overlap(o.r, i, j)

Max(x, y) == IF x > y THEN x ELSE y

(* where the duplicated rows are: only among the last b rows of the source, or earlier *)
DupScope(o) ==
    LET r == o.r
        pairs == {p \in (1..Len(r)) \X (1..Len(r)) : p[1] < p[2] /\ Overlap(r, p[1], p[2])}
    IN IF pairs = {} THEN "unknown"
       ELSE IF \A p \in pairs : Max(r[p[1]][1], r[p[2]][1]) > n - b
            THEN "last-batch-only" ELSE "earlier-batches"

FileClause(o) ==
    IF \E k \in 1..Len(o.r) : o.r[k][1] = 0 THEN "corrupt-rows"
    ELSE IF HasDuplicate(o) THEN "duplicate-rows"
    ELSE IF o.n < n THEN "missing-rows"
    ELSE "order"

RECURSIVE Expand(_)
Expand(r) ==
    IF r = <<>> THEN <<>>
    ELSE [i \in 1..(r[1][2] - r[1][1] + 1) |-> r[1][1] + i - 1] \o Expand(Tail(r))

RECURSIVE RunsTotal(_)
RunsTotal(r) == IF r = <<>> THEN 0 ELSE (r[1][2] - r[1][1] + 1) + RunsTotal(Tail(r))

(* the harness must log consistent data *)
WellFormed(o) ==
    /\ Len(o.r) <= o.nr
    /\ \A k \in 1..Len(o.r) : o.r[k][1] <= o.r[k][2] /\ o.r[k][1] >= 0 /\ o.r[k][2] <= n
    /\ Len(o.r) = o.nr => RunsTotal(o.r) = o.n

(* model vs implementation, informational *)
InSync ==
    /\ T.nrecs = Len(recs)
    /\ T.recs = SubSeq(recs, 1, Len(T.recs))
    /\ T.file.n = Len(file)
    /\ T.file.nr = Len(T.file.r)
    /\ Expand(T.file.r) = file

-----------------------------------------------------------------------------
TraceRow ==
    /\ st = "run"
    /\ Row
    /\ l' = l + 1
    /\ UNCHANGED <<tid, st>>

TraceComplete ==
    /\ st = "run"
    /\ Complete
    /\ l' = l + 1 /\ st' = "judge"
    /\ UNCHANGED tid

TraceJudge ==
    /\ st = "judge"
    /\ IF ~WellFormed(T.file) \/ ~WellFormed(T.loaded)
       THEN PrintT(<<"VERDICT", tid, "REJECT", l, "model-harness-encoding", "-", FALSE>>)
       ELSE IF T.ended # "completed"
       THEN PrintT(<<"VERDICT", tid, "REJECT", l, "completion", "-", FALSE>>)
       ELSE IF ~IsExpected(T.file)
       THEN PrintT(<<"VERDICT", tid, "REJECT", l, FileClause(T.file),
                     IF FileClause(T.file) = "duplicate-rows" THEN DupScope(T.file) ELSE "-",
                     InSync>>)
       ELSE IF T.loaded # T.file
       THEN PrintT(<<"VERDICT", tid, "REJECT", l, "loader-mismatch", "-", InSync>>)
       ELSE PrintT(<<"VERDICT", tid, "ACCEPT", l, InSync>>)
    /\ st' = "end"
    /\ UNCHANGED <<vars, tid, l>>

TraceNext == TraceRow \/ TraceComplete \/ TraceJudge

TraceSpec == TraceInit /\ [][TraceNext]_tvars

(* a replay is a single path: (tid, l, st) identifies the state *)
TraceView == <<tid, l, st>>

(* design-level invariants that hold for every variant, along every replay *)
TraceInv == NoEarlyRows /\ FrozenAfterEmit
=============================================================================
