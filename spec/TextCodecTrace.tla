-------------------------- MODULE TextCodecTrace --------------------------
(***************************************************************************)
(* Trace validation for rxsci.data.codec (one batch per encoding: the      *)
(* constants Enc and BomLen).  A batch of recorded executions of the real  *)
(* encode() -> re-chunk -> decode() is read from IOEnv.TRACE_FILE:         *)
(*   [{enc, inc, strings, widths, wirelen, bomlen, wirecps, encended,      *)
(*     feeds: [{n, rel}], final, ended}, ...]                              *)
(* text = sequence of code points; widths = bytes per character observed   *)
(* with the BOM-less stateless codec; wirecps = the real wire read back    *)
(* with that reference codec (so every BOM on the wire shows as U+FEFF);   *)
(* rel = code points emitted by the real decode() for the chunk of n       *)
(* bytes; sum of n < wirelen means the stream was ended inside a unit.     *)
(* Every trace is replayed through the actions of TextCodec; exactly one   *)
(* verdict is printed per trace.                                           *)
(*                                                                         *)
(* Verdict clauses (C17):                                                  *)
(*   roundtrip    decoded text (or the characters on the wire) # input:    *)
(*                a character lost, duplicated or replaced                 *)
(*   bom          the difference is made of U+FEFF only: BOM not written   *)
(*                exactly once at the start / BOM leaking into the text    *)
(*   completion   error or no completion on a well-formed stream           *)
(*   early-output more characters emitted than completely received         *)
(*   truncation   a stream ended inside a character completed silently     *)
(*                (the buffered bytes were dropped: a character is lost    *)
(*                without any signal)                                      *)
(* `model-...` clauses = harness/specification inconsistent (no verdict).  *)
(* In which chunk a character is emitted is compared with the model too    *)
(* but only reported (insync).  Traces recorded with incremental=False     *)
(* (outside C17) are compared with the model of that mode and are always   *)
(* accepted; a difference only clears insync.                              *)
(***************************************************************************)
EXTENDS TextCodec, Json, IOUtils

Traces == JsonDeserialize(IOEnv.TRACE_FILE)

VARIABLES tid, l, st, real, insync

tvars == <<vars, tid, l, st, real, insync>>

T == Traces[tid]

Strip(s) == SelectSeq(s, LAMBDA x : x # BOMCP)
IsPrefix(a, b) == Len(a) <= Len(b) /\ a = SubSeq(b, 1, Len(a))
BomCp == IF BomLen > 0 THEN <<BOMCP>> ELSE <<>>

(* what is expected on the wire and from decode(), as text *)
ExpectWire ==
    IF encinc THEN BomCp \o Input
    ELSE Concat([j \in 1..Len(strings) |-> BomCp \o strings[j]])
Expect == IF encinc THEN Input ELSE IndependentText
(* is a difference explained by U+FEFF characters alone? *)
Clause(got, want) == IF Strip(got) = Strip(want) THEN "bom" ELSE "roundtrip"
ClausePrefix(got, want) == IF IsPrefix(Strip(got), Strip(want)) THEN "bom" ELSE "roundtrip"

TraceInit ==
    /\ tid \in 1..Len(Traces)
    /\ l = 0 /\ st = "enc" /\ real = <<>> /\ insync = TRUE
    /\ strings = Traces[tid].strings /\ encinc = Traces[tid].inc
    /\ ph = "enc" /\ ei = 0 /\ bomdone = FALSE /\ wire = <<>>
    /\ pos = 0 /\ pending = <<>> /\ bomseen = (BomLen = 0) /\ out = <<>>
    /\ ended = "open" /\ hist = <<>>

(* a clause of the property: a verdict in incremental mode, a note otherwise *)
Reject(step, clause) ==
    /\ IF encinc THEN PrintT(<<"VERDICT", tid, "REJECT", step, clause>>)
       ELSE PrintT(<<"VERDICT", tid, "ACCEPT", step, FALSE>>)
    /\ st' = "end"
    /\ UNCHANGED <<vars, tid, l, real, insync>>

RejectModel(step, clause) ==
    /\ PrintT(<<"VERDICT", tid, "REJECT", step, clause>>)
    /\ st' = "end"
    /\ UNCHANGED <<vars, tid, l, real, insync>>

TraceEncNext ==
    /\ st = "enc" /\ EncNext
    /\ UNCHANGED <<tid, l, st, real, insync>>

TraceEncComplete ==
    /\ st = "enc" /\ EncComplete
    /\ st' = "wire"
    /\ UNCHANGED <<tid, l, real, insync>>

ModelWidths == [j \in 1..Len(strings) |-> [q \in 1..Len(strings[j]) |-> WidthOf(strings[j][q])]]

(* the encoder side: the real wire against the model wire *)
TraceWire ==
    /\ st = "wire"
    /\ IF T.widths # ModelWidths THEN RejectModel(0, "model-width")
       ELSE IF T.encended # "completed" THEN Reject(0, "completion")
       ELSE IF T.wirelen = 0 /\ Input = <<>> /\ Len(wire) > 0 THEN
            \* nothing to encode and nothing written (e.g. encoder created lazily):
            \* not constrained by C17; continue with the empty wire
            /\ wire' = <<>> /\ insync' = FALSE /\ st' = "run"
            /\ UNCHANGED <<strings, encinc, ph, ei, bomdone, pos, pending, bomseen, out,
                           ended, hist, tid, l, real>>
       ELSE IF T.wirecps # ExpectWire THEN
            LET want == ExpectWire IN Reject(0, Clause(T.wirecps, want))
       ELSE IF T.bomlen # (IF Len(wire) > 0 THEN BomLen ELSE 0) THEN Reject(0, "bom")
       ELSE IF T.wirelen # Len(wire) THEN RejectModel(0, "model-wirelen")
       ELSE /\ st' = "run"
            /\ UNCHANGED <<vars, tid, l, real, insync>>

TraceFeed ==
    /\ st = "run" /\ l < Len(T.feeds)
    /\ LET f == T.feeds[l + 1]
           m == Len(real)
           mrel == DecRelease(pending \o SubSeq(wire, pos + 1, pos + f.n), bomseen)
           want == Expect
       IN
        IF pos + f.n > Len(wire) THEN RejectModel(l + 1, "model-harness-chunk")
        ELSE IF m + Len(f.rel) > Len(want) \/ f.rel # SubSeq(want, m + 1, m + Len(f.rel))
             THEN Reject(l + 1, ClausePrefix(real \o f.rel, want))
        ELSE IF m + Len(f.rel) > Len(out) + Len(mrel) THEN Reject(l + 1, "early-output")
        ELSE /\ Feed(f.n)
             /\ real' = real \o f.rel
             /\ insync' = (insync /\ f.rel = mrel)
             /\ l' = l + 1
             /\ UNCHANGED <<tid, st>>

TraceComplete ==
    /\ st = "run" /\ l = Len(T.feeds)
    /\ IF pos = Len(wire) THEN
            LET want == Expect IN
            IF out # want \/ pending # <<>> THEN RejectModel(l, "model-roundtrip")
            ELSE IF T.ended # "completed" THEN Reject(l + 1, "completion")
            ELSE IF real \o T.final # want THEN Reject(l + 1, Clause(real \o T.final, want))
            ELSE /\ Complete
                 /\ PrintT(<<"VERDICT", tid, "ACCEPT", l + 1, insync /\ T.final = <<>> >>)
                 /\ st' = "end"
                 /\ UNCHANGED <<tid, l, real, insync>>
       ELSE \* the harness ended the stream before the end of the wire
            IF pending = <<>> THEN RejectModel(l, "model-harness-short")
            ELSE IF T.ended = "completed" THEN Reject(l + 1, "truncation")
            ELSE /\ Complete
                 /\ PrintT(<<"VERDICT", tid, "ACCEPT", l + 1, insync>>)
                 /\ st' = "end"
                 /\ UNCHANGED <<tid, l, real, insync>>

TraceNext == TraceEncNext \/ TraceEncComplete \/ TraceWire \/ TraceFeed \/ TraceComplete

TraceSpec == TraceInit /\ [][TraceNext]_tvars

(* the design-level invariants must also hold along every real trace *)
TraceConfluence == st = "run" => Confluence /\ NoEarlyOutput
TraceEnded == st = "end" /\ ph = "done" /\ pos < Len(wire) => ended = "error"
=============================================================================
