------------------------------ MODULE Sources ------------------------------
(***************************************************************************)
(* Sources, sinks and small utility operators that no listed property      *)
(* speaks about (checked by bin/check-extras, not part of MANIFEST.json).  *)
(* One observer protocol for all of them:                                  *)
(*     out   the notifications the subscriber received, in order:          *)
(*           <<"n", v>>, <<"c">> (completed), <<"e", code>> (error)        *)
(*                                                                         *)
(*   Which = "iter"   rs.ops.from_iterable(it): the items of the iterable  *)
(*                    in order, then completion; an exception raised by    *)
(*                    the iterable becomes on_error; a subscriber that     *)
(*                    disposes while it receives item k (take(k) does)     *)
(*                    gets nothing more -- not even a completion           *)
(*   Which = "deque"  rs.data.to_deque(extend): nothing until the source   *)
(*                    completes, then every buffered item in arrival order *)
(*                    (extend: the items are lists, flattened), then the   *)
(*                    completion; a source error is forwarded at once and  *)
(*                    the buffer is never delivered                        *)
(*   Which = "cache"  rs.data.cache(): the output equals the input item    *)
(*                    for item, and equal items are one object (the first  *)
(*                    one seen).  As coded, a None item is emitted, and    *)
(*                    then runs into the interning code as well: it raises *)
(*                    when None is the first item or the items are         *)
(*                    strings, and is emitted a second time otherwise      *)
(*                    (deviation from the documented behaviour, modelled   *)
(*                    as it is)                                            *)
(*   Which = "run"    rs.run(observable): the last item (None if there is  *)
(*                    none), or the error raised                           *)
(*   Which = "onsub"  rs.ops.on_subscribe(action): the action runs once    *)
(*                    per subscription, as soon as the source has been     *)
(*                    subscribed.  Under the default current-thread        *)
(*                    scheduling the subscriber's own subscribe() call     *)
(*                    holds the trampoline, so even a cold source emits    *)
(*                    only after the action ran                            *)
(***************************************************************************)
EXTENDS Integers, Sequences, FiniteSets, TLC

CONSTANTS Which,        \* "iter" | "deque" | "cache" | "run" | "onsub"
          Vals,         \* item values (positive integers); 0 stands for None
          MaxLen,       \* length of the source
          Extend,       \* deque: extend mode (items are sequences)
          StrItems      \* cache: the items are strings (sys.intern) - None then always raises

VARIABLES src,      \* the source as a sequence of events: <<"n", v>>, <<"x", code>> (raises), implicit end
          pos,      \* events consumed
          disposeAt,\* iter: the subscriber disposes while receiving its k-th item (0: never)
          out,      \* notifications delivered
          buf,      \* deque: buffer;  cache: intern table as a sequence of first occurrences
          ids,      \* cache: for each emitted item the index (in src) of the object that was emitted
          acted,    \* onsub: number of times the action ran
          done
vars == <<src, pos, disposeAt, out, buf, ids, acted, done>>

Items == IF Which = "deque" /\ Extend
         THEN {<<>>} \cup {<<a>> : a \in Vals} \cup {<<a, b>> : a, b \in Vals}
         ELSE IF Which = "cache" THEN Vals \cup {0} ELSE Vals

RECURSIVE SeqsUpTo(_, _)
SeqsUpTo(S, n) == IF n = 0 THEN {<<>>} ELSE SeqsUpTo(S, n - 1) \cup
                      {Append(s, x) : s \in {t \in SeqsUpTo(S, n - 1) : Len(t) = n - 1}, x \in S}

Sources ==
    LET plain == {[q \in 1..Len(s) |-> <<"n", s[q]>>] : s \in SeqsUpTo(Items, MaxLen)}
    IN plain \cup (IF Which \in {"iter", "deque", "run"}
                   THEN {Append(p, <<"x", 7>>) : p \in {r \in plain : Len(r) < MaxLen}} ELSE {})

Init ==
    /\ src \in Sources
    /\ pos = 0 /\ out = <<>> /\ buf = <<>> /\ ids = <<>> /\ acted = 0 /\ done = FALSE
    /\ disposeAt \in (IF Which = "iter" THEN 0..MaxLen ELSE {0})

Delivered == Cardinality({q \in 1..Len(out) : out[q][1] = "n"})

(* ---- one source event, as each operator is coded ---- *)
Flatten2(b, x) == IF Extend THEN b \o x ELSE Append(b, x)

FirstEq(b, v) == CHOOSE q \in 1..Len(b) : b[q][1] = v

Act ==      \* on_subscribe: source.subscribe() has returned
    /\ Which = "onsub" /\ acted = 0
    /\ acted' = 1
    /\ UNCHANGED <<src, pos, disposeAt, out, buf, ids, done>>

Step ==
    /\ ~done /\ pos < Len(src) /\ (Which = "onsub" => acted = 1)
    /\ LET e == src[pos + 1] IN
       CASE Which = "iter" ->
              IF e[1] = "x"
              THEN /\ out' = Append(out, <<"e", e[2]>>) /\ done' = TRUE
                   /\ UNCHANGED <<buf, ids, acted>>
              ELSE /\ out' = Append(out, e)
                   \* the subscriber may dispose from inside on_next: the loop then stops
                   \* without completing
                   /\ done' = (disposeAt = Delivered + 1)
                   /\ UNCHANGED <<buf, ids, acted>>
         [] Which = "deque" ->
              IF e[1] = "x"
              THEN /\ out' = Append(out, <<"e", e[2]>>) /\ done' = TRUE /\ UNCHANGED <<buf, ids, acted>>
              ELSE /\ buf' = Flatten2(buf, e[2]) /\ UNCHANGED <<out, ids, acted, done>>
         [] Which = "cache" ->
              LET v == e[2]
                  known == \E q \in 1..Len(buf) : buf[q][1] = v
                  ident == IF known THEN buf[FirstEq(buf, v)][2] ELSE pos + 1
              IN IF v = 0
                 THEN \* None: emitted as is, then handed to the interning code as well
                      IF buf = <<>> \/ StrItems
                      THEN /\ out' = out \o << <<"n", 0>>, <<"e", 1>> >> /\ done' = TRUE
                           /\ ids' = Append(ids, 0) /\ UNCHANGED <<buf, acted>>
                      ELSE /\ out' = out \o << <<"n", 0>>, <<"n", 0>> >>
                           /\ ids' = ids \o <<0, 0>>          \* None is one object anyway
                           /\ buf' = IF known THEN buf ELSE Append(buf, <<v, pos + 1>>)
                           /\ UNCHANGED <<acted, done>>
                 ELSE /\ out' = Append(out, <<"n", v>>)
                      /\ ids' = Append(ids, ident)
                      /\ buf' = IF known THEN buf ELSE Append(buf, <<v, pos + 1>>)
                      /\ UNCHANGED <<acted, done>>
         [] Which = "run" ->
              IF e[1] = "x"
              THEN /\ out' = <<"e", e[2]>> /\ done' = TRUE /\ UNCHANGED <<buf, ids, acted>>
              ELSE /\ buf' = <<e[2]>> /\ UNCHANGED <<out, ids, acted, done>>
         [] Which = "onsub" ->
              /\ out' = Append(out, e) /\ UNCHANGED <<buf, ids, acted, done>>
    /\ pos' = pos + 1
    /\ UNCHANGED <<src, disposeAt>>

Finish ==
    /\ ~done /\ pos = Len(src) /\ (Which = "onsub" => acted = 1)
    /\ CASE Which = "deque" -> out' = out \o [q \in 1..Len(buf) |-> <<"n", buf[q]>>] \o << <<"c">> >>
         [] Which = "run"   -> out' = IF buf = <<>> THEN <<"r", 0>> ELSE <<"r", buf[1]>>
         [] OTHER           -> out' = Append(out, <<"c">>)
    /\ done' = TRUE
    /\ UNCHANGED <<src, pos, disposeAt, buf, ids, acted>>

Next == Act \/ Step \/ Finish
Spec == Init /\ [][Next]_vars

-----------------------------------------------------------------------------
(* statements, on terminal states *)
SrcItems == [q \in 1..Len(SelectSeq(src, LAMBDA e : e[1] = "n")) |-> SelectSeq(src, LAMBDA e : e[1] = "n")[q][2]]
Raises == src # <<>> /\ src[Len(src)][1] = "x"

RECURSIVE FlatAll(_)
FlatAll(ss) == IF ss = <<>> THEN <<>> ELSE (IF Extend THEN Head(ss) ELSE <<Head(ss)>>) \o FlatAll(Tail(ss))

IterStatement ==
    (Which = "iter" /\ done) =>
        LET n == Len(SrcItems)
            k == IF disposeAt = 0 \/ disposeAt > n THEN n ELSE disposeAt
            items == [q \in 1..k |-> <<"n", SrcItems[q]>>]
        IN out = items \o (IF disposeAt # 0 /\ disposeAt <= n THEN <<>>
                           ELSE IF Raises THEN << <<"e", 7>> >> ELSE << <<"c">> >>)

DequeStatement ==
    /\ (Which = "deque" /\ ~done) => out = <<>>          \* nothing before the end
    /\ (Which = "deque" /\ done) =>
          IF Raises THEN out = << <<"e", 7>> >>
          ELSE out = [q \in 1..Len(FlatAll(SrcItems)) |-> <<"n", FlatAll(SrcItems)[q]>>] \o << <<"c">> >>

(* cache, for sources without None: the values are unchanged and equal values are one object *)
CacheStatement ==
    (Which = "cache" /\ done /\ \A q \in 1..Len(SrcItems) : SrcItems[q] # 0) =>
        /\ out = [q \in 1..Len(SrcItems) |-> <<"n", SrcItems[q]>>] \o << <<"c">> >>
        /\ \A a, b \in 1..Len(ids) : (SrcItems[a] = SrcItems[b]) <=> (ids[a] = ids[b])
        /\ \A a \in 1..Len(ids) : ids[a] <= a /\ SrcItems[ids[a]] = SrcItems[a]

RunStatement ==
    (Which = "run" /\ done) =>
        out = IF Raises THEN <<"e", 7>>
              ELSE IF SrcItems = <<>> THEN <<"r", 0>> ELSE <<"r", SrcItems[Len(SrcItems)]>>

OnSubStatement ==
    /\ Which = "onsub" => acted <= 1
    /\ (Which = "onsub" /\ done) => acted = 1 /\ out = [q \in 1..Len(src) |-> src[q]] \o << <<"c">> >>
    /\ (Which = "onsub" /\ out # <<>>) => acted = 1      \* nothing is delivered before the action

EmitBehaviour == done => PrintT(<<"BEH", Which, src, disposeAt, out, ids, acted>>)
=============================================================================
