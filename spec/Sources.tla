------------------------------ MODULE Sources ------------------------------
(***************************************************************************)
(* Sources, sinks and small utility operators that no listed property      *)
(* speaks about (checked by bin/check-extras, not part of MANIFEST.json).  *)
(* One observer protocol for all of them:                                  *)
(*     out   the notifications the subscriber received, in order:          *)
(*           <<"n", v>>, <<"c">> (completed), <<"e", code>> (error)        *)
(*                                                                         *)
(*   Which = "iter"   rs.ops.from_iterable(it): the items of the iterable  *)
(*                    in order, then completion; an exception raised by    *)
(*                    the iterable becomes on_error; a subscriber that     *)
(*                    disposes while it receives item k (take(k) does)     *)
(*                    gets nothing more -- not even a completion           *)
(*   Which = "deque"  rs.data.to_deque(extend): nothing until the source   *)
(*                    completes, then every buffered item in arrival order *)
(*                    (extend: the items are lists, flattened), then the   *)
(*                    completion; a source error is forwarded at once and  *)
(*                    the buffer is never delivered                        *)
(*   Which = "cache"  rs.data.cache(): the output equals the input item    *)
(*                    for item, and equal items are one object (the first  *)
(*                    one seen).  As coded, a None item is emitted, and    *)
(*                    then runs into the interning code as well: it raises *)
(*                    when None is the first item or the items are         *)
(*                    strings, and is emitted a second time otherwise      *)
(*                    (deviation from the documented behaviour, modelled   *)
(*                    as it is)                                            *)
(*   Which = "run"    rs.run(observable): the last item (None if there is  *)
(*                    none), or the error raised                           *)
(*   Which = "onsub"  rs.ops.on_subscribe(action): the action runs once    *)
(*                    per subscription, as soon as the source has been     *)
(*                    subscribed.  Under the default current-thread        *)
(*                    scheduling the subscriber's own subscribe() call     *)
(*                    holds the trampoline, so even a cold source emits    *)
(*                    only after the action ran                            *)
(*   Which = "pandas" rs.ops.from_pandas(df) | rs.ops.to_pandas(): every    *)
(*                    row of the frame as one item, in order; to_pandas    *)
(*                    emits exactly one frame holding the items at         *)
(*                    completion -- and nothing at all for an empty source *)
(*   Which = "walk"   rs.io.walk(top): every file below top exactly once,  *)
(*                    the files of a directory together (one os.walk       *)
(*                    entry) and before the files of its sub-directories;  *)
(*                    the order among siblings is the file system's        *)
(***************************************************************************)
EXTENDS Integers, Sequences, FiniteSets, TLC

CONSTANTS Which,        \* "iter" | "deque" | "cache" | "run" | "onsub"
          Vals,         \* item values (positive integers); 0 stands for None
          MaxLen,       \* length of the source
          Extend,       \* deque: extend mode (items are sequences)
          StrItems,     \* cache: the items are strings (sys.intern) - None then always raises
          TreeId        \* walk: which of the directory trees below

VARIABLES src,      \* the source as a sequence of events: <<"n", v>>, <<"x", code>> (raises), implicit end
          pos,      \* events consumed
          disposeAt,\* iter: the subscriber disposes while receiving its k-th item (0: never)
          out,      \* notifications delivered
          buf,      \* deque: buffer;  cache: intern table as a sequence of first occurrences
          ids,      \* cache: for each emitted item the index (in src) of the object that was emitted
          acted,    \* onsub: number of times the action ran
          done
vars == <<src, pos, disposeAt, out, buf, ids, acted, done>>

Items == IF Which = "pandas" THEN {<<a, b>> : a, b \in Vals}
         ELSE IF Which = "deque" /\ Extend
         THEN {<<>>} \cup {<<a>> : a \in Vals} \cup {<<a, b>> : a, b \in Vals}
         ELSE IF Which = "cache" THEN Vals \cup {0} ELSE Vals

RECURSIVE SeqsUpTo(_, _)
SeqsUpTo(S, n) == IF n = 0 THEN {<<>>} ELSE SeqsUpTo(S, n - 1) \cup
                      {Append(s, x) : s \in {t \in SeqsUpTo(S, n - 1) : Len(t) = n - 1}, x \in S}

Sources ==
    LET plain == {[q \in 1..Len(s) |-> <<"n", s[q]>>] : s \in SeqsUpTo(Items, MaxLen)}
    IN plain \cup (IF Which \in {"iter", "deque", "run"}
                   THEN {Append(p, <<"x", 7>>) : p \in {r \in plain : Len(r) < MaxLen}} ELSE {})

(* ---- directory trees for walk: path (sequence of names) -> files and sub-directories ---- *)
Dir(fs, ds) == [files |-> fs, dirs |-> ds]
Tree ==
    CASE TreeId = 1 -> (<<>> :> Dir({"f1", "f2"}, {}))
      [] TreeId = 2 -> (<<>> :> Dir({"f1"}, {"a"})) @@ (<<"a">> :> Dir({"f2", "f3"}, {}))
      [] TreeId = 3 -> (<<>> :> Dir({}, {"a"})) @@ (<<"a">> :> Dir({"f1"}, {"b"}))
                       @@ (<<"a", "b">> :> Dir({"f2"}, {}))
      [] TreeId = 4 -> (<<>> :> Dir({"f1"}, {"a", "b"})) @@ (<<"a">> :> Dir({"f2"}, {}))
                       @@ (<<"b">> :> Dir({"f3", "f4"}, {}))
      [] TreeId = 5 -> (<<>> :> Dir({}, {}))
      [] TreeId = 6 -> (<<>> :> Dir({"f1"}, {"a", "b"})) @@ (<<"a">> :> Dir({}, {"c"}))
                       @@ (<<"a", "c">> :> Dir({"f2"}, {})) @@ (<<"b">> :> Dir({"f3"}, {}))

Orders(S) == {s \in [1..Cardinality(S) -> S] : \A a, b \in 1..Cardinality(S) : a # b => s[a] # s[b]}

Init ==
    /\ src \in (IF Which = "walk" THEN {<<>>} ELSE Sources)
    /\ pos = 0 /\ out = <<>> /\ ids = <<>> /\ acted = 0 /\ done = FALSE
    /\ buf = IF Which = "walk" THEN << <<>> >> ELSE <<>>
    /\ disposeAt \in (IF Which = "iter" THEN 0..MaxLen ELSE {0})

Delivered == Cardinality({q \in 1..Len(out) : out[q][1] = "n"})

(* ---- one source event, as each operator is coded ---- *)
Flatten2(b, x) == IF Extend THEN b \o x ELSE Append(b, x)

FirstEq(b, v) == CHOOSE q \in 1..Len(b) : b[q][1] = v

Act ==      \* on_subscribe: source.subscribe() has returned
    /\ Which = "onsub" /\ acted = 0
    /\ acted' = 1
    /\ UNCHANGED <<src, pos, disposeAt, out, buf, ids, done>>

Step ==
    /\ ~done /\ pos < Len(src) /\ (Which = "onsub" => acted = 1)
    /\ LET e == src[pos + 1] IN
       CASE Which = "iter" ->
              IF e[1] = "x"
              THEN /\ out' = Append(out, <<"e", e[2]>>) /\ done' = TRUE
                   /\ UNCHANGED <<buf, ids, acted>>
              ELSE /\ out' = Append(out, e)
                   \* the subscriber may dispose from inside on_next: the loop then stops
                   \* without completing
                   /\ done' = (disposeAt = Delivered + 1)
                   /\ UNCHANGED <<buf, ids, acted>>
         [] Which = "deque" ->
              IF e[1] = "x"
              THEN /\ out' = Append(out, <<"e", e[2]>>) /\ done' = TRUE /\ UNCHANGED <<buf, ids, acted>>
              ELSE /\ buf' = Flatten2(buf, e[2]) /\ UNCHANGED <<out, ids, acted, done>>
         [] Which = "cache" ->
              LET v == e[2]
                  known == \E q \in 1..Len(buf) : buf[q][1] = v
                  ident == IF known THEN buf[FirstEq(buf, v)][2] ELSE pos + 1
              IN IF v = 0
                 THEN \* None: emitted as is, then handed to the interning code as well
                      IF buf = <<>> \/ StrItems
                      THEN /\ out' = out \o << <<"n", 0>>, <<"e", 1>> >> /\ done' = TRUE
                           /\ ids' = Append(ids, 0) /\ UNCHANGED <<buf, acted>>
                      ELSE /\ out' = out \o << <<"n", 0>>, <<"n", 0>> >>
                           /\ ids' = ids \o <<0, 0>>          \* None is one object anyway
                           /\ buf' = IF known THEN buf ELSE Append(buf, <<v, pos + 1>>)
                           /\ UNCHANGED <<acted, done>>
                 ELSE /\ out' = Append(out, <<"n", v>>)
                      /\ ids' = Append(ids, ident)
                      /\ buf' = IF known THEN buf ELSE Append(buf, <<v, pos + 1>>)
                      /\ UNCHANGED <<acted, done>>
         [] Which = "pandas" ->       \* to_pandas = to_list | filter(len) | DataFrame
              /\ buf' = Append(buf, e[2]) /\ UNCHANGED <<out, ids, acted, done>>
         [] Which = "run" ->
              IF e[1] = "x"
              THEN /\ out' = <<"e", e[2]>> /\ done' = TRUE /\ UNCHANGED <<buf, ids, acted>>
              ELSE /\ buf' = <<e[2]>> /\ UNCHANGED <<out, ids, acted, done>>
         [] Which = "onsub" ->
              /\ out' = Append(out, e) /\ UNCHANGED <<buf, ids, acted, done>>
    /\ pos' = pos + 1
    /\ UNCHANGED <<src, disposeAt>>

(* os.walk, top-down: one entry per directory (its files, in listing order), then its
   sub-directories depth first, in listing order *)
Visit ==
    /\ Which = "walk" /\ ~done /\ buf # <<>>
    /\ LET d == Head(buf) IN
       \E fo \in Orders(Tree[d].files), dord \in Orders(Tree[d].dirs) :
          /\ out' = out \o [q \in 1..Len(fo) |-> <<"n", Append(d, fo[q])>>]
          /\ buf' = [q \in 1..Len(dord) |-> Append(d, dord[q])] \o Tail(buf)
    /\ UNCHANGED <<src, pos, disposeAt, ids, acted, done>>

Finish ==
    /\ ~done /\ pos = Len(src) /\ (Which = "onsub" => acted = 1) /\ (Which = "walk" => buf = <<>>)
    /\ CASE Which = "deque" -> out' = out \o [q \in 1..Len(buf) |-> <<"n", buf[q]>>] \o << <<"c">> >>
         [] Which = "run"   -> out' = IF buf = <<>> THEN <<"r", 0>> ELSE <<"r", buf[1]>>
         [] Which = "pandas" -> out' = IF buf = <<>> THEN << <<"c">> >> ELSE << <<"n", buf>>, <<"c">> >>
         [] OTHER           -> out' = Append(out, <<"c">>)
    /\ done' = TRUE
    /\ UNCHANGED <<src, pos, disposeAt, buf, ids, acted>>

Next == Act \/ Step \/ Visit \/ Finish
Spec == Init /\ [][Next]_vars

-----------------------------------------------------------------------------
(* statements, on terminal states *)
SrcItems == [q \in 1..Len(SelectSeq(src, LAMBDA e : e[1] = "n")) |-> SelectSeq(src, LAMBDA e : e[1] = "n")[q][2]]
Raises == src # <<>> /\ src[Len(src)][1] = "x"

RECURSIVE FlatAll(_)
FlatAll(ss) == IF ss = <<>> THEN <<>> ELSE (IF Extend THEN Head(ss) ELSE <<Head(ss)>>) \o FlatAll(Tail(ss))

IterStatement ==
    (Which = "iter" /\ done) =>
        LET n == Len(SrcItems)
            k == IF disposeAt = 0 \/ disposeAt > n THEN n ELSE disposeAt
            items == [q \in 1..k |-> <<"n", SrcItems[q]>>]
        IN out = items \o (IF disposeAt # 0 /\ disposeAt <= n THEN <<>>
                           ELSE IF Raises THEN << <<"e", 7>> >> ELSE << <<"c">> >>)

DequeStatement ==
    /\ (Which = "deque" /\ ~done) => out = <<>>          \* nothing before the end
    /\ (Which = "deque" /\ done) =>
          IF Raises THEN out = << <<"e", 7>> >>
          ELSE out = [q \in 1..Len(FlatAll(SrcItems)) |-> <<"n", FlatAll(SrcItems)[q]>>] \o << <<"c">> >>

(* cache, for sources without None: the values are unchanged and equal values are one object *)
CacheStatement ==
    (Which = "cache" /\ done /\ \A q \in 1..Len(SrcItems) : SrcItems[q] # 0) =>
        /\ out = [q \in 1..Len(SrcItems) |-> <<"n", SrcItems[q]>>] \o << <<"c">> >>
        /\ \A a, b \in 1..Len(ids) : (SrcItems[a] = SrcItems[b]) <=> (ids[a] = ids[b])
        /\ \A a \in 1..Len(ids) : ids[a] <= a /\ SrcItems[ids[a]] = SrcItems[a]

PandasStatement ==
    (Which = "pandas" /\ done) =>
        out = IF SrcItems = <<>> THEN << <<"c">> >> ELSE << <<"n", SrcItems>>, <<"c">> >>

AllFiles == UNION {{Append(d, f) : f \in Tree[d].files} : d \in DOMAIN Tree}
IsPrefixOf(a, b) == Len(a) <= Len(b) /\ SubSeq(b, 1, Len(a)) = a
DirOf(p) == SubSeq(p, 1, Len(p) - 1)

WalkStatement ==
    (Which = "walk" /\ done) =>
        LET n == Len(out) - 1 IN
        /\ out[Len(out)] = <<"c">>
        /\ {out[q][2] : q \in 1..n} = AllFiles /\ n = Cardinality(AllFiles)      \* each file once
        /\ \A a, b \in 1..n :
              \* the files of one directory come together ...
              /\ (a < b /\ DirOf(out[a][2]) = DirOf(out[b][2]))
                    => \A c \in a..b : DirOf(out[c][2]) = DirOf(out[a][2])
              \* ... and before those of its sub-directories
              /\ (DirOf(out[a][2]) # DirOf(out[b][2]) /\ IsPrefixOf(DirOf(out[a][2]), DirOf(out[b][2])))
                    => a < b

RunStatement ==
    (Which = "run" /\ done) =>
        out = IF Raises THEN <<"e", 7>>
              ELSE IF SrcItems = <<>> THEN <<"r", 0>> ELSE <<"r", SrcItems[Len(SrcItems)]>>

OnSubStatement ==
    /\ Which = "onsub" => acted <= 1
    /\ (Which = "onsub" /\ done) => acted = 1 /\ out = [q \in 1..Len(src) |-> src[q]] \o << <<"c">> >>
    /\ (Which = "onsub" /\ out # <<>>) => acted = 1      \* nothing is delivered before the action

EmitBehaviour == done => PrintT(<<"BEH", Which, src, disposeAt, out, ids, acted>>)
=============================================================================
