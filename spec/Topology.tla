------------------------------ MODULE Topology ------------------------------
(***************************************************************************)
(* How stateful operators obtain their state ids (state/state_topology.py, *)
(* state/with_store.py), for the single-pipeline form and for the multi-   *)
(* source form with_store(store, sources=[...]).                           *)
(*                                                                         *)
(* A store section sends a ProbeStateTopology event down each pipeline     *)
(* when that pipeline is subscribed; every stateful operator answers by    *)
(* calling create_state on the topology carried by the event and keeps the *)
(* returned id (the length of the state list before the call).  In the     *)
(* multi-source form one topology is shared by all the sources, the store  *)
(* receives it (set_topology) when the last source has been subscribed,    *)
(* and only then are the sources themselves subscribed.                    *)
(*                                                                         *)
(* Statements:                                                             *)
(*   UniqueIds     two different operator instances (whatever their        *)
(*                 source) never hold the same state id                    *)
(*   DenseIds      the ids handed out are exactly 0 .. number of states-1  *)
(*   NamesUnique   the generated state names "<name>-<k>" are unique       *)
(*   StoreComplete when the store receives the topology it lists every     *)
(*                 state of every source, and no event of a source was     *)
(*                 delivered before that                                   *)
(*                                                                         *)
(* Deviation "per-source-topology" (each source probed with a topology of  *)
(* its own: the slip written independently by eight seeding agents) must   *)
(* violate UniqueIds.  Checked by bin/check-extras; every subscription     *)
(* order of the bounded model is replayed on the real with_store.          *)
(***************************************************************************)
EXTENDS Integers, Sequences, FiniteSets, TLC

CONSTANTS CfgId,        \* which of the configurations below
          Deviation     \* "none" | "per-source-topology"

(* Ops[s]: sequence of state names declared by the operators of source s, in pipeline
   order (an operator may declare several states); one source: the single-pipeline form *)
OpsTable == <<
    << <<"scan", "scan", "lag">> >>,
    << <<"scan", "lag">>, <<"scan">> >>,
    << <<"groupby", "scan", "scan">>, <<"scan", "groupby">> >>,
    << <<"a">>, <<"a", "b">>, <<>> >>,
    << <<"scan", "scan">>, <<"scan">>, <<"take", "scan">> >>,
    << <<"split">>, <<"time_split", "time_split">>, <<"roll", "roll", "split">> >>
>>
Ops == OpsTable[CfgId]
NSources == Len(Ops)

VARIABLES subscribed,   \* sequence of sources in subscription order
          topo,         \* the shared topology: sequence of unique state names
          own,          \* own[s]: the per-source topology (used by the deviation only)
          ids,          \* ids[s]: sequence of ids obtained by the operators of source s
          storeTopo,    \* what the store was given by set_topology
          storeSet,     \* set_topology has been called
          started       \* the sources have been subscribed upstream (events can flow)
vars == <<subscribed, topo, own, ids, storeTopo, storeSet, started>>

Sources == 1..NSources

Init ==
    /\ subscribed = <<>> /\ topo = <<>> /\ own = [s \in Sources |-> <<>>]
    /\ ids = [s \in Sources |-> <<>>] /\ storeTopo = <<>> /\ storeSet = FALSE /\ started = FALSE

(* create_state(name): "<name>-<k>" with k the number of earlier states of that name *)
CountName(t, name) == Cardinality({q \in 1..Len(t) : t[q][1] = name})
Declare(t, name) == Append(t, <<name, CountName(t, name)>>)

RECURSIVE Probe(_, _, _)      \* -> <<topology after the probe, ids handed out>>
Probe(t, names, acc) ==
    IF names = <<>> THEN <<t, acc>>
    ELSE Probe(Declare(t, Head(names)), Tail(names), Append(acc, Len(t)))

Subscribe(s) ==
    /\ \A q \in 1..Len(subscribed) : subscribed[q] # s
    /\ LET shared == Deviation = "none"
           r == Probe(IF shared THEN topo ELSE own[s], Ops[s], <<>>)
           last == Len(subscribed) + 1 = NSources
       IN /\ ids' = [ids EXCEPT ![s] = r[2]]
          /\ topo' = IF shared THEN r[1] ELSE topo
          /\ own' = IF shared THEN own ELSE [own EXCEPT ![s] = r[1]]
          /\ subscribed' = Append(subscribed, s)
          \* the last subscriber: the store gets the topology, the sources are subscribed
          /\ storeTopo' = IF last THEN r[1] ELSE storeTopo
          /\ storeSet' = last
          /\ started' = last

Next == \E s \in Sources : Subscribe(s)
Spec == Init /\ [][Next]_vars

-----------------------------------------------------------------------------
Instances == UNION {{<<s, q>> : q \in 1..Len(Ops[s])} : s \in Sources}
IdOf(i) == ids[i[1]][i[2]]
Probed(i) == i[2] <= Len(ids[i[1]])

UniqueIds == \A a, b \in Instances : (Probed(a) /\ Probed(b) /\ a # b) => IdOf(a) # IdOf(b)

DenseIds == (Deviation = "none") =>
    {IdOf(i) : i \in {j \in Instances : Probed(j)}} = 0..(Len(topo) - 1)

NamesUnique == \A a, b \in 1..Len(topo) : a # b => topo[a] # topo[b]

StoreComplete ==
    /\ started => storeSet
    /\ (started /\ Deviation = "none") =>
          /\ storeTopo = topo
          /\ Len(topo) = Cardinality(Instances)
    /\ ~started => ~storeSet

EmitBehaviour == started => PrintT(<<"BEH", Ops, subscribed, ids, topo>>)
=============================================================================
