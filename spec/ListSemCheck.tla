---------------------------- MODULE ListSemCheck ----------------------------
(***************************************************************************)
(* TLC checks the layer-A list semantics against independent formulations *)
(* of the property statements (C04-C07, C09, C10), for every item sequence *)
(* over a small value set and every parameter in range.  A state is        *)
(* (operator descriptor, input sequence); the sequence grows one item per  *)
(* step, so the action property Monotone is exactly "nothing already       *)
(* emitted is ever retracted" (the basis of the promptness contract C11).  *)
(***************************************************************************)
EXTENDS ListSem, SequencesExt

CONSTANTS Family,    \* which group of operators / partitions to enumerate
          MaxLen

VARIABLES op, xs
vars == <<op, xs>>

Vals == {IntV(0), IntV(1), IntV(2), None}
IntVals == {IntV(0), IntV(1), IntV(2), IntV(3)}
NoFn == Fn("none", 0)

Scan(f, seed, red, term) == [op |-> "scan", f |-> f, seed |-> seed, reduce |-> red, term |-> term]

SeqOps ==
    {[op |-> "first"], [op |-> "last"], [op |-> "to_list"], [op |-> "identity"]}
    \cup {[op |-> "take", n |-> n] : n \in 0..3}
    \cup {[op |-> "lag", n |-> n] : n \in 0..3}
    \cup {[op |-> "batch", n |-> n] : n \in 1..3}
    \cup {[op |-> "distinct", f |-> Fn("id", 0)], [op |-> "duc", f |-> Fn("id", 0)]}
    \cup {[op |-> "pad_start", n |-> n, v |-> v] : n \in 0..2, v \in {None, IntV(9)}}
    \cup {[op |-> "pad_end", n |-> n, v |-> v] : n \in 0..2, v \in {None, IntV(9)}}
    \cup {[op |-> "start_with", p |-> p] : p \in {<<>>, <<IntV(7)>>, <<IntV(7), IntV(8)>>}}

IntOps ==
    {[op |-> "distinct", f |-> Fn("modc", 2)], [op |-> "duc", f |-> Fn("modc", 2)]}
    \cup {[op |-> o, f |-> Fn("id", 0), reduce |-> r] : o \in {"sum", "min", "max", "mean"},
                                                        r \in BOOLEAN}
    \cup {[op |-> "count", reduce |-> r] : r \in BOOLEAN}
    \cup {Scan(Fn(f, 0), IntV(0), r, t) : f \in {"add", "cnt"}, r \in BOOLEAN,
                                          t \in {NoFn, Fn("addc", 10)}}
    \cup {Scan(Fn("failAdd", 2), IntV(0), r, NoFn) : r \in BOOLEAN}
    \cup {Scan(Fn("appendNew", 0), LstV(<<>>), r, NoFn) : r \in BOOLEAN}
    \cup {[op |-> "map", f |-> Fn("failIf", 1)], [op |-> "filter", p |-> Fn("failIfP", 1)],
          [op |-> "filter", p |-> Fn("even", 0)]}

Roll(w, s) == [op |-> "roll", w |-> w, s |-> s]
PartOps ==
    {Roll(w, s) : w \in 1..5, s \in 1..5}
    \cup {[op |-> "split", f |-> Fn("divc", 2)], [op |-> "split", f |-> Fn("modc", 2)],
          [op |-> "group_by", f |-> Fn("modc", 2)], [op |-> "group_by", f |-> Fn("modc", 3)],
          [op |-> "group_by", f |-> Fn("id", 0)]}

(* time_split: items are <<timestamp, closing flag>>; timestamps are the running sum
   of the gaps chosen by the environment *)
TsOps ==
    {[op |-> "time_split", tm |-> Fn("fst", 0), active |-> a, inactive |-> i,
      closing |-> c, incl |-> inc] :
        a \in {-1, 0, 2, 3}, i \in {-1, 0, 1, 2}, c \in {NoFn, Fn("sndTrue", 0)}, inc \in BOOLEAN}

OpSet == CASE Family = "seq"  -> SeqOps
           [] Family = "int"  -> IntOps
           [] Family = "part" -> PartOps
           [] Family = "ts"   -> TsOps

NextVals ==
    CASE Family = "seq" -> Vals
      [] Family \in {"int", "part"} -> IntVals
      [] Family = "ts" ->
           LET last == IF xs = <<>> THEN 0 ELSE V(V(Last(xs))[1]) IN
           {TupV(<<IntV(last + g), BoolV(c)>>) : g \in 0..3, c \in BOOLEAN}

Init == op \in OpSet /\ xs = <<>>
Next == /\ Len(xs) < MaxLen
        /\ \E v \in NextVals : xs' = Append(xs, v)
        /\ UNCHANGED op
Spec == Init /\ [][Next]_vars

IsPart == op.op \in {"roll", "split", "group_by", "time_split"}

-----------------------------------------------------------------------------
(* C11 basis: outputs are never retracted *)
Monotone == [][IsPart \/ IsPrefix(RR(op, xs), RR(op, xs'))]_vars

RECURSIVE FoldL(_, _, _)
FoldL(f, acc, ys) ==
    IF ys = <<>> THEN acc
    ELSE LET r == Apply2(f, acc, Head(ys)) IN FoldL(f, IF IsErr(r) THEN acc ELSE r, Tail(ys))

n == Len(xs)
out == RR(op, xs)
fin == F(op, xs)
Keys(f, ys) == [j \in 1..Len(ys) |-> Apply(f, ys[j])]
IsSubseqIdx(idx) == \A j \in 1..(Len(idx) - 1) : idx[j] < idx[j + 1]

(* C10 / C09 statements, formulated without reference to R's own definitions *)
Statement ==
    CASE op.op = "first" -> out = (IF n = 0 THEN <<>> ELSE <<xs[1]>>) /\ fin = <<>>
      [] op.op = "last"  -> out = <<>> /\ fin = (IF n = 0 THEN <<>> ELSE <<xs[n]>>)
      [] op.op = "take"  -> /\ Len(out) = Min2(op.n, n)
                            /\ \A j \in 1..Len(out) : out[j] = xs[j]
                            /\ fin = <<>>
      [] op.op = "to_list" -> out = <<>> /\ fin = <<LstV(xs)>>
      [] op.op = "identity" -> out = xs /\ fin = <<>>
      [] op.op = "lag" -> /\ Len(out) = n /\ fin = <<>>
                          /\ \A j \in 1..n : out[j] = TupV(<<IF j > op.n THEN xs[j - op.n] ELSE xs[1],
                                                            xs[j]>>)
      [] op.op = "batch" ->
             /\ \A j \in 1..Len(out) : Len(V(out[j])) = op.n
             /\ \A j \in 1..Len(fin) : Len(V(fin[j])) > 0 /\ Len(V(fin[j])) < op.n
             /\ Len(fin) <= 1
             /\ Flatten([j \in 1..Len(out \o fin) |-> V((out \o fin)[j])]) = xs
      [] op.op = "distinct" ->
             LET ks == Keys(op.f, xs) ko == Keys(op.f, out) IN
             /\ \A a, b \in 1..Len(out) : a # b => ko[a] # ko[b]
             /\ {ko[j] : j \in 1..Len(ko)} = {ks[j] : j \in 1..n}
             /\ \A a \in 1..Len(out) :
                   \E j \in 1..n : xs[j] = out[a] /\ \A q \in 1..(j - 1) : ks[q] # ks[j]
             /\ fin = <<>>
      [] op.op = "duc" ->
             LET ks == Keys(op.f, xs) ko == Keys(op.f, out) IN
             /\ \A a \in 1..(Len(out) - 1) : ko[a] # ko[a + 1]
             /\ Len(out) = Cardinality({j \in 1..n : j = 1 \/ ks[j] # ks[j - 1]})
             /\ (n > 0 => out[1] = xs[1])
             /\ fin = <<>>
      [] op.op = "pad_start" ->
             /\ fin = <<>>
             /\ IF n = 0 THEN out = <<>>
                ELSE /\ Len(out) = n + op.n
                     /\ SubSeq(out, op.n + 1, Len(out)) = xs
                     /\ \A j \in 1..op.n : out[j] = (IF IsNone(op.v) THEN xs[1] ELSE op.v)
      [] op.op = "pad_end" ->
             /\ out = xs
             /\ IF n = 0 THEN fin = <<>>
                ELSE /\ Len(fin) = op.n
                     /\ \A j \in 1..op.n : fin[j] = (IF IsNone(op.v) THEN xs[n] ELSE op.v)
      [] op.op = "start_with" -> fin = <<>> /\ out = (IF n = 0 THEN <<>> ELSE op.p \o xs)
      [] op.op = "count" ->
             IF op.reduce THEN out = <<>> /\ fin = <<IntV(n)>>
             ELSE fin = <<>> /\ out = [j \in 1..n |-> IntV(j)]
      [] op.op \in {"sum", "min", "max", "mean"} ->
             LET acc(j) == CASE op.op = "sum" -> IntV(SumSeq([q \in 1..j |-> V(xs[q])]))
                             [] op.op = "mean" -> RatV(SumSeq([q \in 1..j |-> V(xs[q])]), j)
                             [] op.op = "min" ->
                                  IntV(CHOOSE m \in {V(xs[q]) : q \in 1..j} :
                                          \A q \in 1..j : m <= V(xs[q]))
                             [] op.op = "max" ->
                                  IntV(CHOOSE m \in {V(xs[q]) : q \in 1..j} :
                                          \A q \in 1..j : m >= V(xs[q]))
             IN IF op.reduce
                THEN /\ out = <<>>
                     /\ fin = (IF n > 0 THEN <<acc(n)>>
                               ELSE IF op.op = "sum" THEN <<IntV(0)>>
                               ELSE IF op.op = "mean" THEN <<>> ELSE <<None>>)
                ELSE fin = <<>> /\ out = [j \in 1..n |-> acc(j)]
      [] op.op = "scan" ->
             (* the i-th output is the left fold of the first i items; items on
                which the accumulator raises yield an error entry and are skipped *)
             LET fold(j) == FoldL(op.f, op.seed, SubSeq(xs, 1, j))
                 final == IF op.term.n = "none" THEN fold(n) ELSE Apply(op.term, fold(n))
                 good == {j \in 1..n : ~IsErr(Apply2(op.f, fold(j - 1), xs[j]))}
             IN /\ IF op.reduce
                   THEN Len(out) = n - Cardinality(good) /\ \A j \in 1..Len(out) : IsErr(out[j])
                   ELSE /\ Len(out) = n
                        /\ \A j \in 1..n : out[j] = (IF j \in good THEN fold(j)
                                                      ELSE Apply2(op.f, fold(j - 1), xs[j]))
                /\ fin = (IF op.reduce \/ op.term.n # "none" THEN <<final>> ELSE <<>>)
      [] op.op = "map" -> out = [j \in 1..n |-> Apply(op.f, xs[j])] /\ fin = <<>>
      [] op.op = "filter" ->
             /\ fin = <<>>
             /\ Len(out) = Cardinality({j \in 1..n : Test(op.p, xs[j]) # BoolV(FALSE)})
      [] OTHER -> TRUE

(* C09: with reduce the single emitted item equals the last running fold (or the seed) *)
ScanReduceAgrees ==
    op.op = "scan" /\ op.term.n = "none" =>
        LET s == [op EXCEPT !.reduce = FALSE]
            r == [op EXCEPT !.reduce = TRUE]
            run == SelectSeq(RR(s, xs), LAMBDA v : ~IsErr(v))
        IN F(r, xs) = <<IF run = <<>> THEN op.seed ELSE Last(run)>>

-----------------------------------------------------------------------------
(* C04-C07: the partitions *)
plan == Plan(op, xs)
Contig(c) == \A q \in 1..(Len(c.items) - 1) : c.items[q + 1] = c.items[q] + 1

PartitionStatement ==
    CASE op.op = "roll" ->
           /\ Len(plan) = Cardinality({j \in 0..(n - 1) : j % op.s = 0})
           /\ \A m \in 1..Len(plan) :
                LET c == plan[m] IN
                /\ c.start = (m - 1) * op.s + 1                 \* opens at every s-th item
                /\ Contig(c) /\ c.items # <<>> /\ c.items[1] = c.start
                /\ Len(c.items) = Min2(op.w, n - c.start + 1)   \* the next w items, no more
                /\ (c.close # 0) = (Len(c.items) = op.w)        \* full <=> closed by an item
                /\ (c.close # 0 => c.close = Last(c.items))
      [] op.op = "split" ->
           LET pv == Keys(op.f, xs) IN
           /\ IsPartition(plan, n)
           /\ \A m \in 1..Len(plan) :
                LET c == plan[m] IN
                /\ Contig(c) /\ c.items # <<>> /\ c.start = c.items[1]
                /\ \A q \in 1..Len(c.items) : pv[c.items[q]] = pv[c.start]    \* one value per run
                /\ (m < Len(plan) => /\ plan[m + 1].start = Last(c.items) + 1 \* in order
                                     /\ pv[plan[m + 1].start] # pv[c.start]   \* maximal
                                     /\ c.close = plan[m + 1].start)
                /\ (m = Len(plan) => c.close = 0)
           /\ (n = 0 <=> plan = <<>>)
      [] op.op = "group_by" ->
           LET kv == Keys(op.f, xs) IN
           /\ IsPartition(plan, n)
           /\ Len(plan) = Cardinality({kv[j] : j \in 1..n})     \* one group per distinct key
           /\ \A m \in 1..Len(plan) :
                LET c == plan[m] IN
                /\ IsSubseqIdx(c.items) /\ c.start = c.items[1] /\ c.close = 0
                /\ \A j \in 1..n : (kv[j] = kv[c.start]) <=>
                                   (\E q \in 1..Len(c.items) : c.items[q] = j)
                /\ (m < Len(plan) => c.start < plan[m + 1].start)   \* first-appearance order
      [] op.op = "time_split" ->
           LET ts == [j \in 1..n |-> V(V(xs[j])[1])]
               cl == [j \in 1..n |-> op.closing.n # "none" /\ V(xs[j])[2] = BoolV(TRUE)] IN
           /\ IsPartition(plan, n)
           /\ \A m \in 1..Len(plan) :
                LET c == plan[m] IN
                /\ Contig(c) /\ c.items # <<>>
                /\ (m < Len(plan) => plan[m + 1].items[1] = Last(c.items) + 1)
                (* inside a session no item (but the first) expires it *)
                /\ \A q \in 2..Len(c.items) :
                     LET j == c.items[q] IN
                     /\ (op.inactive >= 0 => ts[j] < ts[j - 1] + op.inactive)
                (* a closing item ends its session (included) or starts one (excluded),
                   unless it expired the session anyway *)
                /\ \A q \in 1..Len(c.items) :
                     LET j == c.items[q] IN
                     cl[j] /\ op.incl /\ q < Len(c.items) => q = 1
                /\ \A q \in 2..Len(c.items) :
                     LET j == c.items[q] IN cl[j] /\ ~op.incl => FALSE
           (* a session boundary has a reason: expiry or a closing item *)
           /\ \A m \in 1..(Len(plan) - 1) :
                LET a == Last(plan[m].items)
                    b == plan[m + 1].items[1] IN
                \/ cl[a] /\ op.incl
                \/ cl[b] /\ ~op.incl
                \/ (op.inactive >= 0 /\ ts[b] >= ts[a] + op.inactive)
                \/ (op.active >= 0 /\ \E r \in 1..a : ts[b] >= ts[r] + op.active)
      [] OTHER -> TRUE
=============================================================================
