------------------------------- MODULE Extras -------------------------------
(***************************************************************************)
(* Operators that no listed property speaks about, modelled to extend the  *)
(* specification's coverage of the library (checked by bin/check-extras,   *)
(* not part of MANIFEST.json):                                             *)
(*   Which = "wlf"   rs.ops.with_latest_from(children): the parent is      *)
(*                   subscribed only once every child has produced a       *)
(*                   value (a hot parent's earlier items are lost); every  *)
(*                   parent item then yields (item, latest of child 1, ..) *)
(*   Which = "tts"   rs.data.train_test_split(test_ratio, sampling_size):  *)
(*                   blocks of sampling_size consecutive items; block b    *)
(*                   (1-based) goes to the test output iff b % modulus = 0 *)
(*                   with modulus = int(1 / test_ratio); both outputs keep *)
(*                   the source order, every item goes to exactly one      *)
(***************************************************************************)
EXTENDS Integers, Sequences, FiniteSets, TLC

CONSTANTS Which, NChildren, Vals, Modulus, Sampling, MaxEvents

VARIABLES latest,   \* wlf: latest value per child, 0 = none yet
          psub,     \* wlf: parent subscribed
          out,      \* emitted tuples (wlf) / <<train, test>> (tts)
          acc,      \* tts: the scan accumulator <<index, sampling>> as coded (per output)
          hist      \* source events so far
vars == <<latest, psub, out, acc, hist>>

Init ==
    /\ latest = [i \in 1..NChildren |-> 0]
    /\ psub = FALSE
    /\ out = IF Which = "wlf" THEN <<>> ELSE << <<>>, <<>> >>
    /\ acc = <<1, Sampling>>
    /\ hist = <<>>

(* ---- with_latest_from, as coded ---- *)
ChildNext(i, v) ==
    /\ Which = "wlf" /\ Len(hist) < MaxEvents
    /\ latest' = [latest EXCEPT ![i] = v]
    /\ psub' = (psub \/ \A j \in 1..NChildren : latest'[j] # 0)
    /\ hist' = Append(hist, <<"c", i, v>>)
    /\ UNCHANGED <<out, acc>>

ParentNext(v) ==
    /\ Which = "wlf" /\ Len(hist) < MaxEvents
    /\ out' = IF psub /\ \A j \in 1..NChildren : latest[j] # 0
              THEN Append(out, <<v>> \o latest) ELSE out
    /\ hist' = Append(hist, <<"p", 0, v>>)
    /\ UNCHANGED <<latest, psub, acc>>

(* ---- train_test_split: partition(acc, i), as coded ---- *)
Item(v) ==
    /\ Which = "tts" /\ Len(hist) < MaxEvents
    /\ LET index == acc[1]
           isTest == IF Modulus = 0 THEN FALSE ELSE index % Modulus = 0
           s1 == acc[2] - 1
       IN /\ acc' = IF s1 = 0 THEN <<index + 1, Sampling>> ELSE <<index, s1>>
          /\ out' = IF isTest THEN <<out[1], Append(out[2], v)>> ELSE <<Append(out[1], v), out[2]>>
    /\ hist' = Append(hist, <<"i", 0, v>>)
    /\ UNCHANGED <<latest, psub>>

Next == (\E i \in 1..NChildren, v \in Vals : ChildNext(i, v)) \/ (\E v \in Vals : ParentNext(v) \/ Item(v))
Spec == Init /\ [][Next]_vars

-----------------------------------------------------------------------------
(* specification-level statements, formulated on the history *)
LatestAt(i, k) ==   \* latest value of child i among the first k events (0: none)
    LET idx == {q \in 1..k : hist[q][1] = "c" /\ hist[q][2] = i}
    IN IF idx = {} THEN 0 ELSE hist[CHOOSE q \in idx : \A r \in idx : r <= q][3]

WlfStatement ==
    Which = "wlf" =>
        LET ps == SelectSeq([q \in 1..Len(hist) |-> <<q, hist[q]>>],
                            LAMBDA e : e[2][1] = "p" /\ \A i \in 1..NChildren : LatestAt(i, e[1]) # 0)
        IN out = [q \in 1..Len(ps) |-> <<ps[q][2][3]>> \o [i \in 1..NChildren |-> LatestAt(i, ps[q][1])]]

TtsStatement ==
    Which = "tts" =>
        LET items == [q \in 1..Len(hist) |-> hist[q][3]]
            block(q) == ((q - 1) \div Sampling) + 1
            isT(q) == Modulus # 0 /\ block(q) % Modulus = 0
            idx == [j \in 1..Len(items) |-> j]
            tests == SelectSeq(idx, isT)
            trains == SelectSeq(idx, LAMBDA j : ~isT(j))
        IN /\ out[2] = [j \in 1..Len(tests) |-> items[tests[j]]]
           /\ out[1] = [j \in 1..Len(trains) |-> items[trains[j]]]
           /\ Len(out[1]) + Len(out[2]) = Len(items)

EmitBehaviour == Len(hist) = MaxEvents => PrintT(<<"BEH", Which, hist, out>>)
=============================================================================
