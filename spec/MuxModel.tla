------------------------------ MODULE MuxModel ------------------------------
(***************************************************************************)
(* Layer B: a model of the multiplexed-stream operators shaped like the    *)
(* code.  State is kept the way rxsci keeps it: one store per stateful     *)
(* operator, addressed by the slot index key[0] only (markers NOTSET / SET *)
(* / CLEARED, default values, a cleared slot reads as zero), roll's slot   *)
(* ring, group_by's ordered map and monotonic index counter, tee_map's     *)
(* join queue outside the store indexed key[0]*n + branch.  Operators      *)
(* built from other operators in the code (count, sum, mean, min, max,     *)
(* to_list, batch, distinct_until_changed, ...) are expanded into the same *)
(* scan / filter / map pipelines.  Events are pushed depth first, exactly  *)
(* as the synchronous on_next calls nest: one source event is processed    *)
(* to the end of the pipeline before the next one.                         *)
(*                                                                         *)
(* The environment (MuxSystem) pushes source events nondeterministically;  *)
(* every boundary the harness taps in the real code is logged here with    *)
(* the same global ordinals, so that the layer-A contracts (Contracts.tla) *)
(* are an invariant of this model and its behaviours can be replayed on    *)
(* the real code and compared log for log.                                 *)
(***************************************************************************)
EXTENDS Contracts

CONSTANT Deviations   \* set of named deviations of the model from the code, used to show that
                      \* the invariants are not vacuous (the defects repaired in rxsci):
                      \*   "tee-reset-last-only", "roll-close-ring-order", "scan-no-reset"
                      \* and typical slips, one per operator family:
                      \*   "group-index-per-parent", "take-off-by-one", "first-no-flag",
                      \*   "lag-off-by-one", "split-no-store", "time-split-inactive-gt",
                      \*   "tee-create-every-branch", "scan-error-loses-state", "batch-late",
                      \*   "tee-errors-last-branch-only"

NotSet == <<"notset">>
NoDefault == <<"nodefault">>
ZeroOf(ty) == IF ty = "bool" THEN BoolV(FALSE) ELSE IntV(0)

(* ---- MemoryStore: index -> [m: marker, v: value]; absent = CLEARED ---- *)
Slot(m, v) == [m |-> m, v |-> v]
Rd(s, i, ty) == IF i \in DOMAIN s THEN s[i] ELSE Slot(2, ZeroOf(ty))
AddKey(s, i, dflt, ty) ==
    (i :> (IF dflt = NoDefault THEN Slot(0, ZeroOf(ty)) ELSE Slot(1, dflt))) @@ s
Get(s, i, ty) == LET r == Rd(s, i, ty) IN IF r.m = 0 THEN NotSet ELSE r.v
SetV(s, i, v) == (i :> Slot(1, v)) @@ s
DelKey(s, i, ty) == (i :> Slot(2, ZeroOf(ty))) @@ s

MEv(t, k, v) == [t |-> t, k |-> k, v |-> v]
NextEv(k, v) == MEv("n", k, v)
ErrEv(k, v) == MEv("e", k, v)

(* ---- model-only functions used by the expansions of derived operators ---- *)
ApplyX(f, x) ==
    CASE f.n = "star"      -> ApplyStar(f.g, x)
      [] f.n = "clipf"     -> ClipV(f.g, x)
      [] f.n = "fillnone"  -> IF IsNone(x) THEN f.g ELSE x
      [] f.n = "meanOut"   -> RatV(V(V(x)[1]), V(V(x)[2]))
      [] f.n = "tup1"      -> V(x)[1]
      [] f.n = "tup2"      -> V(x)[2]
      [] OTHER             -> Apply(f, x)

TestX(p, x) ==
    CASE p.n = "tup1True" -> BoolV(V(x)[1] = BoolV(TRUE))
      [] p.n = "tup2True" -> BoolV(V(x)[2] = BoolV(TRUE))
      [] OTHER            -> Test(p, x)

Apply2X(f, a, x) ==
    CASE f.n = "addkm"    -> IntV(V(a) + V(Apply(f.g, x)))
      [] f.n = "minkm"    -> LET y == Apply(f.g, x) IN IF IsNone(a) \/ V(y) < V(a) THEN y ELSE a
      [] f.n = "maxkm"    -> LET y == Apply(f.g, x) IN IF IsNone(a) \/ V(y) > V(a) THEN y ELSE a
      [] f.n = "meanAcc"  -> TupV(<<IntV(V(V(a)[1]) + V(Apply(f.g, x))), IntV(V(V(a)[2]) + 1)>>)
      [] f.n = "batchAcc" ->
             LET fresh == V(a)[2] = BoolV(TRUE)
                 b == IF fresh THEN <<x>> ELSE Append(V(V(a)[1]), x)
             IN TupV(<<LstV(b), BoolV(Len(b) = f.c /\ ~(fresh /\ "batch-late" \in Deviations))>>)
      [] f.n = "ducAcc"   ->
             LET key == Apply(f.g, x) IN
             IF V(a)[4] = BoolV(FALSE) \/ NeqV(key, V(a)[3])
             THEN TupV(<<BoolV(TRUE), x, key, BoolV(TRUE)>>)
             ELSE TupV(<<BoolV(FALSE), x, key, BoolV(TRUE)>>)
      [] f.n = "progAcc"  -> TupV(<<x>>)
      [] OTHER            -> Apply2(f, a, x)

ApplyTermX(f, a) ==
    CASE f.n = "batchTerm" ->
             TupV(<<V(a)[1], BoolV(V(a)[2] = BoolV(FALSE) /\ Len(V(V(a)[1])) > 0)>>)
      [] OTHER -> Apply(f, a)

FnG(n, c, g) == [n |-> n, c |-> c, g |-> g]
NoneFn == Fn("none", 0)
ScanOp(f, seed, red, term) == [op |-> "scan", f |-> f, seed |-> seed, reduce |-> red, term |-> term]
MapOp(f) == [op |-> "map", f |-> f]
FilterOp(p) == [op |-> "filter", p |-> p]

(* the pipelines the code builds for its derived operators *)
IsDerived(op) == op.op \in {"count", "sum", "mean", "min", "max", "to_list", "to_array", "batch", "duc",
                            "progress", "identity", "starmap", "clip", "fill_none", "do_action"}
Expand(op) ==
    CASE op.op = "count"    -> <<ScanOp(Fn("cnt", 0), IntV(0), op.reduce, NoneFn)>>
      [] op.op = "sum"      -> <<ScanOp(FnG("addkm", 0, op.f), IntV(0), op.reduce, NoneFn)>>
      [] op.op = "min"      -> <<ScanOp(FnG("minkm", 0, op.f), None, op.reduce, NoneFn)>>
      [] op.op = "max"      -> <<ScanOp(FnG("maxkm", 0, op.f), None, op.reduce, NoneFn)>>
      [] op.op = "mean"     -> <<ScanOp(FnG("meanAcc", 0, op.f), TupV(<<IntV(0), IntV(0)>>), op.reduce, NoneFn),
                                 MapOp(Fn("meanOut", 0))>>
      [] op.op \in {"to_list", "to_array"} ->
                               <<ScanOp(Fn("appendMut", 0), LstV(<<>>), TRUE, NoneFn)>>
      [] op.op = "batch"    -> <<ScanOp(Fn("batchAcc", op.n), TupV(<<LstV(<<>>), BoolV(FALSE)>>), FALSE,
                                        Fn("batchTerm", 0)),
                                 FilterOp(Fn("tup2True", 0)), MapOp(Fn("tup1", 0))>>
      [] op.op = "duc"      -> <<ScanOp(FnG("ducAcc", 0, op.f),
                                        TupV(<<BoolV(FALSE), None, None, BoolV(FALSE)>>), FALSE, NoneFn),
                                 FilterOp(Fn("tup1True", 0)), MapOp(Fn("tup2", 0))>>
      [] op.op = "progress" -> <<ScanOp(Fn("progAcc", 0), None, FALSE, NoneFn), MapOp(Fn("tup1", 0))>>
      [] op.op \in {"identity", "do_action"} -> <<MapOp(Fn("id", 0))>>
      [] op.op = "starmap"  -> <<MapOp(FnG("star", 0, op.f))>>
      [] op.op = "clip"     -> <<MapOp(FnG("clipf", 0, op))>>
      [] op.op = "fill_none" -> <<MapOp(FnG("fillnone", 0, op.v))>>

(* ---- navigating the pipeline structure by boundary prefix ---- *)
RECURSIVE PipeAt(_, _)
PipeAt(top, pre) ==
    IF pre = <<>> THEN top
    ELSE LET parent == PipeAt(top, SubSeq(pre, 1, Len(pre) - 2))
             op == parent[pre[Len(pre) - 1]]
             b == pre[Len(pre)]
         IN IF b = 0 THEN Expand(op)
            ELSE IF IsTee(op) THEN op.branches[b]
            ELSE op.inner

EnclosingOp(top, pre) == PipeAt(top, SubSeq(pre, 1, Len(pre) - 2))[pre[Len(pre) - 1]]

-----------------------------------------------------------------------------
(* key-preserving operators with a store, branch by branch as coded.
   Returns <<new operator state, emitted events>>. *)
SeedOf(op) == op.seed      \* seed() / copy.deepcopy(seed): a fresh value per use

PrimStep(op, s, e) ==
    LET idx == e.k[1] IN
    CASE op.op = "map" ->
           IF e.t = "n" THEN LET r == ApplyX(op.f, e.v) IN
                             <<s, <<IF IsErr(r) THEN ErrEv(e.k, r) ELSE NextEv(e.k, r)>>>>
           ELSE <<s, <<e>>>>
      [] op.op = "filter" ->
           IF e.t = "n" THEN LET r == TestX(op.p, e.v) IN
                             IF IsErr(r) THEN <<s, <<ErrEv(e.k, r)>>>>
                             ELSE IF r = BoolV(TRUE) THEN <<s, <<e>>>> ELSE <<s, <<>>>>
           ELSE <<s, <<e>>>>
      [] op.op = "flat_map" ->
           IF e.t = "n" THEN <<s, [q \in 1..Len(V(e.v)) |-> NextEv(e.k, V(e.v)[q])]>>
           ELSE <<s, <<e>>>>
      [] op.op = "assert" -> <<s, <<e>>>>        \* the failing case is fatal: see FatalHere
      [] op.op = "ignore" -> IF e.t = "e" THEN <<s, <<>>>> ELSE <<s, <<e>>>>
      [] op.op = "errmap" -> IF e.t = "e" THEN <<s, <<NextEv(e.k, Apply(op.f, e.v))>>>> ELSE <<s, <<e>>>>
      [] op.op = "scan" ->
           CASE e.t = "n" ->
                  LET cur == Get(s, idx, "obj")
                      v0 == IF cur = NotSet THEN SeedOf(op) ELSE cur
                      acc == Apply2X(op.f, v0, e.v)
                  IN IF IsErr(acc)
                     THEN <<IF "scan-error-loses-state" \in Deviations THEN AddKey(s, idx, NoDefault, "obj")
                            ELSE s, <<ErrEv(e.k, acc)>>>>
                     ELSE <<SetV(s, idx, acc), IF op.reduce THEN <<>> ELSE <<NextEv(e.k, acc)>>>>
             [] e.t = "c" -> <<IF "scan-no-reset" \in Deviations /\ idx \in DOMAIN s THEN s
                                ELSE AddKey(s, idx, NoDefault, "obj"), <<e>>>>
             [] e.t = "d" ->
                  LET cur == Get(s, idx, "obj")
                      v0 == IF cur = NotSet THEN SeedOf(op) ELSE cur
                      hasT == op.term.n # "none"
                      acc == IF hasT THEN ApplyTermX(op.term, v0) ELSE v0
                      o1 == IF hasT /\ ~op.reduce THEN <<NextEv(e.k, acc)>> ELSE <<>>
                      o2 == IF op.reduce THEN <<NextEv(e.k, acc)>> ELSE <<>>
                  IN <<IF "scan-no-reset" \in Deviations THEN s ELSE DelKey(s, idx, "obj"),
                       o1 \o o2 \o <<e>>>>
             [] OTHER -> <<DelKey(s, idx, "obj"), <<e>>>>
      [] op.op = "first" ->
           CASE e.t = "n" -> IF Get(s, idx, "bool") = BoolV(FALSE)
                             THEN <<IF "first-no-flag" \in Deviations THEN s ELSE SetV(s, idx, BoolV(TRUE)),
                                    <<e>>>>
                             ELSE <<s, <<>>>>
             [] e.t = "c" -> <<AddKey(s, idx, BoolV(FALSE), "bool"), <<e>>>>
             [] e.t = "d" -> <<DelKey(s, idx, "bool"), <<e>>>>
             [] OTHER -> <<s, <<e>>>>
      [] op.op = "take" ->
           CASE e.t = "n" -> LET c == Get(s, idx, "int") IN
                             IF V(c) > (IF "take-off-by-one" \in Deviations THEN -1 ELSE 0)
                             THEN <<SetV(s, idx, IntV(V(c) - 1)), <<e>>>> ELSE <<s, <<>>>>
             [] e.t = "c" -> <<AddKey(s, idx, IntV(op.n), "int"), <<e>>>>
             [] e.t = "d" -> <<DelKey(s, idx, "int"), <<e>>>>
             [] OTHER -> <<s, <<e>>>>
      [] op.op = "last" ->
           CASE e.t = "n" -> <<SetV(s, idx, e.v), <<>>>>
             [] e.t = "c" -> <<AddKey(s, idx, NoDefault, "obj"), <<e>>>>
             [] e.t = "d" -> LET c == Get(s, idx, "obj") IN
                             <<DelKey(s, idx, "obj"),
                               (IF c = NotSet THEN <<>> ELSE <<NextEv(e.k, c)>>) \o <<e>>>>
             [] OTHER -> <<DelKey(s, idx, "obj"), <<e>>>>
      [] op.op = "distinct" ->
           CASE e.t = "n" -> LET seen == Get(s, idx, "obj")
                                 key == Apply(op.f, e.v) IN
                             IF \E q \in 1..Len(V(seen)) : V(seen)[q] = key THEN <<s, <<>>>>
                             ELSE <<SetV(s, idx, LstV(Append(V(seen), key))), <<e>>>>
             [] e.t = "c" -> <<SetV(AddKey(s, idx, NoDefault, "obj"), idx, LstV(<<>>)), <<e>>>>
             [] OTHER -> <<DelKey(s, idx, "obj"), <<e>>>>
      [] op.op = "lag" ->
           IF op.n = 1
           THEN CASE e.t = "n" -> LET p == Get(s, idx, "obj")
                                      prev == IF p = NotSet THEN e.v ELSE p IN
                                  <<SetV(s, idx, e.v), <<NextEv(e.k, TupV(<<prev, e.v>>))>>>>
                  [] e.t = "c" -> <<AddKey(s, idx, NoDefault, "obj"), <<e>>>>
                  [] OTHER -> <<DelKey(s, idx, "obj"), <<e>>>>
           ELSE CASE e.t = "n" -> LET q == Append(V(Get(s, idx, "obj")), e.v)
                                      out == NextEv(e.k, TupV(<<q[1], e.v>>))
                                      q2 == IF Len(q) > op.n - (IF "lag-off-by-one" \in Deviations THEN 1 ELSE 0)
                                            THEN Tail(q) ELSE q IN
                                  <<SetV(s, idx, LstV(q2)), <<out>>>>
                  [] e.t = "c" -> <<SetV(AddKey(s, idx, NoDefault, "obj"), idx, LstV(<<>>)), <<e>>>>
                  [] OTHER -> <<DelKey(s, idx, "obj"), <<e>>>>
      [] op.op = "pad_start" ->
           CASE e.t = "n" -> IF Get(s, idx, "bool") = NotSet
                             THEN <<SetV(s, idx, BoolV(TRUE)),
                                    [q \in 1..op.n |-> NextEv(e.k, IF IsNone(op.v) THEN e.v ELSE op.v)]
                                    \o <<e>>>>
                             ELSE <<s, <<e>>>>
             [] e.t = "c" -> <<AddKey(s, idx, NoDefault, "bool"), <<e>>>>
             [] OTHER -> <<DelKey(s, idx, "bool"), <<e>>>>
      [] op.op = "pad_end" ->
           CASE e.t = "n" -> <<SetV(s, idx, e.v), <<e>>>>
             [] e.t = "c" -> <<AddKey(s, idx, NoDefault, "obj"), <<e>>>>
             [] e.t = "d" -> LET c == Get(s, idx, "obj") IN
                             <<DelKey(s, idx, "obj"),
                               (IF c = NotSet THEN <<>>
                                ELSE [q \in 1..op.n |-> NextEv(e.k, IF IsNone(op.v) THEN c ELSE op.v)])
                               \o <<e>>>>
             [] OTHER -> <<DelKey(s, idx, "obj"), <<e>>>>
      [] op.op = "start_with" ->
           CASE e.t = "n" -> IF Get(s, idx, "bool") = NotSet
                             THEN <<SetV(s, idx, BoolV(TRUE)),
                                    [q \in 1..Len(op.p) |-> NextEv(e.k, op.p[q])] \o <<e>>>>
                             ELSE <<s, <<e>>>>
             [] e.t = "c" -> <<AddKey(s, idx, NoDefault, "bool"), <<e>>>>
             [] OTHER -> <<DelKey(s, idx, "bool"), <<e>>>>
      [] op.op = "assert1" ->
           CASE e.t = "n" -> <<SetV(s, idx, e.v), <<e>>>>
             [] e.t = "c" -> <<AddKey(s, idx, NoDefault, "obj"), <<e>>>>
             [] OTHER -> <<DelKey(s, idx, "obj"), <<e>>>>

(* assert_ / assert_1 failing: observer.on_error, the whole stream dies *)
FatalHere(op, s, e) ==
    /\ e.t = "n"
    /\ \/ op.op = "assert" /\ Test(op.p, e.v) # BoolV(TRUE)
       \/ op.op = "assert1" /\ Get(s, e.k[1], "obj") # NotSet
                            /\ Test2(op.p, Get(s, e.k[1], "obj"), e.v) # TRUE

-----------------------------------------------------------------------------
(* key-creating operators.  They return <<new state, actions>> where an action is
   <<"in", event>> (pushed into the inner pipeline) or <<"out", event>> (the
   parent's lifecycle event bypassing it through outer_observer). *)
CKey(idx, k) == <<idx>> \o k
In(e) == <<"in", e>>
Out(e) == <<"out", e>>

Density(op) == (op.w \div op.s) + (IF op.w % op.s # 0 THEN 1 ELSE 0)

(* _roll: deliver the item to every open window of the ring, closing the full ones *)
RECURSIVE RollDeliver(_, _, _, _, _, _)
RollDeliver(op, e, nv, w, offset, acc) ==
    LET dens == Density(op) IN
    IF offset >= dens THEN <<w, acc>>
    ELSE LET index == e.k[1] * dens + offset
             wv == Get(w, index, "int") IN
         IF wv # IntV(-1)
         THEN LET count == nv - V(wv) + 1
                  full == count = op.w
              IN RollDeliver(op, e, nv, IF full THEN SetV(w, index, IntV(-1)) ELSE w, offset + 1,
                             acc \o <<In(NextEv(CKey(index, e.k), e.v))>>
                                 \o (IF full THEN <<In(MEv("d", CKey(index, e.k), None))>> ELSE <<>>))
         ELSE RollDeliver(op, e, nv, w, offset + 1, acc)

(* open windows of the parent sorted by their start value (oldest first) *)
RECURSIVE SortByStart(_)
SortByStart(S) == IF S = {} THEN <<>>
                  ELSE LET m == CHOOSE x \in S : \A y \in S : x[1] <= y[1]
                       IN <<m>> \o SortByStart(S \ {m})

RollStep(op, st, e) ==
    LET idx == e.k[1]
        dens == Density(op) IN
    IF op.w = op.s
    THEN (* _roll_count *)
         CASE e.t = "n" ->
                LET c == V(Get(st.n, idx, "int"))
                    c2 == c + 1
                    acts == (IF c = 0 THEN <<In(MEv("c", CKey(idx, e.k), None))>> ELSE <<>>)
                            \o <<In(NextEv(CKey(idx, e.k), e.v))>>
                            \o (IF c2 = op.w THEN <<In(MEv("d", CKey(idx, e.k), None))>> ELSE <<>>)
                IN <<[st EXCEPT !.n = SetV(st.n, idx, IntV(IF c2 = op.w THEN 0 ELSE c2))], acts>>
           [] e.t = "c" -> <<[st EXCEPT !.n = AddKey(st.n, idx, IntV(0), "int")], <<Out(e)>>>>
           [] OTHER ->
                LET c == V(Get(st.n, idx, "int")) IN
                <<[st EXCEPT !.n = DelKey(st.n, idx, "int")],
                  (IF c > 0 THEN <<In([e EXCEPT !.k = CKey(idx, e.k)])>> ELSE <<>>) \o <<Out(e)>>>>
    ELSE (* _roll *)
         CASE e.t = "n" ->
                LET nv == V(Get(st.n, idx, "int"))
                    opens == nv % op.s = 0
                    oindex == idx * dens + ((nv \div op.s) % dens)
                    w1 == IF opens THEN SetV(st.w, oindex, IntV(nv)) ELSE st.w
                    a1 == IF opens THEN <<In(MEv("c", CKey(oindex, e.k), None))>> ELSE <<>>
                    r == RollDeliver(op, e, nv, w1, 0, a1)
                IN <<[n |-> SetV(st.n, idx, IntV(nv + 1)), w |-> r[1]], r[2]>>
           [] e.t = "c" ->
                LET RECURSIVE addw(_, _)
                    addw(w, o) == IF o >= dens THEN w
                                  ELSE addw(AddKey(w, idx * dens + o, IntV(-1), "int"), o + 1)
                IN <<[n |-> AddKey(st.n, idx, IntV(0), "int"), w |-> addw(st.w, 0)], <<Out(e)>>>>
           [] OTHER ->
                LET open == {<<V(Get(st.w, idx * dens + o, "int")), idx * dens + o>> :
                                o \in {x \in 0..(dens - 1) : Get(st.w, idx * dens + x, "int") # IntV(-1)}}
                    order == IF "roll-close-ring-order" \in Deviations
                             THEN SortByStart({<<x[2], x[2]>> : x \in open}) ELSE SortByStart(open)
                    RECURSIVE clr(_, _)
                    clr(w, q) == IF q > Len(order) THEN w ELSE clr(SetV(w, order[q][2], IntV(-1)), q + 1)
                IN <<[n |-> SetV(st.n, idx, IntV(0)), w |-> clr(st.w, 1)],
                     [q \in 1..Len(order) |-> In([e EXCEPT !.k = CKey(order[q][2], e.k)])] \o <<Out(e)>>>>

SplitStep(op, st, e) ==
    LET idx == e.k[1]
        ck == CKey(idx, e.k) IN
    CASE e.t = "n" ->
           LET np == Apply(op.f, e.v)
               cur == Get(st.s, idx, "obj")
               first == cur = NotSet
               cp == IF first THEN np ELSE cur
               changed == NeqV(np, cp)
           IN <<[st EXCEPT !.s = IF first \/ (changed /\ "split-no-store" \notin Deviations)
                                  THEN SetV(st.s, idx, np) ELSE st.s],
                (IF first THEN <<In(MEv("c", ck, None))>> ELSE <<>>)
                \o (IF changed THEN <<In(MEv("d", ck, None)), In(MEv("c", ck, None))>> ELSE <<>>)
                \o <<In(NextEv(ck, e.v))>>>>
      [] e.t = "c" -> <<[st EXCEPT !.s = AddKey(st.s, idx, NoDefault, "obj")], <<Out(e)>>>>
      [] OTHER ->
           <<st, (IF Get(st.s, idx, "obj") # NotSet THEN <<In([e EXCEPT !.k = ck])>> ELSE <<>>)
                 \o <<Out(e)>>>>

TimeSplitStep(op, st, e) ==
    LET idx == e.k[1]
        ck == CKey(idx, e.k) IN
    CASE e.t = "n" ->
           LET t == V(Apply(op.tm, e.v))
               s0 == Get(st.start, idx, "obj")
               first == s0 = NotSet
               start == IF first THEN t ELSE V(s0)
               last == IF first THEN t ELSE V(Get(st.last, idx, "obj"))
               a0 == IF first THEN <<In(MEv("c", ck, None))>> ELSE <<>>
               expired == \/ op.active >= 0 /\ t >= start + op.active
                          \/ op.inactive >= 0 /\ (IF "time-split-inactive-gt" \in Deviations
                                                  THEN t > last + op.inactive ELSE t >= last + op.inactive)
               closing == ~expired /\ op.closing.n # "none" /\ Test(op.closing, e.v) = BoolV(TRUE)
               reset == expired \/ closing
               st1 == [start |-> IF first \/ reset THEN SetV(st.start, idx, IntV(t)) ELSE st.start,
                       last |-> SetV(st.last, idx, IntV(t))]
               cycle == <<In(MEv("d", ck, None)), In(MEv("c", ck, None))>>
               item == <<In(NextEv(ck, e.v))>>
           IN <<st1, a0 \o (IF expired THEN cycle \o item
                            ELSE IF closing THEN (IF op.incl THEN item \o cycle ELSE cycle \o item)
                            ELSE item)>>
      [] e.t = "c" -> <<[start |-> AddKey(st.start, idx, NoDefault, "obj"),
                         last |-> AddKey(st.last, idx, NoDefault, "obj")], <<Out(e)>>>>
      [] OTHER ->
           <<[start |-> DelKey(st.start, idx, "obj"), last |-> DelKey(st.last, idx, "obj")],
             (IF Get(st.start, idx, "obj") # NotSet THEN <<In([e EXCEPT !.k = ck])>> ELSE <<>>)
             \o <<Out(e)>>>>

(* group_by: st.maps: parent index -> sequence of <<map key, group index>> in insertion
   order (a python dict), st.next: the mapper's monotonic index counter *)
GroupByStep(op, st, e) ==
    LET idx == e.k[1]
        m == IF idx \in DOMAIN st.maps THEN st.maps[idx] ELSE <<>> IN
    CASE e.t = "n" ->
           LET mk == Apply(op.f, e.v)
               hit == {q \in 1..Len(m) : m[q][1] = mk}
           IN IF hit # {}
              THEN <<st, <<In(NextEv(CKey(m[CHOOSE q \in hit : TRUE][2], e.k), e.v))>>>>
              ELSE LET ni == IF "group-index-per-parent" \in Deviations THEN Len(m) ELSE st.next IN
                   <<[maps |-> (idx :> Append(m, <<mk, ni>>)) @@ st.maps, next |-> st.next + 1],
                     <<In(MEv("c", CKey(ni, e.k), None)), In(NextEv(CKey(ni, e.k), e.v))>>>>
      [] e.t = "c" -> <<[st EXCEPT !.maps = (idx :> <<>>) @@ st.maps], <<Out(e)>>>>
      [] OTHER ->
           <<[st EXCEPT !.maps = Without(st.maps, idx)],
             [q \in 1..Len(m) |-> In([e EXCEPT !.k = CKey(m[q][2], e.k)])] \o <<Out(e)>>>>

KeyerStep(op, st, e) ==
    CASE op.op = "roll" -> RollStep(op, st, e)
      [] op.op = "split" -> SplitStep(op, st, e)
      [] op.op = "time_split" -> TimeSplitStep(op, st, e)
      [] op.op = "group_by" -> GroupByStep(op, st, e)

(* tee_map join as coded: queue / has_next outside the store, indexed key[0]*n + branch *)
JoinStep(op, st, b, e) ==
    LET n == Len(op.branches)
        base == e.k[1] * n
        q(i) == IF i \in DOMAIN st.q THEN st.q[i] ELSE None
        h(i) == IF i \in DOMAIN st.h THEN st.h[i] ELSE FALSE
        stateful == op.join # "merge" IN
    CASE e.t = "c" -> <<st, IF b = 1 \/ "tee-create-every-branch" \in Deviations THEN <<e>> ELSE <<>>>>
      [] e.t = "d" ->
           IF b = n
           THEN LET rs == IF "tee-reset-last-only" \in Deviations THEN {base + n}
                          ELSE (base + 1)..(base + n) IN
                <<IF stateful
                  THEN [q |-> [i \in (DOMAIN st.q) \cup rs |-> IF i \in rs THEN None ELSE st.q[i]],
                        h |-> [i \in (DOMAIN st.h) \cup rs |-> IF i \in rs THEN FALSE ELSE st.h[i]]]
                  ELSE st, <<e>>>>
           ELSE <<st, <<>>>>
      [] e.t = "n" ->
           IF ~stateful THEN <<st, <<e>>>>
           ELSE LET q1 == ((base + b) :> e.v) @@ st.q
                    h1 == ((base + b) :> TRUE) @@ st.h
                    qq(i) == IF i \in DOMAIN q1 THEN q1[i] ELSE None
                    hh(i) == IF i \in DOMAIN h1 THEN h1[i] ELSE FALSE
                    tuple == TupV([i \in 1..n |-> qq(base + i)])
                IN IF op.join = "combine_latest"
                   THEN <<[q |-> q1, h |-> h1], <<NextEv(e.k, tuple)>>>>
                   ELSE IF \A i \in 1..n : hh(base + i)
                   THEN <<[q |-> [i \in DOMAIN q1 |-> IF i \in (base + 1)..(base + n) THEN None ELSE q1[i]],
                           h |-> [i \in DOMAIN h1 |-> IF i \in (base + 1)..(base + n) THEN FALSE ELSE h1[i]]],
                          <<NextEv(e.k, tuple)>>>>
                   ELSE <<[q |-> q1, h |-> h1], <<>>>>
      \* an error produced inside a branch leaves the tee_map as it is
      [] OTHER -> <<st, IF b = n \/ "tee-errors-last-branch-only" \notin Deviations THEN <<e>> ELSE <<>>>>

InitOpState(op) ==
    IF op.op = "roll" THEN [n |-> EmptyFn, w |-> EmptyFn]
    ELSE IF op.op = "split" THEN [s |-> EmptyFn]
    ELSE IF op.op = "time_split" THEN [start |-> EmptyFn, last |-> EmptyFn]
    ELSE IF op.op = "group_by" THEN [maps |-> EmptyFn, next |-> 0]
    ELSE IF op.op = "tee" THEN [q |-> EmptyFn, h |-> EmptyFn]
    ELSE EmptyFn

-----------------------------------------------------------------------------
(* the machine: S = [st: operator path -> state, logs, ord, dead, err] *)
StOf(S, top, path) ==
    IF path \in DOMAIN S.st THEN S.st[path]
    ELSE InitOpState(PipeAt(top, SubSeq(path, 1, Len(path) - 1))[path[Len(path)]])

Log(S, path, e) ==
    IF path \in DOMAIN S.logs
    THEN [S EXCEPT !.logs[path] = Append(@, [t |-> e.t, k |-> e.k, v |-> e.v, o |-> S.ord + 1]),
                   !.ord = S.ord + 1]
    ELSE S

Die(S, tok) == [S EXCEPT !.dead = TRUE, !.err = tok, !.ord = S.ord + 1, !.erro = S.ord + 1]

RECURSIVE Feed(_, _, _, _, _), Emit(_, _, _, _, _), EmitAll(_, _, _, _, _), Leave(_, _, _, _),
          DoActs(_, _, _, _, _), FeedBranches(_, _, _, _, _, _)

(* event e appears at boundary pre \o <<i>> (i = 0: the head of the pipeline at pre) *)
Emit(top, pre, i, e, S) ==
    IF S.dead THEN S
    ELSE LET S1 == Log(S, pre \o <<i>>, e) IN
         IF i < Len(PipeAt(top, pre)) THEN Feed(top, pre, i + 1, e, S1)
         ELSE Leave(top, pre, e, S1)

EmitAll(top, pre, i, es, S) ==
    IF es = <<>> \/ S.dead THEN S
    ELSE EmitAll(top, pre, i, Tail(es), Emit(top, pre, i, Head(es), S))

(* the event leaves the last operator of the pipeline at pre *)
Leave(top, pre, e, S) ==
    IF pre = <<>> THEN (IF S.src /\ e.t = "e" THEN Die(S, e.v) ELSE S)    \* demux_observable
    ELSE LET ppre == SubSeq(pre, 1, Len(pre) - 2)
             i == pre[Len(pre) - 1]
             b == pre[Len(pre)]
             op == EnclosingOp(top, pre) IN
         IF b = 0 THEN Emit(top, ppre, i, e, S)                       \* end of an expansion
         ELSE IF IsTee(op)
         THEN LET path == ppre \o <<i>>
                  r == JoinStep(op, StOf(S, top, path), b, e)
              IN EmitAll(top, ppre, i, r[2], [S EXCEPT !.st = (path :> r[1]) @@ S.st])
         ELSE (* demux_mux_observable *)
              IF e.t = "n" THEN Emit(top, ppre, i, [e EXCEPT !.k = Tail(e.k)], S)
              ELSE IF e.t = "e" THEN Die(S, e.v)
              ELSE S

DoActs(top, pre, i, acts, S) ==
    IF acts = <<>> \/ S.dead THEN S
    ELSE LET a == Head(acts) IN
         DoActs(top, pre, i, Tail(acts),
                IF a[1] = "in" THEN Emit(top, pre \o <<i, 1>>, 0, a[2], S)
                ELSE Emit(top, pre, i, a[2], S))

FeedBranches(top, pre, i, b, e, S) ==
    IF b > Len(PipeAt(top, pre)[i].branches) \/ S.dead THEN S
    ELSE FeedBranches(top, pre, i, b + 1, e, Emit(top, pre \o <<i, b>>, 0, e, S))

(* event e enters operator i of the pipeline at pre *)
Feed(top, pre, i, e, S) ==
    LET op == PipeAt(top, pre)[i]
        path == pre \o <<i>> IN
    IF IsDerived(op) THEN Emit(top, path \o <<0>>, 0, e, S)
    ELSE IF IsTee(op) THEN FeedBranches(top, pre, i, 1, e, S)
    ELSE IF IsKeyer(op)
    THEN LET r == KeyerStep(op, StOf(S, top, path), e)
         IN DoActs(top, pre, i, r[2], [S EXCEPT !.st = (path :> r[1]) @@ S.st])
    ELSE IF op.op = "router"
    THEN (IF e.t = "e" THEN [S EXCEPT !.dl = Append(@, [v |-> e.v, o |-> S.ord + 1]), !.ord = S.ord + 1]
          ELSE Emit(top, pre, i, e, S))
    ELSE LET s == StOf(S, top, path) IN
         IF FatalHere(op, s, e) THEN Die(S, ErrV(-2))
         ELSE LET r == PrimStep(op, s, e)
              IN EmitAll(top, pre, i, r[2], [S EXCEPT !.st = (path :> r[1]) @@ S.st])

InitS(top) == [st |-> EmptyFn, logs |-> [p \in Paths(top, <<>>) |-> <<>>], ord |-> 0,
               dead |-> FALSE, err |-> None, erro |-> 0, dl |-> <<>>,
               src |-> FALSE]     \* src: a plain source behind multiplex / with_store (root demux)

(* one source event, pushed to the end of the pipeline *)
Push(top, e, S) == Emit(top, <<>>, 0, e, S)
=============================================================================
