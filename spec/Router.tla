------------------------------- MODULE Router -------------------------------
(***************************************************************************)
(* rs.error.create_error_router(): one dead-letter observable and any      *)
(* number of route() operators that share it (two pipelines, two branches  *)
(* of a tee_map).  C13 covers one route in one pipeline; this module        *)
(* covers the life of the dead-letter subscription itself, as coded:       *)
(*                                                                         *)
(*  * the router remembers ONE dead-letter observer; subscribing the       *)
(*    dead-letter observable while one is attached fails an assertion:     *)
(*    that subscriber gets the AssertionError through its on_error;        *)
(*  * a multiplexed error event reaching a route goes to the dead letter   *)
(*    when an observer is attached, and is forwarded downstream unchanged  *)
(*    otherwise (a subscriber that comes late, or has left, loses nothing  *)
(*    silently: the stream carries the error on);                          *)
(*  * when any route completes, the dead letter is completed; when a route *)
(*    fails (an error of the observable itself) the dead letter receives   *)
(*    that exception as its last item and is completed.  Completing        *)
(*    detaches the observer (RxPY disposes a completed subscription), so   *)
(*    errors of the other routes are forwarded downstream from then on;    *)
(*  * a dead-letter subscriber that disposes detaches as well.             *)
(*                                                                         *)
(* Statements: ExactlyOnce (every error event that reached a route is in    *)
(* exactly one place: the dead letter or that route's downstream, in       *)
(* arrival order), DeadLetterProtocol (nothing after its completion).      *)
(* Checked by bin/check-extras; every behaviour is replayed on the real    *)
(* router with two routed Subjects.                                        *)
(***************************************************************************)
EXTENDS Integers, Sequences, FiniteSets, TLC

CONSTANTS NRoutes, MaxSteps

Routes == 1..NRoutes

VARIABLES attached,     \* a dead-letter observer is attached
          dl,           \* what the dead-letter subscribers received: <<"n", code>>, <<"c">>
          down,         \* down[r]: what route r delivered downstream: <<"n", v>>, <<"e", code>> (error event), <<"c">>, <<"x", code>>
          live,         \* live[r]: route r has not terminated
          raised,       \* exceptions that escaped a subscribe() call (none, as coded)
          nerr,         \* errors pushed so far (their codes are 1, 2, ...)
          hist, steps

vars == <<attached, dl, down, live, raised, nerr, hist, steps>>

Init ==
    /\ attached = FALSE /\ dl = <<>> /\ down = [r \in Routes |-> <<>>]
    /\ live = [r \in Routes |-> TRUE] /\ raised = 0 /\ nerr = 0 /\ hist = <<>> /\ steps = 0

Step(h) == /\ hist' = Append(hist, h) /\ steps' = steps + 1

DLSubscribe ==
    /\ steps < MaxSteps
    \* a second subscriber while one is attached: the assertion fails inside subscribe(),
    \* RxPY hands the exception to that subscriber's on_error; the first one stays attached
    /\ IF attached THEN dl' = Append(dl, <<"x", 0>>) /\ UNCHANGED attached
       ELSE attached' = TRUE /\ UNCHANGED dl
    /\ Step(<<"dlsub">>)
    /\ UNCHANGED <<raised, down, live, nerr>>

DLDispose ==
    /\ steps < MaxSteps /\ attached
    /\ attached' = FALSE
    /\ Step(<<"dldispose">>)
    /\ UNCHANGED <<dl, down, live, raised, nerr>>

Item(r) ==
    /\ steps < MaxSteps /\ live[r]
    /\ down' = [down EXCEPT ![r] = Append(@, <<"n", 0>>)]
    /\ Step(<<"item", r>>)
    /\ UNCHANGED <<attached, dl, live, raised, nerr>>

ErrorEvent(r) ==        \* an OnErrorMux reaches route r
    /\ steps < MaxSteps /\ live[r]
    /\ nerr' = nerr + 1
    /\ IF attached
       THEN dl' = Append(dl, <<"n", nerr + 1>>) /\ UNCHANGED down
       ELSE down' = [down EXCEPT ![r] = Append(@, <<"e", nerr + 1>>)] /\ UNCHANGED dl
    /\ Step(<<"error", r>>)
    /\ UNCHANGED <<attached, live, raised>>

Complete(r) ==
    /\ steps < MaxSteps /\ live[r]
    /\ dl' = IF attached THEN Append(dl, <<"c">>) ELSE dl
    /\ attached' = FALSE                 \* a completed subscription is disposed
    /\ down' = [down EXCEPT ![r] = Append(@, <<"c">>)]
    /\ live' = [live EXCEPT ![r] = FALSE]
    /\ Step(<<"complete", r>>)
    /\ UNCHANGED <<raised, nerr>>

Fail(r) ==              \* on_error of the routed observable itself
    /\ steps < MaxSteps /\ live[r]
    /\ dl' = IF attached THEN dl \o << <<"n", 99>>, <<"c">> >> ELSE dl
    /\ attached' = FALSE
    /\ down' = [down EXCEPT ![r] = Append(@, <<"x", 99>>)]
    /\ live' = [live EXCEPT ![r] = FALSE]
    /\ Step(<<"fail", r>>)
    /\ UNCHANGED <<raised, nerr>>

RouteDispose(r) ==      \* the subscriber of route r leaves: nothing else changes (the dead
                        \* letter stays attached for the other routes)
    /\ steps < MaxSteps /\ live[r]
    /\ live' = [live EXCEPT ![r] = FALSE]
    /\ Step(<<"routedispose", r>>)
    /\ UNCHANGED <<attached, dl, down, raised, nerr>>

Next == DLSubscribe \/ DLDispose \/ \E r \in Routes : Item(r) \/ ErrorEvent(r) \/ Complete(r) \/ Fail(r) \/ RouteDispose(r)
Spec == Init /\ [][Next]_vars

-----------------------------------------------------------------------------
Codes(seq, tag) == {seq[q][2] : q \in {j \in 1..Len(seq) : seq[j][1] = tag}}

(* every error event is in exactly one place, and each place holds its errors in arrival order *)
ExactlyOnce ==
    LET inDl == Codes(dl, "n") \ {99}
        inDown == UNION {Codes(down[r], "e") : r \in Routes}
    IN /\ inDl \cup inDown = 1..nerr
       /\ inDl \cap inDown = {}
       /\ \A a, b \in 1..Len(dl) : (a < b /\ dl[a][1] = "n" /\ dl[b][1] = "n" /\ dl[a][2] # 99 /\ dl[b][2] # 99) => dl[a][2] < dl[b][2]

(* a dead-letter subscription receives nothing after its completion: a new "n" after a "c" is
   possible only for a new subscriber *)
DeadLetterProtocol ==
    \A q \in 1..Len(dl) : dl[q] = <<"c">> =>
        (q = Len(dl) \/ Cardinality({j \in 1..Len(hist) : hist[j] = <<"dlsub">>}) > 1)

EmitBehaviour == (steps = MaxSteps) => PrintT(<<"BEH", hist, dl, down, raised>>)
=============================================================================
