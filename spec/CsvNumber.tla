----------------------------- MODULE CsvNumber -----------------------------
(***************************************************************************)
(* rxsci.container.csv.parse_decimal, the parser of 'float' columns,       *)
(* transcribed over decimal numerals = sequences of the symbols            *)
(* '-' (45), '.' (46) and digits (48..57), in exact rational arithmetic:   *)
(*                                                                         *)
(*     if len(ii) == 0: return None                                        *)
(*     try:                                                                *)
(*         s = ii.split(".")                                               *)
(*         i = int(s[0])                                                   *)
(*         if len(s) > 1:                                                  *)
(*             r = int(s[1]); r = r / (10 ** len(s[1]))                    *)
(*         else: r = 0                                                     *)
(*         return float(i) + r                                             *)
(*     except Exception: return float(ii)                                  *)
(*                                                                         *)
(* A value is [k |-> "val", neg, num, den]: sign bit and magnitude         *)
(* num/den (the sign bit matters for zero: str(-0.0) = '-0.0').            *)
(* float(ii) is a library function: it is axiomatised as "the value of a   *)
(* well-formed numeral, ValueError otherwise".  Rounding to binary64 is    *)
(* not modelled here (exact arithmetic); the harness compares the real     *)
(* result with the correctly rounded model value.                          *)
(*                                                                         *)
(* Property C18 on the model: Parse(numeral) = Value(numeral) for every    *)
(* well-formed numeral, sign included.                                     *)
(***************************************************************************)
EXTENDS Integers, Sequences, TLC

CONSTANTS Digits,     \* the digit symbols enumerated, e.g. {48, 49, 53, 57}
          MaxLen,
          Variants,   \* subset of {"repo", "float"}: which parsers are explored
                      \* "repo": parse_decimal as in the repository
                      \* "float": the proposed fix (float(ii) only)
          Emit        \* TRUE: print every numeral with the model's result

Minus == 45
Dot == 46

VARIABLES variant,
          num,    \* the numeral
          stage,  \* "build" -> "parsed"
          res     \* result of the parser

vars == <<variant, num, stage, res>>

None == [k |-> "none"]
Err  == [k |-> "err"]
Val(neg, n, d) == [k |-> "val", neg |-> neg, num |-> n, den |-> d]

-----------------------------------------------------------------------------
RECURSIVE SplitDotAcc(_, _)
SplitDotAcc(s, cur) ==      \* s.split(".")
    IF s = <<>> THEN <<cur>>
    ELSE IF s[1] = Dot THEN <<cur>> \o SplitDotAcc(Tail(s), <<>>)
    ELSE SplitDotAcc(Tail(s), Append(cur, s[1]))
SplitDot(s) == SplitDotAcc(s, <<>>)

IsDigit(c) == c \in 48..57
AllDigits(s) == Len(s) > 0 /\ \A j \in 1..Len(s) : IsDigit(s[j])

RECURSIVE DigitsVal(_)
DigitsVal(s) == IF s = <<>> THEN 0 ELSE DigitsVal(SubSeq(s, 1, Len(s) - 1)) * 10 + (s[Len(s)] - 48)

RECURSIVE Pow10(_)
Pow10(n) == IF n = 0 THEN 1 ELSE 10 * Pow10(n - 1)

Abs(x) == IF x < 0 THEN -x ELSE x

(* int(s) over this alphabet: -?[0-9]+ , anything else raises ValueError *)
PyIntOk(s) == IF Len(s) > 0 /\ s[1] = Minus THEN AllDigits(Tail(s)) ELSE AllDigits(s)
PyInt(s)   == IF s[1] = Minus THEN -DigitsVal(Tail(s)) ELSE DigitsVal(s)

-----------------------------------------------------------------------------
(* Specification: the value of a numeral, read positionally *)
Body(ii)   == IF Len(ii) > 0 /\ ii[1] = Minus THEN Tail(ii) ELSE ii
NoDot(s)   == SelectSeq(s, LAMBDA c : c # Dot)
DotCount(s) == Len(s) - Len(NoDot(s))
DotPos(s)  == CHOOSE j \in 1..Len(s) : s[j] = Dot

(* what float() accepts over this alphabet: an optional minus, then digits with at
   most one point among them and at least one digit ("5.", ".5" and "-.5" included) *)
WellFormed(ii) ==
    LET b == Body(ii) IN
    /\ DotCount(b) <= 1
    /\ AllDigits(NoDot(b))

Value(ii) ==
    LET b == Body(ii)
        k == IF DotCount(b) = 0 THEN 0 ELSE Len(b) - DotPos(b)
    IN Val(Len(ii) > 0 /\ ii[1] = Minus, DigitsVal(NoDot(b)), Pow10(k))

SameValue(a, b) ==
    /\ a.k = "val" /\ b.k = "val"
    /\ a.neg = b.neg
    /\ IF a.den = b.den THEN a.num = b.num              \* (keeps the products small)
       ELSE a.num * b.den = b.num * a.den

-----------------------------------------------------------------------------
(* float(ii), the library function *)
PyFloat(ii) == IF WellFormed(ii) THEN Value(ii) ELSE Err

(* the transcription *)
ParseRepo(ii) ==
    IF Len(ii) = 0 THEN None
    ELSE LET s == SplitDot(ii) IN
         IF ~PyIntOk(s[1]) THEN PyFloat(ii)                      \* int(s[0]) raised
         ELSE LET i == PyInt(s[1]) IN
              IF Len(s) > 1
              THEN IF ~PyIntOk(s[2]) THEN PyFloat(ii)             \* int(s[1]) raised
                   ELSE LET rn == PyInt(s[2])
                            rd == Pow10(Len(s[2]))                \* 10 ** len(s[1])
                            sum == i * rd + rn                    \* float(i) + r, times rd
                        IN Val(sum < 0, Abs(sum), rd)             \* x + (-x) and 0 + 0 are +0.0
              ELSE Val(i < 0, Abs(i), 1)                          \* float(i) + 0; int has no -0

Parse(ii) ==
    IF variant = "repo" THEN ParseRepo(ii)
    ELSE IF Len(ii) = 0 THEN None ELSE PyFloat(ii)

-----------------------------------------------------------------------------
Init == variant \in Variants /\ num = <<>> /\ stage = "build" /\ res = None

Extend(c) ==
    /\ stage = "build" /\ Len(num) < MaxLen
    /\ num' = Append(num, c)
    /\ UNCHANGED <<variant, stage, res>>

DoParse ==
    /\ stage = "build"
    /\ res' = Parse(num)
    /\ stage' = "parsed"
    /\ UNCHANGED <<variant, num>>

Next == (\E c \in Digits \cup {Minus, Dot} : Extend(c)) \/ DoParse

Spec == Init /\ [][Next]_vars

-----------------------------------------------------------------------------
TypeOK == res.k \in {"none", "err", "val"} /\ Len(num) <= MaxLen

(* no intermediate value leaves the 32-bit range of TLC *)
Small == res.k = "val" => res.num < 1000000 /\ res.den <= 1000000

(* C18 on the model *)
Correct == (stage = "parsed" /\ variant = "float" /\ WellFormed(num)) => SameValue(res, Value(num))

(* the exact extent of the defect mirrored by Variant = "repo": a negative
   numeral with an integer part and, if there is a point, fraction digits,
   whose fraction is not zero (the fraction is added instead of subtracted)
   or whose value is zero (the sign of -0 is lost) *)
SignClass(ii) ==
    LET b == Body(ii)
        hasdot == DotCount(b) = 1
        ip == IF hasdot THEN SubSeq(b, 1, DotPos(b) - 1) ELSE b
        fp == IF hasdot THEN SubSeq(b, DotPos(b) + 1, Len(b)) ELSE <<>>
    IN /\ Len(ii) > 0 /\ ii[1] = Minus
       /\ Len(ip) > 0 /\ (hasdot => Len(fp) > 0)
       /\ (DigitsVal(fp) # 0 \/ DigitsVal(ip) = 0)

Characterization ==
    (stage = "parsed" /\ variant = "repo" /\ WellFormed(num)) =>
        ((~SameValue(res, Value(num))) <=> SignClass(num))

(* numerals float() rejects must not be given a value (informational: the
   property only speaks about numerals printed by str()) *)
Lenient == stage = "parsed" /\ Len(num) > 0 /\ ~WellFormed(num) /\ res.k # "err"

(* collect instead of stop: always TRUE *)
Collect ==
    /\ (stage = "parsed" /\ WellFormed(num) /\ ~SameValue(res, Value(num))) =>
           PrintT(<<"FAILNUM", variant, num, res, IF SignClass(num) THEN "sign" ELSE "other">>)
    /\ Lenient => PrintT(<<"LENIENT", variant, num, res>>)

EmitNum == (Emit /\ stage = "parsed" /\ variant = "repo") => PrintT(<<"NUM", num, res>>)
=============================================================================
