----------------------------- MODULE JsonLines -----------------------------
(***************************************************************************)
(* rxsci.container.json: dump_to_file / load_from_file as a *composition*  *)
(* of chunked-stream stages, each with its own carry-over state:           *)
(*                                                                         *)
(*   dump_to_file   = dump -> data.encode -> [compress] -> file.write      *)
(*   load_from_file = file.read(64 KiB) -> [decompress] -> data.decode     *)
(*                    (incremental) -> line.unframe -> load                *)
(*                                                                         *)
(* Objects are abstract tokens; the serializer is axiomatised: the text of *)
(* an object is a non-empty sequence of symbols without the newline symbol *)
(* (json.dumps escapes newlines inside strings), dump appends NL, load is  *)
(* the inverse parser and drops empty lines (load_json returns None for    *)
(* len(i) == 0 and None is filtered).                                      *)
(*                                                                         *)
(* A symbol c /= NL is encoded on Width(c) = c \div 10 bytes (1..4, as     *)
(* utf-8 does for characters inside strings); byte k of symbol c is the    *)
(* integer 10*c + k, NL is one byte.  The incremental decoder buffers the  *)
(* bytes of an incomplete character (`pend`).                              *)
(*                                                                         *)
(* The optional compression stage is an axiomatised stream codec: the wire *)
(* is HdrLen header units, data units (a data unit d >= 0 encodes d plain  *)
(* bytes; the model compressor emits one unit per plain byte), TrlLen      *)
(* trailer units.  The decompressor releases nondeterministically: after   *)
(* consuming a prefix of the wire any amount between what it has released  *)
(* already and what the consumed data units encode; everything once the    *)
(* trailer is consumed (`eof`).  Completion without eof is an error.       *)
(*                                                                         *)
(* The environment: the object list, compression on/off, the read size R,  *)
(* and the kind of file: "path" (regular file: every read returns exactly  *)
(* R bytes, the last one the rest) or "obj" (file object: a read may       *)
(* return fewer bytes, but > 0 before the end).  file.read loops           *)
(*     data = f.read(size); while len(data) > 0: on_next(data); ...        *)
(* i.e. the stream completes at the first empty read = end of file.        *)
(*                                                                         *)
(* Property C19: at completion the loaded items are the dumped objects, in *)
(* order, one item per object, for every alignment of the read boundaries  *)
(* with multi-byte characters, compressed units and line ends; the state   *)
(* of every stage is a function of the bytes delivered so far only.        *)
(***************************************************************************)
EXTENDS Integers, Sequences, FiniteSets, TLC

CONSTANTS Syms,       \* symbols allowed in the text of an object (NL excluded)
          NL,         \* the newline symbol
          MaxObjs, MaxLen,
          Comps,      \* subset of {0, 1}: compression off / on
          Envs,       \* set of integers: R for kind "path", 10 + R for kind "obj" (R \in 1..9)
          HdrLen, TrlLen,
          Greedy,     \* TRUE: the decompressor releases all it can (behaviour generation)
          KeepHist    \* TRUE: record the read sizes

VARIABLES objs, comp, kind, R,   \* environment, chosen initially
          text, plain, file,     \* what dump_to_file wrote: the characters dump() produced,
                                 \* their encoding, the file (after the optional compression)
          pos,                   \* file.read: units of `file` delivered so far
          rel, eof,              \* decompress: plain bytes released so far, eof flag
          pend,                  \* data.decode: bytes of the incomplete character
          acc,                   \* line.unframe: incomplete line
          loaded,                \* load: objects emitted so far
          done, err,             \* completion delivered / "none" or the failing stage
          hist

vars == <<objs, comp, kind, R, text, plain, file, pos, rel, eof, pend, acc, loaded, done, err, hist>>

(* the C15 model of rxsci.framing.line is re-used for the unframe stage *)
LF == INSTANCE LineFraming WITH Alphabet <- Syms, MaxItems <- 0, MaxLen <- 0, MaxChunk <- 0,
                                KeepHist <- FALSE, Deviation <- "none", items <- <<>>, tail <- <<>>, pos <- 0,
                                acc <- <<>>, out <- <<>>, done <- FALSE, hist <- <<>>

HDR == -1
TRL == -2

SeqsUpTo(S, n) == UNION {[1..m -> S] : m \in 0..n}
Min(a, b) == IF a < b THEN a ELSE b

RECURSIVE Concat(_)
Concat(ss) == IF ss = <<>> THEN <<>> ELSE Head(ss) \o Concat(Tail(ss))

-----------------------------------------------------------------------------
(* axiomatised serializer *)
TextOf(o) == o                      \* json.dumps(o), decoded
Parse(t)  == t                      \* json.loads(t)
DumpLine(o) == Append(TextOf(o), NL)    \* dump(): line = json.dumps(i) + newline

(* axiomatised text codec: utf-8 like, 1..4 bytes per character *)
Width(c) == IF c = NL THEN 1 ELSE c \div 10
BytesOf(c) == [k \in 1..Width(c) |-> 10 * c + k]
SymOf(b) == b \div 10
IsLastByte(b) == (b % 10) = Width(SymOf(b))

EncodeItem(line) == Concat([j \in 1..Len(line) |-> BytesOf(line[j])])   \* encoder.encode(i)

(* decoder.decode(chunk) with `buf` = pending bytes + chunk: all complete characters *)
DecChars(buf) == LET e == SelectSeq(buf, IsLastByte) IN [j \in 1..Len(e) |-> SymOf(e[j])]
DecRest(buf) ==
    LET idx == {j \in 1..Len(buf) : IsLastByte(buf[j])}
        last == IF idx = {} THEN 0 ELSE CHOOSE j \in idx : \A q \in idx : q <= j
    IN SubSeq(buf, last + 1, Len(buf))

(* dump -> encode: one chunk of bytes per object; file.write concatenates *)
TextOfAll(os) == Concat([j \in 1..Len(os) |-> DumpLine(os[j])])
PlainOf(os) == Concat([j \in 1..Len(os) |-> EncodeItem(DumpLine(os[j]))])

(* axiomatised compressor: header, one data unit per plain byte, trailer *)
Compress(p) == [j \in 1..HdrLen |-> HDR] \o [j \in 1..Len(p) |-> 1] \o [j \in 1..TrlLen |-> TRL]
FileOf(os, c) == IF c = 1 THEN Compress(PlainOf(os)) ELSE PlainOf(os)

(* plain bytes encoded by the data units among the first p units of the wire *)
RECURSIVE Cap(_)
Cap(p) == IF p = 0 THEN 0 ELSE Cap(p - 1) + (IF file[p] >= 0 THEN file[p] ELSE 0)

TrlUnits(p) == Cardinality({j \in 1..p : file[j] = TRL})
FrameComplete(p) == TrlUnits(Len(file)) > 0 /\ TrlUnits(p) = TrlUnits(Len(file))

(* what decompressor.decompress(chunk) may have released in total once p units are consumed *)
Releases(p) ==
    IF comp = 0 THEN {p}
    ELSE IF FrameComplete(p) \/ Greedy THEN {Cap(p)}
    ELSE rel..Cap(p)

(* load(): map(load_json) then filter(not None): empty lines are dropped *)
NonEmpty(x) == x # <<>>
LoadLines(ls) == LET ne == SelectSeq(ls, NonEmpty) IN [j \in 1..Len(ne) |-> Parse(ne[j])]

-----------------------------------------------------------------------------
(* one chunk of n units travels down the pipeline; r = total released afterwards *)
Deliver(n, r) ==
    LET chunk  == SubSeq(file, pos + 1, pos + n)                 \* file.read: on_next(data)
        pchunk == IF comp = 1 THEN SubSeq(plain, rel + 1, r)     \* decompress.on_next
                  ELSE chunk
        buf    == pend \o pchunk                                 \* decode.on_next
        str    == DecChars(buf)
        lines  == LF!OnNextOut(acc, str)                         \* unframe.on_next
    IN /\ pos' = pos + n
       /\ rel' = r
       /\ eof' = (comp = 1 /\ FrameComplete(pos + n))
       /\ pend' = DecRest(buf)
       /\ acc' = LF!OnNextAcc(acc, str)
       /\ loaded' = loaded \o LoadLines(lines)                   \* load
       /\ UNCHANGED <<objs, comp, kind, R, text, plain, file, done, err>>

Init ==
    /\ objs \in SeqsUpTo(SeqsUpTo(Syms, MaxLen) \ {<<>>}, MaxObjs)
    /\ comp \in Comps
    /\ \E e \in Envs : kind = (IF e >= 10 THEN "obj" ELSE "path") /\ R = e % 10
    /\ text = TextOfAll(objs)
    /\ plain = PlainOf(objs)
    /\ file = FileOf(objs, comp)
    /\ pos = 0 /\ rel = 0 /\ eof = FALSE /\ pend = <<>> /\ acc = <<>> /\ loaded = <<>>
    /\ done = FALSE /\ err = "none" /\ hist = <<>>

(* f.read(size) on a regular file: exactly R bytes, the last read returns the rest *)
ReadFull ==
    /\ ~done /\ pos < Len(file)
    /\ LET n == Min(R, Len(file) - pos) IN
         /\ \E r \in Releases(pos + n) : Deliver(n, r)
         /\ hist' = IF KeepHist THEN Append(hist, n) ELSE hist

(* f.read(size) on a file object (socket, pipe, wrapper): fewer bytes, but not none *)
ReadShort ==
    /\ ~done /\ kind = "obj"
    /\ \E n \in 1..(Min(R, Len(file) - pos) - 1) :
         /\ \E r \in Releases(pos + n) : Deliver(n, r)
         /\ hist' = IF KeepHist THEN Append(hist, n) ELSE hist

(* the first empty read ends the loop: on_completed travels down the pipeline
     decompress: error if not eof, else flush (empty) and complete
     decode:     decoder.decode(b'', final=True): error if a character is incomplete
     unframe:    a non-empty acc is emitted as the last line
     load:       parses it                                                        *)
Complete ==
    /\ ~done /\ pos = Len(file)
    /\ done' = TRUE
    /\ IF comp = 1 /\ ~eof THEN err' = "decompress" /\ loaded' = loaded
       ELSE IF pend # <<>> THEN err' = "decode" /\ loaded' = loaded
       ELSE err' = err /\ loaded' = loaded \o LoadLines(LF!OnCompletedOut(acc))
    /\ UNCHANGED <<objs, comp, kind, R, text, plain, file, pos, rel, eof, pend, acc, hist>>

Next == ReadFull \/ ReadShort \/ Complete

Spec == Init /\ [][Next]_vars

-----------------------------------------------------------------------------
(* Specification-level definitions: positions in the written text *)
RECURSIVE ByteLenTo(_, _)
ByteLenTo(t, k) == IF k = 0 THEN 0 ELSE ByteLenTo(t, k - 1) + Width(t[k])
ByteLen(t) == ByteLenTo(t, Len(t))

(* number of leading elements of `ws` (a sequence of sizes) that end at or before offset d *)
RECURSIVE CountWithin(_, _, _, _)
CountWithin(ws, i, off, d) ==
    IF i > Len(ws) THEN 0
    ELSE IF off + ws[i] <= d THEN 1 + CountWithin(ws, i + 1, off + ws[i], d) ELSE 0
RECURSIVE OffsetAfter(_, _)
OffsetAfter(ws, k) == IF k = 0 THEN 0 ELSE OffsetAfter(ws, k - 1) + ws[k]

LineSizes == [j \in 1..Len(objs) |-> ByteLen(objs[j]) + 1]
CharSizes == [j \in 1..Len(text) |-> Width(text[j])]
LinesWithin(d) == CountWithin(LineSizes, 1, 0, d)     \* lines completely inside plain[1..d]
CharsWithin(d) == CountWithin(CharSizes, 1, 0, d)     \* characters completely inside plain[1..d]

(* plain bytes that the delivered part of the file determines *)
Avail(p) == IF comp = 1 THEN Cap(p) ELSE p

TypeOK ==
    /\ pos \in 0..Len(file) /\ rel \in 0..Len(plain)
    /\ eof \in BOOLEAN /\ done \in BOOLEAN /\ err \in {"none", "decompress", "decode"}
    /\ Len(pend) <= 3

(* the axioms the stage models rest upon, checked on every generated input (they only
   speak about the environment variables, so the initial states suffice) *)
SerializerAxiom ==
    pos = 0 => \A j \in 1..Len(objs) :
        /\ TextOf(objs[j]) # <<>>
        /\ \A q \in 1..Len(TextOf(objs[j])) : TextOf(objs[j])[q] # NL
        /\ Parse(TextOf(objs[j])) = objs[j]
CodecAxiom == pos = 0 => DecChars(plain) = text /\ DecRest(plain) = <<>>
                         /\ Len(plain) = ByteLen(text)
FramingAxiom == pos = 0 => /\ LF!CompleteLines(text) = [j \in 1..Len(objs) |-> TextOf(objs[j])]
                           /\ LF!Remainder(text) = <<>>
WireAxiom == pos = 0 /\ comp = 1 => /\ Cap(Len(file)) = Len(plain)
                                    /\ FrameComplete(Len(file))
                                    /\ ~FrameComplete(Len(file) - 1)

(* Confluence, stage by stage: the carry-over state is a function of what was delivered *)
ConfluenceRead == comp = 0 => rel = pos
ConfluenceDecompress ==
    comp = 1 => /\ rel <= Cap(pos)
                /\ eof <=> pos = Len(file)
                /\ eof => rel = Len(plain)
ConfluenceDecode ==
    ~done => pend = SubSeq(plain, OffsetAfter(CharSizes, CharsWithin(rel)) + 1, rel)
ConfluenceUnframe ==
    ~done => LET decoded == SubSeq(text, 1, CharsWithin(rel)) IN acc = LF!Remainder(decoded)
ConfluenceLoad == ~done => loaded = SubSeq(objs, 1, LinesWithin(rel))
Confluence == /\ ConfluenceRead /\ ConfluenceDecompress /\ ConfluenceDecode
              /\ ConfluenceUnframe /\ ConfluenceLoad

(* nothing is emitted before the bytes that determine it were read from the file *)
NoEarlyOutput == Len(loaded) <= LinesWithin(Avail(pos))

(* one item per object, in order, at any time *)
PrefixOfDumped == Len(loaded) <= Len(objs) /\ loaded = SubSeq(objs, 1, Len(loaded))

NoError == err = "none"
RoundTrip == done => loaded = objs /\ err = "none"

(* behaviour generation: the environment choices at every terminal state *)
EmitBehaviour == done => PrintT(<<"BEH", objs, comp, kind, R, hist>>)
=============================================================================
