------------------------- MODULE StreamCodecTrace -------------------------
(***************************************************************************)
(* Trace validation for rxsci.compression.z / .zstd (C16).                 *)
(*                                                                         *)
(* A batch of recorded executions of the real compress()/decompress() of   *)
(* one codec is read from IOEnv.TRACE_FILE.  One trace:                    *)
(*   codec        "gzip" | "zstd"                                          *)
(*   scale        "bytes": symbol = byte, wire unit = compressed byte      *)
(*                "blocks": big inputs, scaled down by the harness: wire   *)
(*                unit = run of compressed bytes between two cut points,   *)
(*                symbol = run of plain bytes between two release points   *)
(*                (the harness compares the bytes and maps a run that is   *)
(*                not the expected part of the plain text to symbol -1)    *)
(*   chunks       plain chunks (symbol lists)                              *)
(*   couts,cfinal what compress() emitted per item / at completion, as     *)
(*                wire units; a unit is the number of symbols that the     *)
(*                library releases when it is fed this unit (measured)     *)
(*   cended       how compress() ended                                     *)
(*   ref          verdict of the reference decoder (gzip module /          *)
(*                zstandard one-shot API) on the concatenated output:      *)
(*                [valid, equal]                                           *)
(*   wlen         number of wire units; truncated_at: units delivered      *)
(*   feeds        [n, nb, out, ob, lib, libeof, libraised]: units / bytes  *)
(*                handed to decompress(), what it emitted meanwhile        *)
(*                (symbols / byte count), and what the library itself      *)
(*                (a shadow object fed with the same chunks) returned      *)
(*   final,finalb emitted at completion; libflush                          *)
(*   ended        "completed" | "error:<Type>" | ...; ended_kind           *)
(*                "completed" | "error" | "raised" | "open"; err_at: index *)
(*                of the feed during which the error was signalled         *)
(*                (0 none, Len(feeds)+1 at completion)                     *)
(*   plainb, wireb, truncb   byte counts                                   *)
(*                                                                         *)
(* Every trace is replayed through the actions of StreamCodec; the         *)
(* nondeterministic choices of the library are bound to what was logged    *)
(* (compressor: the units emitted, decompressor: the release of the shadow *)
(* object).  Exactly one verdict is printed per trace:                     *)
(*   <<"VERDICT", tid, "ACCEPT", steps, insync, axioms>>                   *)
(*   <<"VERDICT", tid, "REJECT", step, clause, cause, axioms>>             *)
(*                                                                         *)
(* Clauses for the rxsci wrappers (C16), judged on the real observations   *)
(* with specification-level definitions only:                              *)
(*   standalone-file         compress() output is not a valid standalone   *)
(*                           file equal to the input (reference decoder)   *)
(*   early-or-wrong-output   emitted data not a prefix of the plain text,  *)
(*                           or more than the delivered wire carries and   *)
(*                           the library released                          *)
(*   truncation-not-flagged  truncated stream did not end with an error    *)
(*   completion              untruncated stream did not complete cleanly   *)
(*   roundtrip               untruncated stream: output # input            *)
(* `axioms`: the library axioms of StreamCodec that the shadow object did  *)
(* not satisfy on this trace (axiom-...); a note about the assumed         *)
(* component, not a verdict.  insync: the modelled wrapper produced the    *)
(* same outputs and the same end as the real one.                          *)
(***************************************************************************)
EXTENDS StreamCodec, Json, IOUtils

Traces == JsonDeserialize(IOEnv.TRACE_FILE)

VARIABLES tid, l, st, remit, ax, insync, mon

tvars == <<vars, tid, l, st, remit, ax, insync, mon>>

T == Traces[tid]

RECURSIVE Concat(_)
Concat(ss) == IF ss = <<>> THEN <<>> ELSE Head(ss) \o Concat(Tail(ss))

NC == Len(T.chunks)
NF == Len(T.feeds)
Plain == Concat(T.chunks)
RWire == Concat(T.couts) \o T.cfinal

RECURSIVE PosBefore(_)
PosBefore(k) == IF k <= 1 THEN 0 ELSE PosBefore(k - 1) + T.feeds[k - 1].n

RECURSIVE BytesFed(_)
BytesFed(k) == IF k = 0 THEN 0 ELSE BytesFed(k - 1) + T.feeds[k].nb

RECURSIVE LibOut(_)
LibOut(k) == IF k = 0 THEN 0 ELSE LibOut(k - 1) + Len(T.feeds[k].lib)

RECURSIVE BytesOut(_)
BytesOut(k) == IF k = 0 THEN 0 ELSE BytesOut(k - 1) + T.feeds[k].ob

TraceInit ==
    /\ tid \in 1..Len(Traces)
    /\ l = 0 /\ st = "run" /\ remit = <<>> /\ ax = {} /\ insync = TRUE /\ mon = TRUE
    /\ Init

Reject(step, clause, cause) ==
    /\ PrintT(<<"VERDICT", tid, "REJECT", step, clause, cause, ax>>)
    /\ st' = "end"
    /\ UNCHANGED <<vars, tid, l, remit, ax, insync, mon>>

Advance == l' = l + 1 /\ UNCHANGED <<tid, st>>

-----------------------------------------------------------------------------
(* compress(): one step per plain chunk, then completion *)
TraceCNext ==
    /\ st = "run" /\ l < NC
    /\ LET chunk == T.chunks[l + 1]
           e == T.couts[l + 1]
       IN IF ~mon THEN UNCHANGED <<vars, ax, mon>>
          ELSE IF ~CompressMay(cpend + Len(chunk), e)
          THEN /\ ax' = ax \cup {"axiom-compress-causal"} /\ mon' = FALSE
               /\ UNCHANGED vars
          ELSE CNext(chunk, e) /\ UNCHANGED <<ax, mon>>
    /\ Advance
    /\ UNCHANGED <<remit, insync>>

TraceCComplete ==
    /\ st = "run" /\ l = NC
    /\ IF T.cended # "completed" THEN Reject(l + 1, "completion", "compress-ended-" \o T.cended)
       ELSE IF ~T.ref.valid THEN Reject(l + 1, "standalone-file", "reference-decoder-rejects")
       ELSE IF ~T.ref.equal THEN Reject(l + 1, "standalone-file", "reference-decoder-differs")
       ELSE IF Len(RWire) # T.wlen \/ T.truncated_at > T.wlen
            THEN Reject(l + 1, "model-harness-wire", "")
       ELSE /\ IF ~mon THEN UNCHANGED <<vars, ax, mon>>
               ELSE IF ~FlushMust(cpend, T.cfinal)
               THEN /\ ax' = ax \cup {"axiom-compress-flush-all"} /\ mon' = FALSE
                    /\ UNCHANGED vars
               ELSE CComplete(T.cfinal) /\ UNCHANGED <<ax, mon>>
            /\ Advance
            /\ UNCHANGED <<remit, insync>>

-----------------------------------------------------------------------------
(* the library axioms on one call of the shadow decompressor *)
LibAxiomViolations(f) ==
    IF eof
    THEN IF (f.libraised # "") # (AfterEof = "error") THEN {"axiom-after-eof-policy"} ELSE {}
    ELSE IF f.libraised # "" THEN {"axiom-no-raise-on-valid-prefix"}
    ELSE LET r == rel + Len(f.lib) IN
         (IF r > Len(text) \/ SubSeq(text, rel + 1, IF r > Len(text) THEN Len(text) ELSE r) # f.lib
          THEN {"axiom-release-prefix"} ELSE {})
         \cup (IF r > Know(wire, pos + f.n) THEN {"axiom-release-causal"} ELSE {})
         \cup (IF f.libeof # MarkerAt(pos + f.n) THEN {"axiom-eof-exact"} ELSE {})
         \cup (IF f.libeof /\ r # Len(text) THEN {"axiom-eof-all-released"} ELSE {})

(* decompress(): one step per chunk handed to it *)
TraceDNext ==
    /\ st = "run" /\ l > NC /\ l <= NC + NF
    /\ LET k == l - NC
           f == T.feeds[k]
           p1 == PosBefore(k) + f.n
           remit2 == remit \o f.out
       IN IF p1 > T.truncated_at THEN Reject(l + 1, "model-harness-feed", "")
          ELSE IF ~IsPrefix(remit2, Plain) THEN Reject(l + 1, "early-or-wrong-output", "wrong")
          ELSE IF Len(remit2) > Know(RWire, p1) /\ Len(remit2) > LibOut(k)
               THEN \* more than the delivered wire carries and more than the library gave
                    Reject(l + 1, "early-or-wrong-output", "early")
          ELSE /\ remit' = remit2
               /\ Advance
               /\ IF ~mon THEN UNCHANGED <<vars, ax, mon, insync>>
                  ELSE LET bad == LibAxiomViolations(f) IN
                       IF bad # {}
                       THEN /\ ax' = ax \cup bad /\ mon' = FALSE
                            /\ UNCHANGED <<vars, insync>>
                       ELSE IF dstate # "open"
                       THEN /\ insync' = (insync /\ f.out = <<>>)
                            /\ UNCHANGED <<vars, ax, mon>>
                       ELSE /\ DNext(f.n, IF eof \/ (Wrapper = "guarded" /\ f.n = 0)
                                          THEN rel ELSE rel + Len(f.lib))
                            /\ insync' = (/\ insync
                                          /\ emitted' = remit2
                                          /\ (dstate' # "open") = (T.err_at = k))
                            /\ UNCHANGED <<ax, mon>>

-----------------------------------------------------------------------------
(* where and how the real decompress() failed (for the witness) *)
Cause ==
    IF T.err_at = 0 THEN "ended-" \o T.ended_kind
    ELSE IF T.err_at > NF THEN "error-at-completion"
    ELSE IF T.feeds[T.err_at].n = 0 /\ T.feeds[T.err_at].nb = 0 /\ PosBefore(T.err_at) = T.wlen
         THEN "empty-chunk-after-eof"
    ELSE IF PosBefore(T.err_at) = T.wlen THEN "data-after-eof"
    ELSE "error-on-valid-prefix"

TraceDComplete ==
    /\ st = "run" /\ l = NC + NF + 1
    /\ LET fin == remit \o T.final
           truncated == T.truncated_at < T.wlen
           flushbad == mon /\ eof /\ T.libflush # LibFlush
           ax2 == IF flushbad THEN ax \cup {"axiom-flush-empty-after-eof"} ELSE ax
       IN IF PosBefore(NF + 1) # T.truncated_at \/ BytesFed(NF) # T.truncb
             \/ (T.truncb < T.wireb) # truncated
          THEN Reject(l + 1, "model-harness-truncation", "")
          ELSE IF ~IsPrefix(fin, Plain) THEN Reject(l + 1, "early-or-wrong-output", "wrong")
          ELSE IF truncated /\ T.ended_kind # "error"
               THEN Reject(l + 1, "truncation-not-flagged", "ended-" \o T.ended_kind)
          ELSE IF ~truncated /\ T.ended # "completed" THEN Reject(l + 1, "completion", Cause)
          ELSE IF ~truncated /\ (fin # Plain \/ BytesOut(NF) + T.finalb # T.plainb)
               THEN Reject(l + 1, "roundtrip", "output-differs")
          ELSE /\ IF mon /\ ~flushbad /\ dstate = "open"
                  THEN /\ DComplete
                       /\ PrintT(<<"VERDICT", tid, "ACCEPT", l + 1,
                                   /\ insync
                                   /\ emitted' = fin
                                   /\ (dstate' = "completed") = (T.ended = "completed")
                                   /\ (dstate' # "completed") = (T.err_at = NF + 1),
                                   ax2>>)
                  ELSE /\ UNCHANGED vars
                       /\ PrintT(<<"VERDICT", tid, "ACCEPT", l + 1,
                                   insync /\ mon /\ ~flushbad /\ T.final = <<>>
                                   /\ T.err_at # 0 /\ T.err_at <= NF, ax2>>)
               /\ st' = "end"
               /\ UNCHANGED <<tid, l, remit, ax, insync, mon>>

TraceNext == TraceCNext \/ TraceCComplete \/ TraceDNext \/ TraceDComplete

TraceSpec == TraceInit /\ [][TraceNext]_tvars

(* the design-level invariants hold along every real trace as long as the model
   is in step with it *)
TraceInvariants == (st = "run" /\ mon) =>
                      /\ PrefixSafe /\ NothingEarly /\ CleanMeansAll
                      /\ LibEofExact /\ LibAllReleased /\ WireCarriesText
=============================================================================
