----------------------------- MODULE PlainCheck -----------------------------
(***************************************************************************)
(* C01 at the design level: for every pipeline of a bounded grammar of     *)
(* dual-mode operators (kind-agnostic ones, so that every composition is   *)
(* well typed) and every item sequence, the plain reading (take/first      *)
(* complete early) and the multiplexed reading (keys complete with their   *)
(* parent) of PlainSem deliver the same items in the same order, provided  *)
(* the pipeline satisfies the preconditions of the property (PreOK).       *)
(* NeedsPre is expected to be VIOLATED: it shows the precondition about    *)
(* completion-triggered operators after take/first inside tee_map is not   *)
(* vacuous.                                                                *)
(***************************************************************************)
EXTENDS PlainSem

CONSTANTS MaxLen,     \* items per group
          Depth,      \* 1: tee alone; 2: one operator before or after the tee
          BranchLen   \* operators per branch

VARIABLES pipe, xs
vars == <<pipe, xs>>

NoFn == Fn("none", 0)
Prim ==
    {[op |-> "take", n |-> 1], [op |-> "take", n |-> 2], [op |-> "first"], [op |-> "last"],
     [op |-> "to_list"], [op |-> "identity"], [op |-> "batch", n |-> 2],
     [op |-> "count", reduce |-> TRUE], [op |-> "count", reduce |-> FALSE],
     [op |-> "scan", f |-> Fn("appendNew", 0), seed |-> LstV(<<>>), reduce |-> FALSE, term |-> NoFn]}

SeqsUpTo(S, k) == UNION {[1..m -> S] : m \in 0..k}
Branches == SeqsUpTo(Prim, BranchLen)
Tees == {[op |-> "tee", join |-> j, branches |-> <<a, b>>] :
            j \in {"merge", "zip", "combine_latest"}, a \in Branches, b \in Branches}
Flat == SeqsUpTo(Prim, 3)
Pipes == Flat
         \cup {<<t>> : t \in Tees}
         \cup (IF Depth >= 2 THEN {<<p, t>> : p \in Prim, t \in Tees} \cup
                                  {<<t, p>> : t \in Tees, p \in Prim}
               ELSE {})

Vals == {IntV(1), IntV(2)}

Init == pipe \in Pipes /\ xs = <<>>
Next == Len(xs) < MaxLen /\ (\E v \in Vals : xs' = Append(xs, v)) /\ UNCHANGED pipe
Spec == Init /\ [][Next]_vars

(* first/last are not applied to an empty group (there RxPY raises by design):
   groups have at least one item *)
NonEmpty == Len(xs) >= 1

MuxEqualsPlain ==
    NonEmpty /\ PreOK(pipe) => Items(PlainRun(pipe, xs)) = Items(MuxRun(pipe, xs))

(* without the precondition the two readings differ (expected to be violated) *)
NeedsPre == NonEmpty => Items(PlainRun(pipe, xs)) = Items(MuxRun(pipe, xs))

(* the multiplexed reading is the plain list semantics of the flat composition *)
RECURSIVE Compose(_, _)
Compose(p, ys) == IF p = <<>> THEN ys
                  ELSE Compose(Tail(p), RR(Head(p), ys) \o F(Head(p), ys))
FlatAgrees == ~HasTee(pipe) => Items(MuxRun(pipe, xs)) = Compose(pipe, xs)
=============================================================================
