---------------------------- MODULE StreamCodec ----------------------------
(***************************************************************************)
(* rxsci.compression.z / rxsci.compression.zstd (property C16).            *)
(*                                                                         *)
(* zlib and zstandard are black boxes; they are AXIOMATISED here.          *)
(*                                                                         *)
(*  * The compressed stream ("wire") is a sequence of abstract units.      *)
(*    A unit is an integer: HDR (-1) a piece of the header, TRL (-2) a     *)
(*    piece of the trailer (the end-of-stream marker), k >= 0 a data unit  *)
(*    that carries the next k symbols of the plain text (k = 0: block      *)
(*    headers, padding).  Only two derived notions are used by the axioms: *)
(*        Know(w, p)  how many plain symbols the first p units carry,      *)
(*        Len(w)      where the end-of-stream marker is complete,          *)
(*    so a wire measured on the real libraries (one unit per byte, the     *)
(*    last unit carrying data *and* ending the stream as zstd does) fits   *)
(*    too (StreamCodecTrace).                                              *)
(*  * Library compressor: compress(chunk) accepts the chunk and returns    *)
(*    any unit sequence carrying not more than what is pending (possibly   *)
(*    nothing); flush() returns everything pending plus the marker.        *)
(*  * Library decompressor: decompress(cut of the wire) releases any part  *)
(*    of the plain text that the consumed units carry (it may hold data    *)
(*    back), it has released everything once the marker is consumed and    *)
(*    sets eof exactly then; empty input before eof is tolerated.          *)
(*    NAMED DEVIATION AfterEof: a call once eof is set returns nothing     *)
(*    ("ignore": zlib) or raises ("error": zstandard's decompressobj,      *)
(*    "cannot use a decompressobj multiple times") - even for empty input. *)
(*    WeakFlush = TRUE weakens "has released everything at eof" to "has    *)
(*    released everything after flush()": this is why the wrapper forwards *)
(*    flush().                                                             *)
(*                                                                         *)
(* The rxsci wrappers are modelled as coded (one operator per branch):     *)
(*   compress():   on_next      -> emit compressor.compress(i) (even b'')  *)
(*                 on_completed -> emit compressor.flush(); complete       *)
(*   decompress(): on_next      -> emit decompressor.decompress(i);        *)
(*                                 an exception -> on_error                *)
(*                 on_completed -> if not eof: on_error(RuntimeError)      *)
(*                                 else: emit flush(); complete            *)
(* Wrapper = "guarded" is the proposed fix: decompress().on_next does not  *)
(* hand empty input to the library.                                        *)
(* (The library compressor never raises on byte strings and the library    *)
(* decompressor never raises on a prefix of a valid stream; these except   *)
(* branches are unreachable under the quantifier of C16.)                  *)
(*                                                                         *)
(* Environment: chooses the plain chunks (CNext), the re-chunking of the   *)
(* wire (DNext(n), n >= 0) and the truncation point: completion may be     *)
(* signalled after any delivered prefix; the stream is truncated iff the   *)
(* marker was not completely delivered (pos < Len(wire)).                  *)
(***************************************************************************)
EXTENDS Integers, Sequences, TLC

CONSTANTS Sym,        \* plain symbols
          MaxChunks,  \* number of plain chunks (empty ones included)
          MaxTotal,   \* plain symbols in total
          HdrLen,     \* units of the header
          TrlLen,     \* units of the trailer; 0: the last data unit ends the stream
          MaxZero,    \* data units carrying nothing that the compressor may emit
          MaxFeed,    \* units per chunk handed to decompress
          AfterEof,   \* "ignore" | "error"    (library deviation, see above)
          Wrapper,    \* "coded" | "guarded"   (rxsci decompress wrapper variant)
          WeakFlush,  \* BOOLEAN
          KeepHist    \* TRUE: record chunks and feeds (behaviour generation)

VARIABLES text,     \* plain text accepted by compress() so far (concatenated)
          nch,      \* number of plain chunks so far
          cpend,    \* library compressor: symbols accepted, not yet on the wire
          wire,     \* everything compress() has emitted, concatenated
          cstate,   \* compress(): "open" | "completed"
          pos,      \* units of the wire handed to decompress() so far
          rel,      \* library decompressor: symbols released so far
          eof,      \* library decompressor: eof attribute
          emitted,  \* decompress(): everything emitted, concatenated
          dstate,   \* decompress(): "open" | "completed" | "error:eof" | "error:lib"
          hist      \* [c |-> plain chunks, f |-> feed sizes] (only if KeepHist)

vars == <<text, nch, cpend, wire, cstate, pos, rel, eof, emitted, dstate, hist>>

HDR == -1
TRL == -2

SeqsUpTo(S, n) == UNION {[1..m -> S] : m \in 0..n}

Carry(x) == IF x < 0 THEN 0 ELSE x

RECURSIVE Know(_, _)
Know(w, p) == IF p = 0 THEN 0 ELSE Know(w, p - 1) + Carry(w[p])

Total(w) == Know(w, Len(w))

IsPrefix(a, b) == Len(a) <= Len(b) /\ SubSeq(b, 1, Len(a)) = a

-----------------------------------------------------------------------------
(* Axioms of the library compressor *)

CompressMay(pend, e) == Total(e) <= pend                \* causal: nothing invented
FlushMust(pend, e)   == Total(e) = pend /\ e # <<>>     \* all pending + the marker

(* The shapes explored by the model: header first, then data units, then trailer *)
RECURSIVE Units(_, _)
Units(m, z) ==   \* unit sequences carrying <= m symbols with <= z empty units
    {<<>>} \cup UNION {{<<k>> \o u : u \in Units(m - k, IF k = 0 THEN z - 1 ELSE z)}
                       : k \in (IF z > 0 THEN 0 ELSE 1)..m}

RECURSIVE Zeros(_)
Zeros(w) == IF w = <<>> THEN 0 ELSE (IF Head(w) = 0 THEN 1 ELSE 0) + Zeros(Tail(w))

HeaderIfNeeded == IF wire = <<>> THEN [j \in 1..HdrLen |-> HDR] ELSE <<>>
Trailer == [j \in 1..TrlLen |-> TRL]

CompressChoices(pend) ==
    {<<>>} \cup {HeaderIfNeeded \o u : u \in Units(pend, MaxZero - Zeros(wire))}

FlushChoices(pend) ==
    IF TrlLen > 0
    THEN {HeaderIfNeeded \o u \o Trailer :
             u \in {v \in Units(pend, MaxZero - Zeros(wire)) : Total(v) = pend}}
    ELSE \* the last data unit (possibly an empty one) is the end-of-stream marker
         {HeaderIfNeeded \o u :
             u \in {v \in Units(pend, 1 + MaxZero - Zeros(wire)) :
                       Total(v) = pend /\ v # <<>> /\ Zeros(wire \o v) <= MaxZero + 1}}

-----------------------------------------------------------------------------
(* rxsci compress() *)

(* on_next(i): data = compressor.compress(i); observer.on_next(data) *)
CNext(chunk, e) ==
    /\ cstate = "open"
    /\ nch < MaxChunks /\ Len(text) + Len(chunk) <= MaxTotal
    /\ CompressMay(cpend + Len(chunk), e)
    /\ text' = text \o chunk
    /\ nch' = nch + 1
    /\ cpend' = cpend + Len(chunk) - Total(e)
    /\ wire' = wire \o e
    /\ hist' = IF KeepHist THEN [hist EXCEPT !.c = Append(@, chunk)] ELSE hist
    /\ UNCHANGED <<cstate, pos, rel, eof, emitted, dstate>>

(* on_completed(): data = compressor.flush(); observer.on_next(data); on_completed() *)
CComplete(e) ==
    /\ cstate = "open"
    /\ FlushMust(cpend, e)
    /\ wire' = wire \o e
    /\ cpend' = 0
    /\ cstate' = "completed"
    /\ UNCHANGED <<text, nch, pos, rel, eof, emitted, dstate, hist>>

-----------------------------------------------------------------------------
(* Axioms of the library decompressor.  A call before eof consumes n more  *)
(* units and releases text[rel+1 .. r] for some r it chooses.               *)

MarkerAt(p) == p = Len(wire)        \* the end-of-stream marker is complete at p

LibMayRelease(n, r) ==
    /\ rel <= r /\ r <= Know(wire, pos + n)            \* a part of what it can know
    /\ MarkerAt(pos + n) /\ ~WeakFlush => r = Len(text)   \* everything at eof

LibFlush == SubSeq(text, rel + 1, Know(wire, pos))     \* what flush() returns

-----------------------------------------------------------------------------
(* rxsci decompress() *)

(* on_next(i): try: data = decompressor.decompress(i); observer.on_next(data)
               except Exception as e: observer.on_error(e)                   *)
DNext(n, r) ==
    /\ cstate = "completed" /\ dstate = "open"
    /\ pos + n <= Len(wire)
    /\ hist' = IF KeepHist THEN [hist EXCEPT !.f = Append(@, n)] ELSE hist
    /\ IF Wrapper = "guarded" /\ n = 0
       THEN \* proposed fix: empty input is not handed to the library
            /\ r = rel
            /\ UNCHANGED <<pos, rel, eof, emitted, dstate>>
       ELSE IF eof
       THEN \* library called after the end of the stream (only n = 0 is possible)
            /\ r = rel
            /\ dstate' = IF AfterEof = "error" THEN "error:lib" ELSE dstate
            /\ UNCHANGED <<pos, rel, eof, emitted>>
       ELSE /\ LibMayRelease(n, r)
            /\ pos' = pos + n
            /\ rel' = r
            /\ eof' = MarkerAt(pos + n)
            /\ emitted' = emitted \o SubSeq(text, rel + 1, r)
            /\ UNCHANGED dstate
    /\ UNCHANGED <<text, nch, cpend, wire, cstate>>

(* on_completed(): if not decompressor.eof: observer.on_error(RuntimeError(...))
                   else: observer.on_next(decompressor.flush()); on_completed() *)
DComplete ==
    /\ cstate = "completed" /\ dstate = "open"
    /\ IF ~eof
       THEN /\ dstate' = "error:eof"
            /\ UNCHANGED <<rel, emitted>>
       ELSE /\ emitted' = emitted \o LibFlush
            /\ rel' = Know(wire, pos)
            /\ dstate' = "completed"
    /\ UNCHANGED <<text, nch, cpend, wire, cstate, pos, eof, hist>>

-----------------------------------------------------------------------------
Init ==
    /\ text = <<>> /\ nch = 0 /\ cpend = 0 /\ wire = <<>> /\ cstate = "open"
    /\ pos = 0 /\ rel = 0 /\ eof = FALSE /\ emitted = <<>> /\ dstate = "open"
    /\ hist = [c |-> <<>>, f |-> <<>>]

CNextEnv == \E chunk \in SeqsUpTo(Sym, MaxTotal - Len(text)) :
               \E e \in CompressChoices(cpend + Len(chunk)) : CNext(chunk, e)
CCompleteEnv == \E e \in FlushChoices(cpend) : CComplete(e)
(* the branches of decompress() as separate environment actions (coverage) *)
Skipped(n) == Wrapper = "guarded" /\ n = 0
DFeedEnv ==         \* the library is called before eof
    ~eof /\ \E n \in 0..MaxFeed : ~Skipped(n) /\ \E r \in rel..Len(text) : DNext(n, r)
DFeedAfterEofEnv == \* the library is called after eof (empty chunk after the last byte)
    eof /\ ~Skipped(0) /\ DNext(0, rel)
DFeedGuardedEnv ==  \* Wrapper = "guarded": the empty chunk is not handed to the library
    Skipped(0) /\ DNext(0, rel)
DCompleteEofEnv   == eof /\ DComplete
DCompleteNoEofEnv == ~eof /\ DComplete

Next == \/ CNextEnv \/ CCompleteEnv
        \/ DFeedEnv \/ DFeedAfterEofEnv \/ DFeedGuardedEnv
        \/ DCompleteEofEnv \/ DCompleteNoEofEnv

Spec == Init /\ [][Next]_vars

-----------------------------------------------------------------------------
(* Specification-level vocabulary *)
Ended     == dstate # "open"
Errored   == dstate \in {"error:eof", "error:lib"}
Truncated == pos < Len(wire)       \* evaluated once Ended: pos no longer changes

TypeOK ==
    /\ cstate \in {"open", "completed"}
    /\ dstate \in {"open", "completed", "error:eof", "error:lib"}
    /\ pos \in 0..Len(wire) /\ rel \in 0..Len(text) /\ eof \in BOOLEAN
    /\ cpend \in 0..Len(text) /\ nch \in 0..MaxChunks

(* C16: nothing wrong, nothing early *)
PrefixSafe   == IsPrefix(emitted, text)
NothingEarly == Len(emitted) <= Know(wire, pos)

(* C16: completion without error => everything, exactly *)
CleanMeansAll == dstate = "completed" => emitted = text

(* C16: a truncated stream ends with an error, never with completion *)
TruncationFlagged == (Ended /\ Truncated) => Errored

(* C16: an untruncated stream, however it is re-chunked, completes without error *)
UntruncatedCompletes == (Ended /\ ~Truncated) => dstate = "completed"

(* the only way the modelled wrapper fails on an untruncated stream: the named
   library deviation (a call after eof raises) *)
UntruncatedFailsOnlyAfterEof ==
    (Ended /\ ~Truncated /\ dstate # "completed") =>
        (dstate = "error:lib" /\ AfterEof = "error" /\ Wrapper = "coded" /\ eof)

(* Appendix C of the design *)
LibEofExact      == eof <=> (cstate = "completed" /\ pos = Len(wire))
LibAllReleased   == (eof /\ ~WeakFlush) => rel = Len(text)
WireCarriesText  == Total(wire) + cpend = Len(text)
CompressTrailer  == TrlLen > 0 =>
                      ((cstate = "completed") <=> (wire # <<>> /\ wire[Len(wire)] = TRL))
WireShape        == \A j \in 1..Len(wire) :
                      /\ wire[j] = HDR => j <= HdrLen
                      /\ (j <= HdrLen) => wire[j] = HDR
                      /\ wire[j] = TRL => (cstate = "completed" /\ j > Len(wire) - TrlLen)

-----------------------------------------------------------------------------
(* behaviour generation *)
HistBound == /\ Len(hist.f) <= Len(wire) + 2
             /\ Zeros(hist.f) <= 2

EmitBehaviour == Ended => PrintT(<<"BEH", hist.c, wire, hist.f, dstate>>)
=============================================================================
