----------------------------- MODULE PlainTrace -----------------------------
(***************************************************************************)
(* Trace validation for C01 (multiplexing is transparent).  One trace =    *)
(* one pipeline P executed by the real code in both modes on the same      *)
(* keyed input:                                                            *)
(*   [pipe, modeled, groups |-> << [items   |-> the group's items,         *)
(*                                  mux     |-> items observed for the     *)
(*                                              group at the tail of the   *)
(*                                              multiplexed pipeline,      *)
(*                                  muxerr  |-> the multiplexed stream     *)
(*                                              died while this group's    *)
(*                                              item number .. was pushed  *)
(*                                              (0: it did not),           *)
(*                                  plain   |-> items delivered by         *)
(*                                              the plain run of P on items *)
(*                                  plainend|-> "completed" | "error",     *)
(*                                  plainerr|-> item number at which the   *)
(*                                              plain run failed (0: no)] >>*)
(* oracle = "pair": the verdict compares the two modes (C01); "plain-sem" /    *)
(* "mux-sem": the verdict compares one mode with PlainSem (used for operators  *)
(* that exist in one mode only, and for executions without inner taps).       *)
(* One TLC step per group.  Verdict (the property): for every group the    *)
(* two item sequences are equal, and a group fails in one mode iff it      *)
(* fails in the other, at the same item.  When `modeled`, both are also    *)
(* compared with PlainSem (which side deviates): reported, not a verdict.  *)
(***************************************************************************)
EXTENDS PlainSem, Json, IOUtils

Traces == JsonDeserialize(IOEnv.TRACE_FILE)

VARIABLES tid, l, st, insync
vars == <<tid, l, st, insync>>

Tr == Traces[tid]

TraceInit == tid \in 1..Len(Traces) /\ l = 0 /\ st = "run" /\ insync = TRUE

Reject(step, clause) ==
    /\ PrintT(<<"VERDICT", tid, "REJECT", step, clause>>)
    /\ st' = "end" /\ UNCHANGED <<tid, l, insync>>

(* the items the group delivers before its assertion fails (all of them if none) *)
UpTo(seq, n) == SubSeq(seq, 1, n)

TraceStep ==
    /\ st = "run"
    /\ IF l < Len(Tr.groups)
       THEN LET g == Tr.groups[l + 1] IN
            IF Tr.oracle = "pair" /\ (g.plainerr # 0) # (g.muxerr # 0)
                 THEN Reject(l + 1, "error-in-one-mode-only")
            ELSE IF Tr.oracle = "pair" /\ g.plainerr # 0 /\ g.plainerr # g.muxerr
                 THEN Reject(l + 1, "error-at-different-item")
            ELSE IF Tr.oracle # "pair" /\ (g.plainerr # 0 \/ g.muxerr # 0)
                 THEN Reject(l + 1, "unexpected-error")
            ELSE IF g.plainerr = 0 /\ g.plainend # "completed" THEN Reject(l + 1, "plain-did-not-complete")
            ELSE IF Tr.oracle = "pair" /\ g.mux # g.plain THEN Reject(l + 1, "mux-neq-plain")
            ELSE IF Tr.oracle = "plain-sem" /\ Items(PlainRun(Tr.pipe, g.items)) # g.plain
                 THEN Reject(l + 1, "plain-semantics")
            ELSE IF Tr.oracle = "mux-sem" /\ Items(MuxRun(Tr.pipe, g.items)) # g.mux
                 THEN Reject(l + 1, "mux-semantics")
            ELSE /\ l' = l + 1
                 /\ insync' = (insync /\ (~Tr.modeled \/ g.plainerr # 0 \/
                                           (/\ Items(PlainRun(Tr.pipe, g.items)) = g.plain
                                            /\ Items(MuxRun(Tr.pipe, g.items)) = g.mux)))
                 /\ UNCHANGED <<tid, st>>
       ELSE /\ PrintT(<<"VERDICT", tid, "ACCEPT", l, insync>>)
            /\ st' = "end" /\ UNCHANGED <<tid, l, insync>>

TraceSpec == TraceInit /\ [][TraceStep]_vars
=============================================================================
