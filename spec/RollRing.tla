------------------------------ MODULE RollRing ------------------------------
(***************************************************************************)
(* The slot ring of rxsci.data.roll (_roll, window # stride) for ONE key,  *)
(* integers only, for a fixed geometry (W, S).  `n` is the per-key item    *)
(* counter (state_n), `w[o]` the start index of the window held by ring    *)
(* slot o or -1 (state_w), exactly as coded:                               *)
(*     density = ceil(W / S)                                               *)
(*     item n: if n % S = 0: w[(n \div S) % density] := n   (open)         *)
(*             every slot with w[o] # -1 receives the item;                *)
(*             if n - w[o] + 1 = W: w[o] := -1               (close)       *)
(* IndInv is inductive and says that the ring holds exactly the windows    *)
(* that the specification Windows(W, S) has open after n items -- for      *)
(* every stream length (Apalache: Init => IndInv, IndInv /\ Next =>        *)
(* IndInv').  Consequences: a slot is free when it is recycled (no two     *)
(* live windows share a slot), and DeliverOK: item n is delivered to       *)
(* exactly the windows that contain position n.                            *)
(***************************************************************************)
EXTENDS Integers

CONSTANTS
    \* @type: Int;
    W,
    \* @type: Int;
    S

VARIABLES
    \* @type: Int;
    n,
    \* @type: Int -> Int;
    w

Density == (W \div S) + (IF W % S = 0 THEN 0 ELSE 1)
Slots == 0..(Density - 1)

Init == n = 0 /\ w = [o \in Slots |-> -1]

(* the window that item n opens, if any, then delivery and closing *)
Opened(o) == n % S = 0 /\ (n \div S) % Density = o
StartAfterOpen(o) == IF Opened(o) THEN n ELSE w[o]

Item ==
    /\ w' = [o \in Slots |->
                LET v == StartAfterOpen(o) IN
                IF v # -1 /\ n - v + 1 = W THEN -1 ELSE v]
    /\ n' = n + 1

Next == Item

(* ---- specification: the windows open after n items ---- *)
\* @type: (Int) => Bool;
ShouldBeOpen(v) == v >= 0 /\ v % S = 0 /\ v < n /\ n - v < W

IndInv ==
    /\ n >= 0
    /\ DOMAIN w = Slots
    /\ \A o \in Slots :
          /\ w[o] = -1 \/ (ShouldBeOpen(w[o]) /\ (w[o] \div S) % Density = o)
          (* completeness: the window that belongs in slot o and should be open is there *)
          /\ \A j \in 0..(Density - 1) :
                LET v == ((n - 1) \div S - j) * S IN
                (ShouldBeOpen(v) /\ (v \div S) % Density = o) => w[o] = v

(* initial predicate of the inductive step: any state satisfying the invariant *)
IndInit == n \in Nat /\ w \in [Slots -> Int] /\ IndInv

(* the slot is free when it is recycled *)
FreeWhenRecycled == \A o \in Slots : Opened(o) => w[o] = -1

(* item n (0-based) reaches exactly the windows whose range contains n *)
DeliverOK ==
    \A o \in Slots :
        LET v == StartAfterOpen(o) IN
        v # -1 => (v % S = 0 /\ v <= n /\ n - v < W)

Safety == IndInv /\ FreeWhenRecycled /\ DeliverOK
=============================================================================
