------------------------------- MODULE Store -------------------------------
(***************************************************************************)
(* rxsci.state.MemoryStore (memory_store.py), transcribed attribute by      *)
(* attribute, and - updated in lock-step - the dictionary model that        *)
(* property C14 compares it with.                                           *)
(*                                                                         *)
(* Concrete part (the code): parallel arrays values/state/keys indexed by  *)
(* key[0], the growth loop of add_key, the markers 0=NOTSET 1=SET          *)
(* 2=CLEARED, typed storage per data_type, default_value, and the mapper   *)
(* mode (one dict per slot, next_index/free_slots allocator).              *)
(*                                                                         *)
(* Abstract part (the specification): a dictionary  index |-> slot  whose   *)
(* domain is the set of live indices; a slot is fresh or holds a value of  *)
(* the declared type; a mapper slot holds a function map key |-> group     *)
(* index; a group index handed out is never equal to one still in use.     *)
(*                                                                         *)
(* Every public method is one action  M(args) == contract /\ C_M /\ A_M .  *)
(* C_M updates the code variables and `ret` (what the code returns), A_M   *)
(* updates the dictionary and `aret` (what the dictionary returns).  The   *)
(* trace specification StoreTrace re-uses C_M and A_M.                     *)
(*                                                                         *)
(* Values are tagged records [t |-> python type name, v |-> n] where n     *)
(* stands for an equivalence class of python `==` (class 0 is "== 0",     *)
(* class 1 is "== 1").  A key is [i |-> key[0], k |-> id of the whole key]. *)
(***************************************************************************)
EXTENDS Integers, Sequences, FiniteSets, TLC

CONSTANTS Indices,     \* key[0] values used by the environment
          Tails,       \* ids for "the rest of the key"
          MapKeys,     \* map keys used by the environment (mapper mode)
          IntVals,     \* the `v` of the values written by the environment
          DataTypes,   \* subset of {"int","uint","float","bool","obj","mapper"}
          Defaults,    \* default_value candidates: 99 = None, c < 99 = the value of class c
          MaxSteps,    \* bound on the history length (constraint StepBound)
          CountSteps,  \* FALSE: no step counter (complete reachable state space)
          KeepHist     \* TRUE: record the call history (behaviour generation)

VARIABLES dt, dflt,                                 \* constructor arguments
          values, state, keys, next_index, free_slots,  \* MemoryStore attributes
          aslot, ahi,                               \* the dictionary model
          call, ret, aret,                          \* last call and its two results
          n, hist

conc == <<values, state, keys, next_index, free_slots>>
abst == <<aslot, ahi>>
vars == <<dt, dflt, conc, abst, call, ret, aret, n, hist>>

-----------------------------------------------------------------------------
(* values *)
V(t, v)  == [t |-> t, v |-> v]
None     == V("none", 0)          \* python None as an argument / return value
NotSet   == V("NOTSET", 0)        \* the rs.state.markers.STATE_NOTSET sentinel
K(i, tl) == [i |-> i, k |-> tl]
NoKey    == [i |-> -1, k |-> 2]   \* keys.append(STATE_CLEARED.value())

R(x)     == [t |-> x.t, v |-> x.v, l |-> <<>>]      \* a scalar result
RL(t, l) == [t |-> t, v |-> Len(l), l |-> l]        \* a list result
BoolV(b) == V("bool", IF b THEN 1 ELSE 0)

Range(s) == {s[p] : p \in DOMAIN s}

RECURSIVE SortedSeq(_)
SortedSeq(S) == IF S = {} THEN <<>>
                ELSE LET m == CHOOSE x \in S : \A y \in S : x <= y
                     IN <<m>> \o SortedSeq(S \ {m})

NOTSET == 0
SET == 1
CLEARED == 2

IsMapper == dt = "mapper"

ValuesOf(d) == CASE d = "bool"   -> {V("bool", 0), V("bool", 1)}
                 [] d = "obj"    -> {V("int", x) : x \in IntVals} \cup {V("str", 9)}
                 [] d = "mapper" -> {}
                 [] OTHER        -> {V("int", x) : x \in IntVals}

AllValues == UNION {ValuesOf(d) : d \in DataTypes}

(* default_value of the declared type (cfg files can hold neither records nor negative numbers) *)
DefaultOf(d, c) == IF c = 99 THEN None ELSE IF d = "bool" THEN V("bool", c) ELSE V("int", c)
DefaultFits(d, c) == d = "bool" => c \in {99, 0, 1}

-----------------------------------------------------------------------------
(* ------------------------- the code: MemoryStore ------------------------ *)

(* what the typed container keeps of a python value:
   array('q'/'Q') -> int, array('d') -> float, array('B') -> int 0..255, list -> the object *)
Cell(x) == CASE dt \in {"int", "uint"} -> V("int", x.v)
             [] dt = "float"          -> V("float", x.v)
             [] dt = "bool"           -> V("int", x.v)
             [] OTHER                 -> x

(* self.values.append(0) *)
FillCell == IF IsMapper THEN [t |-> "int", v |-> 0, m |-> <<>>]
            ELSE IF dt = "float" THEN V("float", 0) ELSE V("int", 0)

(* a python dict: sequence of <<key, value>> in insertion order *)
DictCell(d) == [t |-> "dict", v |-> 0, m |-> d]
DHas(d, mk) == \E p \in 1..Len(d) : d[p][1] = mk
DGet(d, mk) == d[CHOOSE p \in 1..Len(d) : d[p][1] = mk][2]
DPut(d, mk, x) == IF DHas(d, mk)
                  THEN [p \in 1..Len(d) |-> IF d[p][1] = mk THEN <<mk, x>> ELSE d[p]]
                  ELSE Append(d, <<mk, x>>)

(* get(): value = self.values[key[0]]; if data_type is bool: value = bool(value) *)
Load(c) == IF dt = "bool" THEN V("bool", IF c.v = 0 THEN 0 ELSE 1) ELSE c

Arr == [vals |-> values, sts |-> state, kys |-> keys]

(* set(key, value) on the three arrays *)
SetOp(S, i, ky, c) == [vals |-> [S.vals EXCEPT ![i + 1] = c],
                       sts  |-> [S.sts EXCEPT ![i + 1] = SET],
                       kys  |-> [S.kys EXCEPT ![i + 1] = ky]]

(* for _ in range(append_count): values.append(0); state.append(2); keys.append(2) *)
RECURSIVE GrowLoop(_, _)
GrowLoop(S, count) ==
    IF count <= 0 THEN S
    ELSE GrowLoop([vals |-> Append(S.vals, FillCell),
                   sts  |-> Append(S.sts, CLEARED),
                   kys  |-> Append(S.kys, NoKey)], count - 1)

(* the same in closed form; TLC copies a tuple on every Append, so the loop is quadratic
   on the sparse indices of recorded traces.  GrowLoopIsExtend is model-checked. *)
GrowClosed(S, count) ==
    [vals |-> S.vals \o [x \in 1..count |-> FillCell],
     sts  |-> S.sts \o [x \in 1..count |-> CLEARED],
     kys  |-> S.kys \o [x \in 1..count |-> NoKey]]

Grow(S, count) == IF count <= 8 THEN GrowLoop(S, count) ELSE GrowClosed(S, count)

Put(S) == values' = S.vals /\ state' = S.sts /\ keys' = S.kys

C_AddKey(i, tl) ==
    LET ky == K(i, tl)
        append_count == (i + 1) - Len(state)
        S1 == Grow(Arr, append_count)
        S2 == [S1 EXCEPT !.sts[i + 1] = NOTSET, !.kys[i + 1] = ky]
        S3 == IF IsMapper THEN SetOp(S2, i, ky, DictCell(<<>>))
              ELSE IF dflt # None THEN SetOp(S2, i, ky, Cell(dflt))
              ELSE S2
    IN /\ Put(S3)
       /\ ret' = R(None)
       /\ UNCHANGED <<next_index, free_slots>>

C_DelKey(i) ==
    /\ state' = [state EXCEPT ![i + 1] = CLEARED]
    /\ keys' = [keys EXCEPT ![i + 1] = NoKey]
    /\ values' = [values EXCEPT ![i + 1] = FillCell]
    /\ ret' = R(None)
    /\ UNCHANGED <<next_index, free_slots>>

C_Clear ==
    /\ values' = <<>> /\ state' = <<>> /\ keys' = <<>>
    /\ ret' = R(None)
    /\ UNCHANGED <<next_index, free_slots>>

CR_IsCleared(i) == BoolV(state[i + 1] = CLEARED)
C_IsCleared(i) == ret' = R(CR_IsCleared(i)) /\ UNCHANGED conc

CR_IsSet(i) == BoolV(state[i + 1] = SET)
C_IsSet(i) == ret' = R(CR_IsSet(i)) /\ UNCHANGED conc

CR_Get(i) == IF state[i + 1] = NOTSET THEN NotSet ELSE Load(values[i + 1])
C_Get(i) == ret' = R(CR_Get(i)) /\ UNCHANGED conc

C_Set(i, tl, x) ==
    /\ Put(SetOp(Arr, i, K(i, tl), Cell(x)))
    /\ ret' = R(None)
    /\ UNCHANGED <<next_index, free_slots>>

(* for index in range(len(keys)): if state[index] is not 2: yield (key, value, state == 1) *)
IterEntry(ky, c, s) == [i |-> ky.i, k |-> ky.k, val |-> V(c.t, c.v), s |-> s,
                        m |-> IF IsMapper THEN c.m ELSE <<>>]
CR_Iterate ==
    LET live == SelectSeq([p \in 1..Len(keys) |-> p], LAMBDA p : state[p] # CLEARED)
    IN RL("#list", [q \in 1..Len(live) |->
                     IterEntry(keys[live[q]], values[live[q]], state[live[q]] = SET)])
C_Iterate == ret' = CR_Iterate /\ UNCHANGED conc

(* new_index(next_index, free_slots) *)
NewIndex == IF Len(free_slots) > 0
            THEN [index |-> free_slots[Len(free_slots)], next |-> next_index,
                  free |-> SubSeq(free_slots, 1, Len(free_slots) - 1)]
            ELSE [index |-> next_index, next |-> next_index + 1, free |-> free_slots]

C_AddMap(i, mk) ==
    LET a == NewIndex IN
    /\ next_index' = a.next /\ free_slots' = a.free
    /\ values' = [values EXCEPT ![i + 1] = DictCell(DPut(@.m, mk, a.index))]
    /\ ret' = R(V("int", a.index))
    /\ UNCHANGED <<state, keys>>

CR_GetMap(i, mk) == IF ~DHas(values[i + 1].m, mk) THEN NotSet
                    ELSE V("int", DGet(values[i + 1].m, mk))
C_GetMap(i, mk) == ret' = R(CR_GetMap(i, mk)) /\ UNCHANGED conc

(* del_map() is a second get_map(): it returns the mapping and keeps it *)
C_DelMap(i, mk) == ret' = R(CR_GetMap(i, mk)) /\ UNCHANGED conc

CR_IterateMap(i) == LET d == values[i + 1].m IN RL("#list", [p \in 1..Len(d) |-> d[p][1]])
C_IterateMap(i) == ret' = CR_IterateMap(i) /\ UNCHANGED conc

-----------------------------------------------------------------------------
(* -------------------- the specification: a dictionary ------------------- *)

Live(i) == i \in DOMAIN aslot

(* the declared type of the state *)
Typed(x) == CASE dt \in {"int", "uint"} -> V("int", x.v)
              [] dt = "float"          -> V("float", x.v)
              [] dt = "bool"           -> V("bool", x.v)
              [] OTHER                 -> x

Without(f, i) == [j \in (DOMAIN f) \ {i} |-> f[j]]

InUse == UNION {Range(aslot[j].map) : j \in DOMAIN aslot}

FreshSlot(ky) ==
    [key |-> ky, map |-> <<>>,
     st  |-> IF IsMapper THEN "map" ELSE IF dflt = None THEN "fresh" ELSE "value",
     val |-> IF IsMapper \/ dflt = None THEN None ELSE Typed(dflt)]

A_AddKey(i, tl) ==
    /\ aslot' = (i :> FreshSlot(K(i, tl))) @@ aslot
    /\ ahi' = IF i + 1 > ahi THEN i + 1 ELSE ahi
    /\ aret' = R(None)

A_DelKey(i) == aslot' = Without(aslot, i) /\ aret' = R(None) /\ UNCHANGED ahi

A_Clear == aslot' = <<>> /\ ahi' = 0 /\ aret' = R(None)

AR_IsCleared(i) == BoolV(~Live(i))
A_IsCleared(i) == aret' = R(AR_IsCleared(i)) /\ UNCHANGED abst

AR_IsSet(i) == BoolV(Live(i) /\ aslot[i].st # "fresh")
A_IsSet(i) == aret' = R(AR_IsSet(i)) /\ UNCHANGED abst

AR_Get(i) == IF aslot[i].st = "fresh" THEN NotSet ELSE aslot[i].val
A_Get(i) == aret' = R(AR_Get(i)) /\ UNCHANGED abst

A_Set(i, tl, x) ==
    /\ aslot' = [aslot EXCEPT ![i] = [@ EXCEPT !.key = K(i, tl), !.st = "value",
                                               !.val = Typed(x)]]
    /\ aret' = R(None)
    /\ UNCHANGED ahi

MapPairs(f) == LET ks == SortedSeq(DOMAIN f) IN [p \in 1..Len(ks) |-> <<ks[p], f[ks[p]]>>]

AR_Iterate ==
    LET idx == SortedSeq(DOMAIN aslot)
    IN RL("#list", [q \in 1..Len(idx) |->
            LET a == aslot[idx[q]] IN
            [i |-> a.key.i, k |-> a.key.k,
             val |-> IF IsMapper THEN V("dict", 0) ELSE a.val,
             s |-> a.st # "fresh", m |-> MapPairs(a.map)]])
A_Iterate == aret' = AR_Iterate /\ UNCHANGED abst

(* any index that is not in use may be handed out; `idx` is the one that was *)
AR_AddMap == RL("newindex", SortedSeq(InUse))
A_AddMap(i, mk, idx) ==
    /\ aret' = AR_AddMap
    /\ aslot' = [aslot EXCEPT ![i].map = (mk :> idx) @@ @]
    /\ UNCHANGED ahi

AR_GetMap(i, mk) == IF mk \in DOMAIN aslot[i].map THEN V("int", aslot[i].map[mk]) ELSE NotSet
A_GetMap(i, mk) == aret' = R(AR_GetMap(i, mk)) /\ UNCHANGED abst
A_DelMap(i, mk) == aret' = R(AR_GetMap(i, mk)) /\ UNCHANGED abst

AR_IterateMap(i) == RL("#list", SortedSeq(DOMAIN aslot[i].map))
A_IterateMap(i) == aret' = AR_IterateMap(i) /\ UNCHANGED abst

-----------------------------------------------------------------------------
(* does the returned value `r` agree with the dictionary's answer `a` ?
   - enumerations are compared as sets (no order is promised)
   - the value of a slot enumerated as "not set" is not looked at
   - enumerated values are compared by == only (iterate() yields the raw cell)
   - of an enumerated key only key[0] is looked at (which of the keys passed to
     add_key/set with that key[0] is kept is a representation detail)
   - a new group index must be an int that is not in use                      *)
EntryEq(x, e) == /\ x.i = e.i /\ x.s = e.s
                 /\ e.s => (x.val.v = e.val.v /\ Range(x.m) = Range(e.m))

Match(op, r, a) ==
    CASE op = "add_map"     -> r.t = "int" /\ \A p \in 1..Len(a.l) : a.l[p] # r.v
      [] op = "iterate"     -> /\ r.t = "#list" /\ Len(r.l) = Len(a.l)
                               /\ \A q \in 1..Len(a.l) : \E p \in 1..Len(r.l) : EntryEq(r.l[p], a.l[q])
      [] op = "iterate_map" -> r.t = "#list" /\ Len(r.l) = Len(a.l) /\ Range(r.l) = Range(a.l)
      [] OTHER              -> r = a

-----------------------------------------------------------------------------
(* ------------------------------ the actions ----------------------------- *)

Book(op, i, tl, x, mk) ==
    /\ call' = [op |-> op, i |-> i]
    /\ n' = IF CountSteps THEN n + 1 ELSE n
    /\ hist' = IF KeepHist THEN Append(hist, [op |-> op, i |-> i, k |-> tl, a |-> x, mk |-> mk])
               ELSE hist
    /\ UNCHANGED <<dt, dflt>>

AddKey(i, tl) == C_AddKey(i, tl) /\ A_AddKey(i, tl) /\ Book("add_key", i, tl, None, -1)

DelKey(i) == Live(i) /\ C_DelKey(i) /\ A_DelKey(i) /\ Book("del_key", i, 0, None, -1)

Clear == C_Clear /\ A_Clear /\ Book("clear", -1, 0, None, -1)

IsCleared(i) == i < ahi /\ C_IsCleared(i) /\ A_IsCleared(i) /\ Book("is_cleared", i, 0, None, -1)

IsSet(i) == i < ahi /\ C_IsSet(i) /\ A_IsSet(i) /\ Book("is_set", i, 0, None, -1)

Get(i) == ~IsMapper /\ Live(i) /\ C_Get(i) /\ A_Get(i) /\ Book("get", i, 0, None, -1)

Set(i, tl, x) == ~IsMapper /\ Live(i) /\ x \in ValuesOf(dt)
                 /\ C_Set(i, tl, x) /\ A_Set(i, tl, x) /\ Book("set", i, tl, x, -1)

Iterate == C_Iterate /\ A_Iterate /\ Book("iterate", -1, 0, None, -1)

AddMap(i, mk) == IsMapper /\ Live(i) /\ C_AddMap(i, mk) /\ A_AddMap(i, mk, ret'.v)
                 /\ Book("add_map", i, 0, None, mk)

GetMap(i, mk) == IsMapper /\ Live(i) /\ C_GetMap(i, mk) /\ A_GetMap(i, mk)
                 /\ Book("get_map", i, 0, None, mk)

DelMap(i, mk) == IsMapper /\ Live(i) /\ C_DelMap(i, mk) /\ A_DelMap(i, mk)
                 /\ Book("del_map", i, 0, None, mk)

IterateMap(i) == IsMapper /\ Live(i) /\ C_IterateMap(i) /\ A_IterateMap(i)
                 /\ Book("iterate_map", i, 0, None, -1)

InitStore ==
    /\ values = <<>> /\ state = <<>> /\ keys = <<>> /\ next_index = 0 /\ free_slots = <<>>
    /\ aslot = <<>> /\ ahi = 0
    /\ call = [op |-> "init", i |-> -1] /\ ret = R(None) /\ aret = R(None)
    /\ n = 0 /\ hist = <<>>

Init == /\ dt \in DataTypes
        /\ dflt \in {DefaultOf(dt, c) : c \in {x \in Defaults : DefaultFits(dt, x)}}
        /\ InitStore

Next ==
    \/ \E i \in Indices, tl \in Tails : AddKey(i, tl)
    \/ \E i \in Indices : DelKey(i)
    \/ \E i \in Indices : IsCleared(i)
    \/ \E i \in Indices : IsSet(i)
    \/ \E i \in Indices : Get(i)
    \/ \E i \in Indices, tl \in Tails, x \in AllValues : Set(i, tl, x)
    \/ Iterate
    \/ Clear
    \/ \E i \in Indices, mk \in MapKeys : AddMap(i, mk)
    \/ \E i \in Indices, mk \in MapKeys : GetMap(i, mk)
    \/ \E i \in Indices, mk \in MapKeys : DelMap(i, mk)
    \/ \E i \in Indices : IterateMap(i)

Spec == Init /\ [][Next]_vars

-----------------------------------------------------------------------------
(* ------------------------------ properties ------------------------------ *)

StepBound == n < MaxSteps

(* C14: whatever is returned is what the dictionary returns *)
RetEqualsModel == Match(call.op, ret, aret)

(* what the code would answer for slot j, computed from the code variables only *)
CRead(j) == [cleared |-> state[j + 1] = CLEARED,
             isset   |-> state[j + 1] = SET,
             key     |-> keys[j + 1],
             value   |-> IF state[j + 1] = SET THEN Load(values[j + 1]) ELSE NotSet,
             map     |-> IF IsMapper THEN values[j + 1].m ELSE <<>>]

(* a call on index i never changes what any other index reads.  (Stated on the cells
   CRead is computed from - cheaper for TLC than comparing the CRead records; calls that
   leave the arrays alone are settled by the first disjunct.) *)
SameSlot(j) == /\ state'[j + 1] = state[j + 1]
               /\ values'[j + 1] = values[j + 1]
               /\ keys'[j + 1] = keys[j + 1]
Isolation ==
    [][\/ UNCHANGED <<values, state, keys>>
       \/ call'.op = "clear"
       \/ \A j \in 0..(Len(state) - 1) : j # call'.i => SameSlot(j)]_vars

(* slots created by the growth loop read as "not there" *)
GrowthCleared ==
    [][Len(state') > Len(state) =>
         \A j \in Len(state)..(Len(state') - 1) : j # call'.i => CRead(j)'.cleared]_vars

(* after add_key the slot reads fresh (or the declared default), also when re-added *)
FreshRead(j) ==
    IF IsMapper THEN CRead(j).isset /\ CRead(j).map = <<>>
    ELSE IF dflt = None THEN ~CRead(j).isset /\ ~CRead(j).cleared /\ CR_Get(j) = NotSet
    ELSE CRead(j).isset /\ CR_Get(j) = Typed(dflt)
ReAddFresh == call.op = "add_key" => FreshRead(call.i)

(* the dictionary is an abstraction of the arrays *)
AsFunction(d) == [mk \in {d[p][1] : p \in 1..Len(d)} |-> DGet(d, mk)]
Refines ==
    /\ Len(values) = Len(state) /\ Len(keys) = Len(state)
    /\ ahi >= Len(state)
    /\ \A j \in DOMAIN aslot : j < Len(state)
    /\ \A j \in 0..(Len(state) - 1) :
         IF Live(j)
         THEN /\ ~CRead(j).cleared
              /\ CRead(j).key = aslot[j].key
              /\ CRead(j).isset = (aslot[j].st # "fresh")
              /\ IF IsMapper THEN AsFunction(CRead(j).map) = aslot[j].map
                 ELSE aslot[j].st = "value" => CRead(j).value = aslot[j].val
         ELSE CRead(j).cleared

(* the allocator never hands out an index that is in use (store-wide) *)
AllocatorFresh ==
    IsMapper => /\ \A x \in InUse : x < next_index
                /\ \A p \in 1..Len(free_slots) : free_slots[p] \notin InUse
                /\ \A j \in DOMAIN aslot : \* a map is injective: two keys never share a group
                     \A a, b \in DOMAIN aslot[j].map :
                        aslot[j].map[a] = aslot[j].map[b] => a = b

(* a value that is read has the declared type *)
DeclaredType ==
    call.op = "get" /\ ret.t # "NOTSET" =>
        ret.t = CASE dt \in {"int", "uint"} -> "int" [] dt = "float" -> "float"
                  [] dt = "bool" -> "bool" [] OTHER -> ret.t

TypeOK ==
    /\ dt \in DataTypes /\ n \in 0..MaxSteps
    /\ \A p \in 1..Len(state) : state[p] \in {NOTSET, SET, CLEARED}

(* the closed form of the growth loop used for long arrays is the loop *)
GrowLoopIsExtend == call.op \in {"init", "add_key", "del_key"} =>
                        \A c \in {0, 1, 4} : GrowLoop(Arr, c) = GrowClosed(Arr, c)

(* behaviour generation *)
EmitBehaviour == n = MaxSteps => PrintT(<<"BEH", dt, dflt, hist>>)
=============================================================================
