-------------------------------- MODULE Csv --------------------------------
(***************************************************************************)
(* rxsci.container.csv: dump() escapes and quotes string fields and joins  *)
(* the fields of a row with the separator; create_line_parser.parse_line   *)
(* splits the line on the separator, re-assembles quoted fields that       *)
(* contained the separator (merge_escape_parts), strips the quotes and     *)
(* undoes the escaping.  Both are pure functions with a rich case          *)
(* analysis; they are transcribed here branch by branch, in the order of   *)
(* the code, as operators over text = sequence of symbols (any values of   *)
(* one kind, here integers / code points).  The separator (a sequence),    *)
(* the quote and the escape symbol are parameters of every operator so     *)
(* that the trace specification can re-evaluate them on real data.         *)
(*                                                                         *)
(* The "system" is the function itself: a behaviour chooses a              *)
(* configuration and a row (grown field by field, symbol by symbol, so     *)
(* that the set of initial states stays small), dumps it, parses it.       *)
(* Property C18 on the model: ParseLine(DumpRow(row)) = row.               *)
(*                                                                         *)
(* The transcription of the repository ("repo") does not satisfy it: its   *)
(* closing-quote test t[-2] != escapechar takes the closing quote of a     *)
(* string ending with the escape symbol for an escaped quote.  TLC does    *)
(* not stop there: Collect prints every failing row, Characterization      *)
(* states exactly which rows fail, and the variant with the proposed fix   *)
(* ("parity") is checked against the plain RoundTrip.                      *)
(*                                                                         *)
(* A field is [k |-> "s", v |-> text]  a str value, or                     *)
(*            [k |-> "t", v |-> text]  a value written with str() and not  *)
(*                                     quoted (int, float, bool; None is   *)
(*                                     the empty text).                    *)
(***************************************************************************)
EXTENDS Integers, Sequences, TLC

CONSTANTS Symbols,     \* symbols a string field is made of
          RawCodes,    \* texts of the unquoted fields that are enumerated   } a TLC cfg file
          SepCodes,    \* set of separators (non-empty sequences of symbols) } cannot contain
                       \* tuples: a text of symbols < 256 is given as the number it is
                       \* in base 256 (0 = the empty text), see TextOfCode
          Escs,        \* set of escape symbols
          Quote,       \* the double quote
          MaxFields, MaxLen,
          Variants,    \* subset of {"repo", "parity"}: which transcriptions are explored
                       \* "repo": merge_escape_parts as it is in the repository
                       \* "parity": with the closing-quote test of the proposed fix
          Emit         \* TRUE: print every row with the model's results

VARIABLES sep, esc,    \* configuration
          variant,     \* which transcription of merge_escape_parts (see Variants)
          row,         \* the row (sequence of fields)
          stage,       \* "build" -> "dumped" -> "parsed"
          line,        \* dump output (without the newline)
          result       \* parse_line outcome

conf == <<sep, esc, variant>>
vars == <<conf, row, stage, line, result>>

RECURSIVE TextOfCode(_)
TextOfCode(n) == IF n = 0 THEN <<>> ELSE Append(TextOfCode(n \div 256), n % 256)

Seps == {TextOfCode(n) : n \in SepCodes}
RawTexts == {TextOfCode(n) : n \in RawCodes}

Ok(v)  == [k |-> "ok", v |-> v]
Err(e) == [k |-> "err", v |-> e]
(* TLC cannot compare a text with an error name: look at the tag first *)
IsOk(r, x) == r.k = "ok" /\ r.v = x

-----------------------------------------------------------------------------
(* python string primitives *)

StartsWith(s, p) == Len(s) >= Len(p) /\ SubSeq(s, 1, Len(p)) = p

(* s.replace(a, b), a non-empty: left to right, non-overlapping *)
RECURSIVE Replace(_, _, _)
Replace(s, a, b) ==
    IF Len(s) < Len(a) THEN s
    ELSE IF StartsWith(s, a) THEN b \o Replace(SubSeq(s, Len(a) + 1, Len(s)), a, b)
    ELSE <<s[1]>> \o Replace(Tail(s), a, b)

(* s.split(p), p non-empty: always at least one piece *)
RECURSIVE SplitAcc(_, _, _)
SplitAcc(s, p, cur) ==
    IF s = <<>> THEN <<cur>>
    ELSE IF StartsWith(s, p) THEN <<cur>> \o SplitAcc(SubSeq(s, Len(p) + 1, Len(s)), p, <<>>)
    ELSE SplitAcc(Tail(s), p, Append(cur, s[1]))

SplitSep(s, p) == SplitAcc(s, p, <<>>)

(* p.join(parts) *)
RECURSIVE Join(_, _)
Join(parts, p) ==
    IF parts = <<>> THEN <<>>
    ELSE IF Len(parts) = 1 THEN parts[1]
    ELSE parts[1] \o p \o Join(Tail(parts), p)

Last(t) == t[Len(t)]

-----------------------------------------------------------------------------
(* dump().on_next, per field:
       if type(f) is str:
           f = f.replace(escapechar, escapechar*2)
           f = f.replace('"', escapechar + '"')
           f = '"{}"'.format(f)
       elif f is None: f = ''
       else: f = str(f)                                                    *)
DumpField(f, q, e) ==
    IF f.k = "s"
    THEN <<q>> \o Replace(Replace(f.v, <<e>>, <<e, e>>), <<q>>, <<e, q>>) \o <<q>>
    ELSE f.v

(* line = separator.join(ii) *)
DumpRow(r, p, q, e) == Join([j \in 1..Len(r) |-> DumpField(r[j], q, e)], p)

-----------------------------------------------------------------------------
(* merge_escape_parts(parts, separator, escapechar): the token automaton.
   agg = <<>> stands for None (an open aggregate is never empty).

   The closing test of the repository is `t[-2] != escapechar`; python
   evaluates it only when the conjuncts before it hold, and t[-2] raises
   IndexError on a one-character token (the whole function then re-raises). *)

TrailingEscs(t, e) ==   \* number of e at the end of t
    LET S == {n \in 0..Len(t) : \A j \in (Len(t) - n + 1)..Len(t) : t[j] = e}
    IN CHOOSE n \in S : \A m \in S : m <= n

NotEscapedRaises(t) == variant = "repo" /\ Len(t) < 2

(* "the final quote of t is not escaped" *)
NotEscaped(t, e) ==
    IF variant = "repo" THEN t[Len(t) - 1] # e                     \* t[-2] != escapechar
    ELSE TrailingEscs(SubSeq(t, 1, Len(t) - 1), e) % 2 = 0         \* proposed fix

RECURSIVE MergeLoop(_, _, _, _, _, _)
MergeLoop(parts, merged, agg, p, q, e) ==
    IF parts = <<>> THEN Ok(merged)
    ELSE
    LET t == Head(parts)
        rest == Tail(parts)
        open == agg # <<>>
    IN
    \* if t == '"':
    IF t = <<q>> THEN
        IF ~open THEN MergeLoop(rest, merged, <<<<q>>>>, p, q, e)
        ELSE MergeLoop(rest, Append(merged, Join(Append(agg, <<q>>), p)), <<>>, p, q, e)
    \* elif len(t) > 0 and t[0] == '"' and t[-1] == '"' and t[-2] != escapechar and agg is None:
    ELSE IF Len(t) > 0 /\ t[1] = q /\ Last(t) = q /\ NotEscapedRaises(t) THEN Err("IndexError")
    ELSE IF Len(t) > 0 /\ t[1] = q /\ Last(t) = q /\ NotEscaped(t, e) /\ ~open THEN
        MergeLoop(rest, Append(merged, t), agg, p, q, e)
    \* elif len(t) > 0 and t[-1] == '"' and t[-2] != escapechar and agg is not None:
    ELSE IF Len(t) > 0 /\ Last(t) = q /\ NotEscapedRaises(t) THEN Err("IndexError")
    ELSE IF Len(t) > 0 /\ Last(t) = q /\ NotEscaped(t, e) /\ open THEN
        MergeLoop(rest, Append(merged, Join(Append(agg, t), p)), <<>>, p, q, e)
    \* elif len(t) > 0 and t[0] == '"' and agg is None:
    ELSE IF Len(t) > 0 /\ t[1] = q /\ ~open THEN
        MergeLoop(rest, merged, <<t>>, p, q, e)
    \* elif agg is not None:
    ELSE IF open THEN
        MergeLoop(rest, merged, Append(agg, t), p, q, e)
    \* else:
    ELSE MergeLoop(rest, Append(merged, t), agg, p, q, e)

MergeParts(parts, p, q, e) == MergeLoop(parts, <<>>, <<>>, p, q, e)

-----------------------------------------------------------------------------
(* parse_line, per part:
       if len(i) > 0 and i[0] == '"' and i[-1] == '"':
           i = i[1:-1]
           i = i.replace(escapechar*2, escapechar)
           i = i.replace(escapechar + '"', '"')                            *)
Unescape(i, q, e) ==
    IF Len(i) > 0 /\ i[1] = q /\ Last(i) = q
    THEN Replace(Replace(SubSeq(i, 2, Len(i) - 1), <<e, e>>, <<e>>), <<e, q>>, <<q>>)
    ELSE i

(* the two replacements in the other order (a selftest mutant): proved below to
   be equivalent on everything dump() writes *)
UnescapeSwapped(i, q, e) ==
    IF Len(i) > 0 /\ i[1] = q /\ Last(i) = q
    THEN Replace(Replace(SubSeq(i, 2, Len(i) - 1), <<e, q>>, <<q>>), <<e, e>>, <<e>>)
    ELSE i

(* parse_line:
       parts = line.split(separator)
       if len(parts) != columns_len:
           parts = merge_escape_parts(parts, separator, escapechar)
           if len(parts) != columns_len: raise ValueError("invalid number of columns ...")
   The result is the text handed to the column parser, per column.       *)
PartsOf(ln, ncols, p, q, e) ==
    LET parts == SplitSep(ln, p) IN
    IF Len(parts) = ncols THEN Ok(parts)
    ELSE LET m == MergeParts(parts, p, q, e) IN
         IF m.k = "err" THEN m
         ELSE IF Len(m.v) # ncols THEN Err("columns")
         ELSE m

ParseLine(ln, ncols, p, q, e) ==
    LET ps == PartsOf(ln, ncols, p, q, e) IN
    IF ps.k = "err" THEN ps
    ELSE Ok([j \in 1..ncols |-> Unescape(ps.v[j], q, e)])

-----------------------------------------------------------------------------
(* Specification-level definitions (they do not look like the code) *)

(* what the parser must hand to the column parsers *)
Texts(r) == [j \in 1..Len(r) |-> r[j].v]

Contains(s, p) == \E j \in 1..(Len(s) - Len(p) + 1) : SubSeq(s, j, j + Len(p) - 1) = p

(* the rows on which the repository's merge_escape_parts is known to fail:
   the merge is needed (a string field contains the separator) and a string
   field ends with the escape symbol *)
TrailingEscClass(r, p, e) ==
    /\ \E j \in 1..Len(r) : r[j].k = "s" /\ Contains(r[j].v, p)
    /\ \E j \in 1..Len(r) : r[j].k = "s" /\ Len(r[j].v) > 0 /\ Last(r[j].v) = e

-----------------------------------------------------------------------------
FieldStart == {[k |-> "s", v |-> <<>>]} \cup {[k |-> "t", v |-> x] : x \in RawTexts}

Init ==
    /\ sep \in Seps /\ esc \in Escs /\ variant \in Variants
    /\ row \in {<<f>> : f \in FieldStart}
    /\ stage = "build" /\ line = <<>> /\ result = Ok(<<>>)

(* environment: the row is grown *)
AddSymbol(c) ==
    /\ stage = "build"
    /\ Last(row).k = "s" /\ Len(Last(row).v) < MaxLen
    /\ row' = [row EXCEPT ![Len(row)].v = Append(@, c)]
    /\ UNCHANGED <<conf, stage, line, result>>

AddField(f) ==
    /\ stage = "build"
    /\ Len(row) < MaxFields
    /\ row' = Append(row, f)
    /\ UNCHANGED <<conf, stage, line, result>>

Dump ==
    /\ stage = "build"
    /\ line' = DumpRow(row, sep, Quote, esc)
    /\ stage' = "dumped"
    /\ UNCHANGED <<conf, row, result>>

Parse ==
    /\ stage = "dumped"
    /\ result' = ParseLine(line, Len(row), sep, Quote, esc)
    /\ stage' = "parsed"
    /\ UNCHANGED <<conf, row, line>>

Next == (\E c \in Symbols : AddSymbol(c)) \/ (\E f \in FieldStart : AddField(f)) \/ Dump \/ Parse

Spec == Init /\ [][Next]_vars

-----------------------------------------------------------------------------
TypeOK == stage \in {"build", "dumped", "parsed"} /\ Len(row) \in 1..MaxFields

(* C18 on the model; it holds with the proposed fix ... *)
RoundTrip == (stage = "parsed" /\ variant = "parity") => IsOk(result, Texts(row))

(* ... and the transcription of the repository fails it exactly on this class *)
Characterization ==
    (stage = "parsed" /\ variant = "repo") =>
        ((~IsOk(result, Texts(row))) <=> TrailingEscClass(row, sep, esc))

(* the separator splitting alone is inverted by the join (no field lost) *)
SplitJoin == stage = "dumped" => Join(SplitSep(line, sep), sep) = line

(* escaping alone is inverted by unescaping, field by field, in either order of
   the two replacements *)
EscapeInverse ==
    stage = "dumped" =>
        \A j \in 1..Len(row) :
            LET d == DumpField(row[j], Quote, esc) IN
            /\ Unescape(d, Quote, esc) = row[j].v
            /\ UnescapeSwapped(d, Quote, esc) = row[j].v

(* collect instead of stop: always TRUE *)
Collect ==
    (stage = "parsed" /\ ~IsOk(result, Texts(row))) =>
        PrintT(<<"FAIL", variant, sep, esc, row, line, result,
                 IF TrailingEscClass(row, sep, esc) THEN "trailing-esc" ELSE "other">>)

(* behaviour generation: every row (kept short: one line per row).  The line,
   the merged parts and the result of the model are recomputed by the trace
   specification when the recorded execution of the real code is validated *)
EmitRow ==
    (Emit /\ stage = "parsed" /\ variant = "repo") =>
        PrintT(<<"ROW", sep, esc, [j \in 1..Len(row) |-> IF row[j].k = "s" THEN 1 ELSE 0], Texts(row)>>)
=============================================================================
