------------------------- MODULE LineFramingTrace -------------------------
(***************************************************************************)
(* Trace validation for rxsci.framing.line.  A batch of recorded           *)
(* executions of the real frame()/unframe() is read from IOEnv.TRACE_FILE: *)
(*   [{items, tail, wire, chunks, outs, final, ended}, ...]                *)
(* (text = sequence of code points).  Every trace is replayed through the  *)
(* actions of LineFraming; exactly one verdict is printed per trace.       *)
(*                                                                         *)
(* Verdict (C15): the items emitted by the real unframe(), concatenated    *)
(* over all chunks and the completion, equal Expected(items, tail), the    *)
(* real frame() output equals FrameAll(items), and the stream completed.   *)
(* Emission *time* (which chunk) is compared with the model too, but only  *)
(* reported (insync), as the property does not speak about it.             *)
(***************************************************************************)
EXTENDS LineFraming, Json, IOUtils

Traces == JsonDeserialize(IOEnv.TRACE_FILE)

VARIABLES tid, l, st, real, insync

tvars == <<vars, tid, l, st, real, insync>>

T == Traces[tid]

TraceInit ==
    /\ tid \in 1..Len(Traces)
    /\ l = 0 /\ st = "run" /\ real = <<>> /\ insync = TRUE
    /\ items = Traces[tid].items /\ tail = Traces[tid].tail
    /\ pos = 0 /\ acc = <<>> /\ out = <<>> /\ done = FALSE /\ hist = <<>>

Reject(step, clause) ==
    /\ PrintT(<<"VERDICT", tid, "REJECT", step, clause>>)
    /\ st' = "end"
    /\ UNCHANGED <<vars, tid, l, real, insync>>

TraceFeed ==
    /\ st = "run" /\ l < Len(T.chunks)
    /\ LET c == T.chunks[l + 1] IN
        IF l = 0 /\ T.wire # WireOf(items, tail) THEN Reject(0, "frame")
        ELSE IF SubSeq(WireOf(items, tail), pos + 1, pos + Len(c)) # c
             THEN Reject(l + 1, "model-harness-chunk")
        ELSE /\ Feed(Len(c))
             /\ real' = real \o T.outs[l + 1]
             /\ insync' = (insync /\ T.outs[l + 1] = OnNextOut(acc, c))
             /\ l' = l + 1
             /\ UNCHANGED <<tid, st>>

TraceComplete ==
    /\ st = "run" /\ l = Len(T.chunks)
    /\ IF T.wire # WireOf(items, tail) THEN Reject(0, "frame")
       ELSE IF pos # Len(WireOf(items, tail)) THEN Reject(l, "model-harness-short")
       ELSE IF out \o OnCompletedOut(acc) # Expected(items, tail) THEN Reject(l, "model-roundtrip")
       ELSE IF T.ended # "completed" THEN Reject(l + 1, "completion")
       ELSE IF real \o T.final # Expected(items, tail) THEN Reject(l + 1, "roundtrip")
       ELSE /\ Complete
            /\ PrintT(<<"VERDICT", tid, "ACCEPT", l + 1,
                        insync /\ T.final = OnCompletedOut(acc)>>)
            /\ st' = "end"
            /\ UNCHANGED <<tid, l, real, insync>>

TraceNext == TraceFeed \/ TraceComplete

TraceSpec == TraceInit /\ [][TraceNext]_tvars

(* the design-level invariants must also hold along every real trace *)
TraceConfluence == st = "run" => Confluence
=============================================================================
