----------------------------- MODULE FnLibCheck -----------------------------
(***************************************************************************)
(* Prints the value of every function of the library on its whole finite   *)
(* test domain; bin/setup compares the lines with the python               *)
(* implementation (harness/mux.py), so that the model and the real         *)
(* pipelines are built from the same user functions.                       *)
(***************************************************************************)
EXTENDS FnLib

VARIABLE x
Ints == -3..6
IVals == {IntV(i) : i \in Ints}
Pairs == {TupV(<<IntV(a), IntV(b)>>) : a \in -1..2, b \in -1..2}
Flags == {TupV(<<IntV(a), BoolV(b)>>) : a \in 0..2, b \in BOOLEAN}

U == {Fn("id", 0), Fn("addc", 1), Fn("addc", 2), Fn("addc", 100), Fn("mulc", 2), Fn("mulc", -1),
      Fn("modc", 2), Fn("modc", 3), Fn("divc", 2), Fn("divc", 3), Fn("constc", 0), Fn("dup", 0),
      Fn("noneIf", 2), Fn("nanIf", 1), Fn("failIf", 1), Fn("failIf", 2), Fn("failIf", 4), Fn("failMod", 1),
      Fn("list3", 0), Fn("listn", 0)}
UP == {Fn("fst", 0), Fn("snd", 0), Fn("fstmodc", 2)}
P == {Fn("true", 0), Fn("false", 0), Fn("even", 0), Fn("ltc", 1), Fn("ltc", 2), Fn("ltc", 3), Fn("ltc", 4),
      Fn("gec", 1), Fn("gec", 2), Fn("gec", 3), Fn("nec", 2), Fn("notNone", 0), Fn("failIfP", 1),
      Fn("failIfP", 2)}
A == {Fn("add", 0), Fn("cnt", 0), Fn("max", 0), Fn("min", 0), Fn("last", 0), Fn("failAdd", 1),
      Fn("failAdd", 2), Fn("failAdd", 3)}
P2 == {Fn("le", 0), Fn("lt", 0), Fn("true", 0)}
ST == {Fn("add2", 0), Fn("swap", 0), Fn("fst2", 0), Fn("failAdd2", 2), Fn("failAdd2", 0)}

ASSUME \A f \in U, v \in IVals : PrintT(<<"FN", "u", f.n, f.c, v, Apply(f, v)>>)
ASSUME \A f \in UP, v \in Pairs : PrintT(<<"FN", "u", f.n, f.c, v, Apply(f, v)>>)
ASSUME \A f \in {Fn("noneIf", 2), Fn("id", 0)} : PrintT(<<"FN", "u", f.n, f.c, None, Apply(f, None)>>)
ASSUME \A p \in P, v \in IVals : PrintT(<<"FN", "p", p.n, p.c, v, Test(p, v)>>)
ASSUME PrintT(<<"FN", "p", "notNone", 0, None, Test(Fn("notNone", 0), None)>>)
ASSUME \A v \in Flags : PrintT(<<"FN", "p", "sndTrue", 0, v, Test(Fn("sndTrue", 0), v)>>)
ASSUME \A f \in A, a \in IVals, v \in IVals : PrintT(<<"FN", "a", f.n, f.c, <<a, v>>, Apply2(f, a, v)>>)
ASSUME \A f \in {Fn("max", 0), Fn("min", 0)}, v \in IVals :
          PrintT(<<"FN", "a", f.n, f.c, <<None, v>>, Apply2(f, None, v)>>)
ASSUME \A f \in {Fn("appendMut", 0), Fn("appendNew", 0)}, v \in IVals :
          PrintT(<<"FN", "a", f.n, f.c, <<LstV(<<IntV(7)>>), v>>, Apply2(f, LstV(<<IntV(7)>>), v)>>)
ASSUME \A a \in IVals, v \in Pairs :
          PrintT(<<"FN", "a", "addsnd", 0, <<a, v>>, Apply2(Fn("addsnd", 0), a, v)>>)
ASSUME \A p \in P2, a \in IVals, v \in IVals : PrintT(<<"FN", "q", p.n, p.c, <<a, v>>, Test2(p, a, v)>>)
ASSUME \A f \in ST, v \in Pairs : PrintT(<<"FN", "s", f.n, f.c, v, ApplyStar(f, v)>>)
ASSUME \A c \in {1, 2, 7} :
          /\ PrintT(<<"FN", "e", "errcode", 0, ErrV(c), Apply(Fn("errcode", 0), ErrV(c))>>)
          /\ PrintT(<<"FN", "e", "errconst", 50, ErrV(c), Apply(Fn("errconst", 50), ErrV(c))>>)
          /\ PrintT(<<"FN", "e", "errnone", 0, ErrV(c), Apply(Fn("errnone", 0), ErrV(c))>>)

Init == x = 0
Next == UNCHANGED x
Spec == Init /\ [][Next]_x
=============================================================================
