------------------------------ MODULE PlainSem ------------------------------
(***************************************************************************)
(* Step-wise semantics of a pipeline of dual-mode operators applied to the *)
(* items of ONE group, in two readings:                                    *)
(*   early = TRUE   the plain-observable code path: take/first complete    *)
(*                  the stream with their last item (RxPY semantics), so   *)
(*                  completion-triggered operators downstream fire then;   *)
(*   early = FALSE  the multiplexed code path: a key completes only when   *)
(*                  its parent completes it.                               *)
(* A stream is a sequence of timed items [s |-> step, v |-> value] plus    *)
(* the step `cs` at which it completes (items of the group arrive at steps *)
(* 1..n, the source completes at step n+1; cs = 0: completed at            *)
(* subscription).  C01 is the theorem that both readings deliver the same  *)
(* items in the same order (TLC: PlainCheck.tla), under the stated         *)
(* preconditions.                                                          *)
(***************************************************************************)
EXTENDS ListSem

INF == 1000000000      \* completion step of a stream that has not completed
Ev(s, v) == [s |-> s, v |-> v]
Stream(evs, cs) == [evs |-> evs, cs |-> cs]
SourceStream(xs) == Stream([j \in 1..Len(xs) |-> Ev(j, xs[j])], Len(xs) + 1)
Items(st) == [j \in 1..Len(st.evs) |-> st.evs[j].v]

(* one R/F operator on a timed stream *)
RECURSIVE RFold(_, _, _, _)
RFold(op, evs, j, acc) ==
    IF j > Len(evs) THEN acc
    ELSE LET h == [q \in 1..(j - 1) |-> evs[q].v]
             d == Delta(op, h, evs[j].v)
         IN RFold(op, evs, j + 1, acc \o [q \in 1..Len(d) |-> Ev(evs[j].s, d[q])])

RunOp(op, st, early) ==
    LET cut == IF ~early THEN Len(st.evs)
               ELSE IF op.op = "first" THEN Min2(1, Len(st.evs))
               ELSE IF op.op = "take" THEN Min2(op.n, Len(st.evs))
               ELSE Len(st.evs)
        evs == SubSeq(st.evs, 1, cut)
        (* completion: with the item that exhausts take/first (immediately for take(0)) *)
        cs == IF early /\ op.op = "take" /\ op.n = 0 THEN 0
              ELSE IF early /\ op.op \in {"first", "take"} /\ cut < Len(st.evs) + 1
                      /\ ((op.op = "first" /\ cut = 1) \/ (op.op = "take" /\ cut = op.n))
              THEN evs[cut].s
              ELSE st.cs
        fin == F(op, [q \in 1..Len(evs) |-> evs[q].v])
    IN Stream(RFold(op, evs, 1, <<>>)
              \o (IF cs < INF THEN [q \in 1..Len(fin) |-> Ev(cs, fin[q])] ELSE <<>>), cs)

(* tee_map publishes every input event to branch 1, then branch 2, ...: the branch
   outputs reach the join grouped by input event, then by branch.  BranchEvents
   replays that: for each input event (and finally the completion) the new outputs
   of each branch, obtained as the difference between the branch run on the
   prefix with and without that event. *)
RECURSIVE JoinTimed(_, _, _, _, _, _, _)
JoinTimed(mode, n, E, i, lat, fr, acc) ==
    IF i > Len(E) THEN acc
    ELSE LET e == E[i].e
             b == E[i].b
             lat2 == [lat EXCEPT ![b] = e.v]
             fr2 == [fr EXCEPT ![b] = TRUE] IN
         IF mode = "merge" THEN JoinTimed(mode, n, E, i + 1, lat, fr, Append(acc, e))
         ELSE IF mode = "combine_latest"
         THEN JoinTimed(mode, n, E, i + 1, lat2, fr2, Append(acc, Ev(e.s, TupV(lat2))))
         ELSE IF \A q \in 1..n : fr2[q]
         THEN JoinTimed(mode, n, E, i + 1, Rep(None, n), Rep(FALSE, n),
                        Append(acc, Ev(e.s, TupV(lat2))))
         ELSE JoinTimed(mode, n, E, i + 1, lat2, fr2, acc)

RECURSIVE Run(_, _, _)
Suffix(long, short) == SubSeq(long, Len(short) + 1, Len(long))
Tagged(b, evs) == [q \in 1..Len(evs) |-> [b |-> b, e |-> evs[q]]]

RECURSIVE ConcatAll(_)
ConcatAll(ss) == IF ss = <<>> THEN <<>> ELSE Head(ss) \o ConcatAll(Tail(ss))

BranchEvents(op, st, early) ==
    LET n == Len(op.branches)
        m == Len(st.evs)
        upto(b, j) == Run(op.branches[b], Stream(SubSeq(st.evs, 1, j), INF), early).evs
        perEvent == [j \in 1..m |->
                        ConcatAll([b \in 1..n |-> Tagged(b, Suffix(upto(b, j), upto(b, j - 1)))])]
        atSub == ConcatAll([b \in 1..n |-> Tagged(b, upto(b, 0))])
        atEnd == IF st.cs < INF
                 THEN ConcatAll([b \in 1..n |->
                          Tagged(b, Suffix(Run(op.branches[b], st, early).evs, upto(b, m)))])
                 ELSE <<>>
    IN atSub \o ConcatAll(perEvent) \o atEnd

RunTee(op, st, early) ==
    LET n == Len(op.branches)
        E == BranchEvents(op, st, early)
        css == {Run(op.branches[b], st, early).cs : b \in 1..n}
        cs == CHOOSE c \in css : \A d \in css : d <= c
    IN Stream(JoinTimed(op.join, n, E, 1, Rep(None, n), Rep(FALSE, n), <<>>), cs)

Run(pipe, st, early) ==
    IF pipe = <<>> THEN st
    ELSE Run(Tail(pipe),
             IF Head(pipe).op = "tee" THEN RunTee(Head(pipe), st, early)
             ELSE RunOp(Head(pipe), st, early),
             early)

PlainRun(pipe, xs) == Run(pipe, SourceStream(xs), TRUE)
MuxRun(pipe, xs) == Run(pipe, SourceStream(xs), FALSE)

(* ---- the preconditions of C01, as predicates on pipelines ---- *)
CompletionTriggered(op) ==
    \/ op.op \in {"last", "to_list", "to_array", "batch"}
    \/ (op.op \in {"scan", "count", "sum", "mean", "min", "max"} /\ op.reduce)
    \/ (op.op = "scan" /\ op.term.n # "none")

RECURSIVE HasTee(_)
HasTee(pipe) == \E i \in 1..Len(pipe) : pipe[i].op = "tee"

(* inside a tee branch no completion-triggered operator after take/first *)
RECURSIVE BranchOK(_)
BranchOK(pipe) ==
    /\ \A i, j \in 1..Len(pipe) :
          i < j /\ pipe[i].op \in {"take", "first"} => ~CompletionTriggered(pipe[j])
    /\ \A i \in 1..Len(pipe) :
          pipe[i].op = "tee" =>
              /\ \A b \in 1..Len(pipe[i].branches) : BranchOK(pipe[i].branches[b])
              (* a nested tee completes when all its branches did: after take/first in
                 front of it the nested join is itself completion sensitive *)
              /\ \A q \in 1..(i - 1) : pipe[q].op \notin {"take", "first"}

RECURSIVE PreOK(_)
PreOK(pipe) ==
    \A i \in 1..Len(pipe) :
        pipe[i].op = "tee" => \A b \in 1..Len(pipe[i].branches) : BranchOK(pipe[i].branches[b])
=============================================================================
