------------------------------ MODULE CsvTrace ------------------------------
(***************************************************************************)
(* Trace validation for rxsci.container.csv.  A batch of recorded          *)
(* executions of the real dump() -> line.unframe() -> load(parser) (or     *)
(* dump_to_file / load_from_file) is read from IOEnv.TRACE_FILE:           *)
(*   [{sep, esc, variant, rows: [{fields, line, merged, parsed}], extra}]  *)
(* (variant: which transcription of merge_escape_parts the harness expects *)
(* to be in sync with the tree under test; informational only).            *)
(* Text is a sequence of code points.  A value is tagged:                  *)
(*   [k |-> "s", v |-> text]                       str                     *)
(*   [k |-> "i", v |-> text of str(int)]           int (64 bit and more)   *)
(*   [k |-> "f", v |-> text of str(float)]         float, original         *)
(*   [k |-> "f", v |-> text of repr(parsed), same, exact]  float, parsed   *)
(*   [k |-> "b", v |-> BOOLEAN]   [k |-> "n"] None   [k |-> "o", v] other  *)
(* parsed is [k |-> "ok", v |-> <<values>>] or [k |-> "err", v |-> name]   *)
(* ("columns" for the parser's own column-count error).                    *)
(*                                                                         *)
(* Every row is replayed through the actions Dump and Parse of Csv with    *)
(* the separator and escape symbol of the trace.  Verdict (C18), from the  *)
(* observations of the real code only: the row came back with the same     *)
(* number of fields, every field equal to the original (strings symbol by  *)
(* symbol; numbers by sign and by the text of their shortest repr, which   *)
(* identifies a binary64 value; the exact comparison made by the harness   *)
(* with Fractions must agree).  The model's own dumped line, merged parts  *)
(* and parse result are compared with the real ones too, but only          *)
(* reported (insync): the property does not constrain the dumped text.     *)
(***************************************************************************)
EXTENDS Csv, Json, IOUtils, FiniteSets

Traces == JsonDeserialize(IOEnv.TRACE_FILE)

VARIABLES tid, l, st, nbad, insync

tvars == <<vars, tid, l, st, nbad, insync>>

T == Traces[tid]
R == T.rows[l + 1]

MinusSym == 45
BoolText(b) == IF b THEN <<84, 114, 117, 101>> ELSE <<70, 97, 108, 115, 101>>

(* a logged value as a field of Csv: what dump() does with the python type *)
ToField(x) ==
    IF x.k = "s" THEN [k |-> "s", v |-> x.v]
    ELSE IF x.k = "b" THEN [k |-> "t", v |-> BoolText(x.v)]
    ELSE IF x.k = "n" THEN [k |-> "t", v |-> <<>>]
    ELSE [k |-> "t", v |-> x.v]

RowOf(fields) == [j \in 1..Len(fields) |-> ToField(fields[j])]

Neg(text) == Len(text) > 0 /\ text[1] = MinusSym

(* the verdict for one field: original o, parsed-back g *)
FieldClause(o, g) ==
    IF g.k # o.k THEN "roundtrip-type"
    ELSE IF o.k = "s" THEN (IF g.v = o.v THEN "ok" ELSE "roundtrip-string")
    ELSE IF o.k = "b" THEN (IF g.v = o.v THEN "ok" ELSE "roundtrip-bool")
    ELSE IF o.k = "i" THEN
        (IF Neg(g.v) # Neg(o.v) THEN "roundtrip-sign"
         ELSE IF g.v # o.v THEN "roundtrip-number" ELSE "ok")
    ELSE IF o.k = "f" THEN
        (IF g.same # (g.v = o.v) \/ g.same # g.exact THEN "model-harness-float-flags"
         ELSE IF Neg(g.v) # Neg(o.v) THEN "roundtrip-sign"
         ELSE IF g.v # o.v THEN "roundtrip-number" ELSE "ok")
    ELSE "model-harness-unknown-type"

Bad(r) ==
    LET p == r.parsed IN
    IF p.k = "err"
    THEN {<<0, IF p.v = "columns" THEN "column-count" ELSE "load-error">>}
    ELSE IF Len(p.v) # Len(r.fields) THEN {<<0, "column-count">>}
    ELSE {x \in {<<c, FieldClause(r.fields[c], p.v[c])>> : c \in 1..Len(r.fields)} : x[2] # "ok"}

(* informational: does the model predict what the real code did? *)
RealText(g) ==
    IF g.k = "b" THEN BoolText(g.v) ELSE IF g.k \in {"n", "o"} THEN <<>> ELSE g.v

OutcomeInSync(m, r) ==
    LET p == r.parsed IN
    IF m.k = "err" \/ p.k = "err" THEN m.k = p.k /\ m.v = p.v
    ELSE /\ Len(m.v) = Len(p.v)
         /\ \A c \in 1..Len(m.v) : p.v[c].k = "f" \/ m.v[c] = RealText(p.v[c])

MergedInSync(ln, r) ==
    LET parts == SplitSep(ln, sep)
        m == MergeParts(parts, sep, Quote, esc)
    IN IF r.merged.k = "na" \/ Len(parts) = Len(r.fields) THEN TRUE
       ELSE IF m.k = "err" \/ r.merged.k = "err" THEN m.k = r.merged.k
       ELSE m.v = r.merged.v

TraceInit ==
    /\ tid \in 1..Len(Traces)
    /\ l = 0 /\ st = "load" /\ nbad = 0 /\ insync = TRUE
    /\ sep = Traces[tid].sep /\ esc = Traces[tid].esc /\ variant = Traces[tid].variant
    /\ row = <<>> /\ stage = "parsed" /\ line = <<>> /\ result = Ok(<<>>)

(* the environment of Csv (AddSymbol, AddField) is replaced by the logged row *)
TraceLoad ==
    /\ st = "load" /\ l < Len(T.rows)
    /\ row' = RowOf(R.fields)
    /\ stage' = "build"
    /\ st' = "dump"
    /\ UNCHANGED <<conf, line, result, tid, l, nbad, insync>>

TraceDump ==
    /\ st = "dump"
    /\ Dump
    /\ insync' = (insync /\ line' = R.line /\ MergedInSync(line', R))
    /\ st' = "parse"
    /\ UNCHANGED <<tid, l, nbad>>

TraceParse ==
    /\ st = "parse"
    /\ Parse
    /\ LET bad == Bad(R) IN
        /\ \A x \in bad : PrintT(<<"BAD", tid, l + 1, x[1], x[2]>>)
        /\ nbad' = nbad + Cardinality(bad)
    /\ insync' = (insync /\ OutcomeInSync(result', R))
    /\ l' = l + 1
    /\ st' = "load"
    /\ UNCHANGED tid

TraceEnd ==
    /\ st = "load" /\ l = Len(T.rows)
    /\ LET n == nbad + (IF T.extra > 0 THEN 1 ELSE 0) IN
        /\ T.extra > 0 => PrintT(<<"BAD", tid, 0, 0, "row-count">>)
        /\ IF n = 0 THEN PrintT(<<"VERDICT", tid, "ACCEPT", l, insync>>)
           ELSE PrintT(<<"VERDICT", tid, "REJECT", n, "fields">>)
    /\ st' = "end"
    /\ UNCHANGED <<vars, tid, l, nbad, insync>>

TraceNext == TraceLoad \/ TraceDump \/ TraceParse \/ TraceEnd

TraceSpec == TraceInit /\ [][TraceNext]_tvars

(* the characterization of the repository's defect, proved on the model over
   the small alphabet, must also hold for the model on every real row *)
TraceCharacterization == Characterization
TraceRoundTrip == RoundTrip
=============================================================================
