--------------------------- MODULE MathAggTrace ---------------------------
(***************************************************************************)
(* Trace validation for rxsci.math.  A batch of recorded executions of the *)
(* real operators is read from IOEnv.TRACE_FILE; one record is one         *)
(* subscription of one operator:                                           *)
(*   [op, mode (plain|mux|store), num (exact|float), reduce (0|1),         *)
(*    unit, items, outs, final, ended, km, sib]                            *)
(* items: integers a, the item sent is a / unit; outs[j]: the values       *)
(* emitted while item j was delivered, final: at completion.  A value is   *)
(* <<num, den>> (the harness converts the real output exactly with         *)
(* Fraction), <<>> for None, <<num, den, 2>> for a stddev whose square is  *)
(* num/den, <<0, 0, 9>> for anything that is not such a number.  km[j]:    *)
(* key_mapper calls during item j.  sib (reduce records): the last value   *)
(* the streaming subscription of the same operator emitted on the same     *)
(* items.                                                                  *)
(*                                                                         *)
(* Every record is replayed through Item / Complete of MathAgg with        *)
(* inst = {op}.  Verdict (C12), by the part-2 definitions of MathAgg only: *)
(*   count   a streaming instance does not emit exactly one value per item *)
(*           (and none at completion), a reduce instance does not emit     *)
(*           exactly one value, at completion                              *)
(*   value   an emitted value is not the statistic of the items so far     *)
(*   empty   the value a reduce instance emits on no items is wrong        *)
(*   streaming-vs-reduce  the reduce value differs from the last streaming *)
(*           value                                                         *)
(*   error   the subscription did not complete normally                    *)
(* Whether the emissions also equal those of the implementation-shaped     *)
(* part (with the configured FormalClears) and key_mapper ran once per     *)
(* item is reported as insync, not as a verdict.                           *)
(***************************************************************************)
EXTENDS MathAgg, Json, IOUtils

Traces == JsonDeserialize(IOEnv.TRACE_FILE)

VARIABLES tid, l, ph, badStep, badClause, insync

tvars == <<vars, tid, l, ph, badStep, badClause, insync>>

T == Traces[tid]

TraceInit ==
    /\ tid \in 1..Len(Traces)
    /\ l = 0 /\ ph = "run" /\ badStep = 0 /\ badClause = "" /\ insync = TRUE
    /\ bag = EmptyBag /\ nrecv = 0 /\ hist = <<>> /\ unit = Traces[tid].unit
    /\ inst = {Traces[tid].op} /\ done = FALSE /\ kmCalls = 0
    /\ sumAcc = SumSeed /\ meanAcc = MeanSeed /\ minAcc = None /\ maxAcc = None
    /\ wel = WelSeed /\ fAccS = FormalSeed /\ fAccR = FormalSeed
    /\ lastS = [op \in Ops |-> NoVal] /\ lastR = [op \in Ops |-> NoVal]
    /\ cntS = 0 /\ cntR = 0
    /\ st = Stats(EmptyBag, 1)

(* stop at once: the rest of the record cannot be aligned with the model *)
Reject(step, clause) ==
    /\ PrintT(<<"VERDICT", tid, "REJECT", step, clause, FALSE>>)
    /\ ph' = "end"
    /\ UNCHANGED <<vars, tid, l, badStep, badClause, insync>>

TraceError ==
    /\ ph = "run" /\ l = 0 /\ T.ended # "completed"
    /\ Reject(0, "error")

TraceItem ==
    /\ ph = "run" /\ l < Len(T.items) /\ T.ended = "completed"
    /\ LET a == T.items[l + 1]
           o == T.outs[l + 1]
       IN IF T.op \notin Ops \/ T.unit < 1 THEN Reject(0, "model-harness-record")
          ELSE IF T.reduce = 0 /\ Len(o) # 1 THEN Reject(l + 1, "count")
          ELSE IF T.reduce = 1 /\ Len(o) # 0 THEN Reject(l + 1, "count")
          ELSE /\ Item(a)
               /\ IF T.reduce = 0
                  THEN LET ok == Denotes(o[1], SpecValue(T.op, st', unit))
                       IN /\ badStep' = IF badStep = 0 /\ ~ok THEN l + 1 ELSE badStep
                          /\ badClause' = IF badStep = 0 /\ ~ok THEN "value" ELSE badClause
                          /\ insync' = (insync /\ o[1] = lastS'[T.op] /\ T.km[l + 1] = 1)
                  ELSE /\ insync' = (insync /\ T.km[l + 1] = 1)
                       /\ UNCHANGED <<badStep, badClause>>
               /\ l' = l + 1
               /\ UNCHANGED <<tid, ph>>

Verdict(step, clause, sync) ==
    IF step = 0 THEN PrintT(<<"VERDICT", tid, "ACCEPT", l + 1, sync>>)
    ELSE PrintT(<<"VERDICT", tid, "REJECT", step, clause, sync>>)

TraceComplete ==
    /\ ph = "run" /\ l = Len(T.items) /\ T.ended = "completed"
    /\ IF T.op \notin Ops \/ T.unit < 1 THEN Reject(0, "model-harness-record")
       ELSE IF T.reduce = 0 /\ Len(T.final) # 0 THEN Reject(l + 1, "count")
       ELSE IF T.reduce = 1 /\ Len(T.final) # 1 THEN Reject(l + 1, "count")
       ELSE /\ Complete
            /\ IF T.reduce = 0
               THEN Verdict(badStep, badClause, insync)
               ELSE LET v == T.final[1]
                        ok == Denotes(v, SpecValue(T.op, st, unit))
                        clause == IF ~ok THEN (IF N = 0 THEN "empty" ELSE "value")
                                  ELSE IF N >= 1 /\ v # T.sib THEN "streaming-vs-reduce"
                                  ELSE ""
                    IN Verdict(IF clause = "" THEN 0 ELSE l + 1, clause,
                               insync /\ v = lastR'[T.op])
            /\ ph' = "end"
            /\ UNCHANGED <<tid, l, badStep, badClause, insync>>

TraceNext == TraceError \/ TraceItem \/ TraceComplete

TraceSpec == TraceInit /\ [][TraceNext]_tvars

(* the design-level invariants must also hold along every replayed trace *)
TraceModelOK ==
    /\ WelfordIdentity /\ FoldIdentity /\ Counts /\ KeyMapperOnce
    /\ StreamingValue /\ ReduceValue /\ StreamEqualsReduce /\ StdDevSquared
=============================================================================
